"""C05 -- threshold verdicts, last-match-wins rule resolution and explain coherence."""
import itertools
import json
import time
from gen_threshold import *  # noqa

PROP_FILES = ["Threshold/Properties_C05.v", "Threshold/Properties_C05_flocq.v"]
PROP_ALLOW = {"Threshold/Properties_C05.v": "default", "Threshold/Properties_C05_flocq.v": "flocq"}
MANIFEST = dict(
    technique="Coq proof on a Gallina port of checker/threshold.rs + compute_effective_stats + the check/explain override glue + validate_content_section "
              "(binary64 through Coq.Floats.SpecFloat; glob matching enters as a match vector computed with the real globset), tied by differential execution of the "
              "extracted model against ThresholdChecker (library level) and against the real CLI pair check/explain",
    text="Theorems C05_trichotomy_{failed,warning,passed}, C05_check_is_verdict_of_effective_count, C05_effective_count, C05_ignored_never_counted, C05_monotone_count, "
         "C05_monotone_limit_absolute, C05_monotone_limit_failed, C05_warn_point_is_spec_of_limit, C05_last_match_wins, C05_no_rule_iff_no_match, C05_rules_in_declaration_order, "
         "C05_precedence_{warn,limit,skip}, C05_validated_warn_at_below_limit, C05_validated_thresholds_in_unit, C05_in_unit_excludes_nan, C05_check_command_{evaluates_only_valid,config_error_iff,overrides_validated}, C05_check_checker_is_new_of_overridden, C05_commands_agree_on_validity, C05_explain_reports_what_check_uses, C05_explain_coherent, C05_explain_excluded_{iff,not_checked}, "
         "C05_explain_command_uses_check_checker, C05_cli_overrides_{globals_only,rule_wins,apply_without_rule} (closed under the global context) and C05_pct_point_monotone_in_limit, "
         "C05_monotone_limit_percentage, C05_monotone_limit (through Flocq) hold for every rule list, match vector, global setting, override, threshold bit pattern and count (unbounded). "
         "The tie is a seeded, boundary-directed differential run plus a small-scope sweep (exhaustive in the thorough tier) and the property oracle evaluated on the implementation itself, "
         "at library level and through `check --format json` / `explain --format json`.",
    note="Trusted: Coq kernel, extraction (ExtrOcamlBasic), harness sgv-threshold, globset, toml/clap float parsing, std Path::extension. "
         "The three percentage-monotonicity theorems inherit Flocq's classical real-number axioms (allow-list `flocq`) and assume the limit fits usize. "
         "Files without a recognised language have no count and are outside C05 (D24 is a scope question of C01; the check records the observation in evidence).",
    ref="5 (C05)")


# ------------------------------------------------------------------ library-level case generation

def base_cases(ctx, n):
    """(cfg, path, inst, cli, tag) tuples: seeded, structure-directed."""
    rng = ctx.rng
    out = []
    for _ in range(n):
        r = rng.random()
        hostile = r >= 0.8
        cfg = rand_cfg(rng, hostile)
        inst = cli = None
        tag = "hostile" if hostile else "plain"
        q = rng.random()
        if q < 0.2:
            cli = rand_cli(rng, hostile)
            tag += "+cli"
        elif q < 0.3:
            inst = rand_threshold(rng, hostile)
            tag += "+inst"
        # aim the path at the rule patterns: most paths match something
        out.append((cfg, rng.choice(PATHS), inst, cli, tag))
    return out


def sweep_selection(ctx):
    """Small scope A: every rule list of length <= 3 over 5 patterns x 6 paths; each rule carries distinct decoy values,
    once with every optional field present and once with every optional field absent."""
    out = []
    half = bits(0.5)
    for n in range(0, 4):
        for pats in itertools.product(SMALL_PATTERNS, repeat=n):
            for full in itertools.product([False, True], repeat=n):
                rules = []
                for i, (p, fl) in enumerate(zip(pats, full)):
                    if fl:
                        rules.append(Rule(p, i + 2, bits([0.5, 0.8, 0.9][i]), i, i % 2 == 0, i % 2 == 1, "r%d" % i))
                    else:
                        rules.append(Rule(p, i + 2))
                cfg = Cfg(5, half, None, True, False, ["rs"], [], rules)
                for path in SMALL_PATHS:
                    out.append((cfg, path, None, None, "sweepA"))
    return out


def sweep_precedence(ctx):
    """Small scope B: every presence/absence combination of the optional fields of the selected rule and of the global
    warn_at x limits 0..6 x thresholds {0,.5,.8,.9,1} (rule and global) x four list shapes."""
    out = []
    ts = [bits(t) for t in SPECIAL_T]
    for shape in range(4):
        for mx in range(0, 7):
            for has_wt, has_wa, has_sc, has_sb, g_wa in itertools.product([False, True], repeat=5):
                was = sorted({0, max(0, mx - 1), mx + 1}) if has_wa else [None]
                for wa in was:
                    for rt in (ts if has_wt else [None]):
                        for gt in ts:
                            r = Rule("src/**", mx, rt, wa, (mx % 2 == 0) if has_sc else None, (mx % 2 == 1) if has_sb else None, "sel")
                            decoy = Rule("**/*.rs", 9, bits(0.25), 1, False, False, "decoy")
                            miss = Rule("tests/**", 8, bits(0.75), 2, True, True, "miss")
                            rules = [[r], [], [r, miss], [decoy, r]][shape]
                            gmax = 3 if shape != 1 else mx
                            cfg = Cfg(gmax, gt, (gmax - 1 if gmax > 0 else 0) if g_wa else None, has_sc, not has_sb, [], [], rules)
                            out.append((cfg, "src/a.rs", None, None, "sweepB"))
    return out


def probe(impl, bases):
    """Run every base once with empty stats to learn the match vectors (computed by the harness with the real globset)."""
    cases = [Case(cfg, path, (0, 0, 0, 0, 0), inst, cli, tag) for (cfg, path, inst, cli, tag) in bases]
    outs, errs = run_impl(impl, [c.wire_impl() for c in cases], timeout=900)
    res = []
    for c, o in zip(cases, outs):
        d = parse_fields(o)
        if "_raw" in d:
            res.append((c, None))
            continue
        c.mv, c.ev, c.ext = d["MV"], d["EV"], d["EXT"]
        res.append((c, d))
    return res, errs


def expand(ctx, probed, all_counts=False, per=8):
    """Boundary-directed stats for each probed base."""
    rng = ctx.rng
    cases, broken = [], []
    for c, d in probed:
        if d is None:
            broken.append(c)
            continue
        s = spec(c)
        if all_counts:
            counts = list(range(0, s["limit"] + 3))
        else:
            counts = boundary_counts(rng, s["limit"], s["warn"])
            if len(counts) > per:
                rng.shuffle(counts)
                counts = counts[:per]
        for k in counts:
            n = Case(c.cfg, c.path, split_count(rng, k, s["sc"], s["sb"]), c.inst, c.cli, c.tag)
            n.mv, n.ev, n.ext = c.mv, c.ev, c.ext
            cases.append(n)
    return cases, broken


def corpus_cases():
    p = os.path.join(CORPUS, "threshold.jsonl")
    out = []
    if os.path.exists(p):
        for line in open(p):
            if line.strip():
                c = Case.from_json(json.loads(line))
                c.tag = "corpus"
                out.append(c)
    return out


INVALID_PATTERNS = ["src/[", "a{b", "[!", "a[z-a]", "}{"]


def invalid_pattern_cases(ctx):
    out = []
    for p in INVALID_PATTERNS:
        out.append(Case(Cfg(5, bits(0.9), rules=[Rule("**", 3), Rule(p, 4)]), "src/a.rs", (1, 1, 0, 0, 0), tag="badrule"))
        out.append(Case(Cfg(5, bits(0.9), exclude=[p]), "src/a.rs", (1, 1, 0, 0, 0), tag="badexclude"))
    return out


# ------------------------------------------------------------------ library-level differential + oracle

class Tally:
    def __init__(self):
        self.evals = 0
        self.mism = []        # (case, impl line, model line, key)
        self.fails = []       # (case, impl line, [failures])
        self.nontrivial = set()
        self.hist = {}
        self.died = []

    def bump(self, k, n=1):
        self.hist[k] = self.hist.get(k, 0) + n


def run_library(ctx, impl, model, cases, tally, sample_idx=()):
    if not cases:
        return [], []
    outs, errs = run_impl(impl, [c.wire_impl() for c in cases], timeout=1200)
    tally.died += errs
    ds = [parse_fields(o) for o in outs]
    mlines, midx = [], []
    for i, (c, d) in enumerate(zip(cases, ds)):
        if "_raw" in d:
            continue
        if c.mv is None:
            c.mv, c.ev, c.ext = d["MV"], d["EV"], d["EXT"]
        elif (c.mv, c.ev, c.ext) != (d["MV"], d["EV"], d["EXT"]):
            raise CheckBroken("match vector changed between probe and run for %s" % c.wire_impl()[:200])
        mlines.append(c.wire_model())
        midx.append(i)
    mouts, merrs = run_sharded(model, mlines, timeout=1200)
    if merrs:
        raise CheckBroken("model driver failed: %s" % merrs[:1])
    mo = {i: o for i, o in zip(midx, mouts)}
    for i, (c, d) in enumerate(zip(cases, ds)):
        tally.evals += 1
        tally.bump("tag:" + c.tag)
        if "_raw" in d:
            tally.fails.append((c, d["_raw"], ["implementation answered " + d["_raw"][:100]]))
            continue
        md = parse_fields(mo[i])
        if "_raw" in md:
            raise CheckBroken("model driver answered %s for %s" % (md["_raw"][:100], c.wire_model()[:300]))
        for k in COMPARED:
            if d[k] != md[k]:
                tally.mism.append((c, outs[i], mo[i], k))
                break
        f = oracle(c, d)
        if f:
            tally.fails.append((c, outs[i], f))
        # distribution and non-triviality, measured on the model's answer
        mex = parse_expl(md["EXP"])
        mp = parse_result(md["PFC"])
        cnt = int(md["EFF"].split(",")[1])
        boundary = (not mex["excluded"]) and any(abs(cnt - x) <= 1 for x in (mex["limit"], mex["warn"]))
        if mex["kind"] == "R" or boundary:
            tally.nontrivial.add(c.wire_model())
        tally.bump("verdict:" + mp["status"])
        tally.bump("warn_source:" + (mex["src"].split(":")[0] if not mex["excluded"] else "excluded"))
        tally.bump("matching_rules:%d" % min(c.mv.count("1"), 4))
        tally.bump("rules:%d" % min(len(c.cfg.rules), 4))
        tally.bump("skip:" + md["SK"])
        if boundary:
            tally.bump("boundary_count")
        if mex["kind"] == "R":
            r = c.cfg.rules[mex["idx"]]
            tally.bump("selected_rule_fields(wt,wa,sc,sb):" + "".join(b01(x is not None) for x in (r.wt, r.wa, r.sc, r.sb)))
        if i in sample_idx:
            ctx.sample({"case": c.to_json(), "match_vector": c.mv, "impl": {k: d[k] for k in ("SP", "SK", "EFF", "PFC", "EXP")},
                        "model": {k: md[k] for k in ("SP", "SK", "EFF", "PFC", "EXP")}})
    return ds, [mo.get(i) for i in range(len(cases))]


# ------------------------------------------------------------------ CLI level: check --format json vs explain --format json

CLI_PATHS = ["src/a.rs", "src/b.go", "src/gen/a.rs", "a.rs", "tests/t.rs", "lib/x.py", "src/deep/er/m.rs", "Dockerfile", "notes.xyz", "src/gen/Makefile"]
CLI_PATTERNS = ["**", "**/*.rs", "src/**", "src/*.rs", "src/gen/**", "*.rs", "tests/**", "Dockerfile", "**/*.xyz", "src/**/*.go", "lib/*", "**/Makefile"]
KNOWN_LANG = {"rs": ("let x = 1;", "//"), "go": ("x := 1", "//"), "py": ("x = 1", "#")}


def file_text(ext, code, comment, blank, ignored):
    stmt, pre = KNOWN_LANG.get(ext, ("RUN x", "#"))
    lines = []
    if ignored > 0 and comment >= 2:
        lines += [pre + " sloc-guard:ignore-start"] + [stmt] * ignored + [pre + " sloc-guard:ignore-end"]
        comment -= 2
    else:
        ignored = 0
    lines += [stmt] * code + [pre + " c"] * comment + [""] * blank
    return "\n".join(lines) + ("\n" if lines else ""), ignored


def cli_cfg(rng):
    def t():
        return bits(rng.choice(SPECIAL_T + [round(rng.random(), 2), rng.random()]))
    n = rng.choice([0, 1, 2, 2, 3, 4])
    rules = []
    for _ in range(n):
        mx = rng.randint(1, 30)
        rules.append(Rule(rng.choice(CLI_PATTERNS), mx, rand_opt(rng, t, 0.5), rand_opt(rng, lambda: rng.randint(0, mx - 1), 0.4),
                          rand_opt(rng, lambda: rng.random() < 0.5), rand_opt(rng, lambda: rng.random() < 0.5), rng.choice([None, "legacy", "gen"])))
    mx = rng.randint(1, 30)
    return Cfg(mx, t(), rand_opt(rng, lambda: rng.randint(0, mx - 1), 0.35), rng.random() < 0.5, rng.random() < 0.5,
               rng.choice([["rs"], ["rs", "go"], ["rs", "go", "py"], ["py"]]), rng.choice([[], [], ["src/gen/**"], ["tests/**"]]), rules)


def expl_from_json(j):
    m = j["matched_rule"]
    if m["type"] == "excluded":
        matched = "X:" + enc(m["pattern"])
    elif m["type"] == "rule":
        matched = "R:%d:%s:%s" % (m["index"], enc(m["pattern"]), opt(m["reason"], enc))
    else:
        matched = "D"
    s = j["warn_at_source"]
    src = {"rule_absolute": lambda: "RA:%d" % s["index"], "rule_percentage": lambda: "RP:%d:%d" % (s["index"], bits(float(s["threshold"]))),
           "global_absolute": lambda: "GA", "global_percentage": lambda: "GP:%d" % bits(float(s["threshold"]))}[s["type"]]()
    chain = "/".join("%s:%s:%d:%s" % (enc(c["source"]), opt(c["pattern"], enc), c["limit"], {"matched": "M", "superseded": "S", "no_match": "N"}[c["status"]])
                     for c in j["rule_chain"])
    return "%s|%s|%d|%d|%s|%d|%s%s|%s" % (b01(j["is_excluded"]), matched, j["effective_limit"], j["effective_warn_at"], src,
                                           bits(float(j["warn_threshold"])), b01(j["skip_comments"]), b01(j["skip_blank"]), chain)


def sb_run(sb, exe, args, **kw):
    """Sandbox.run that survives a concurrent cargo re-link of the shared target directory (the binary is briefly absent)."""
    for attempt in range(120):
        try:
            return sb.run(exe, args, **kw)
        except (FileNotFoundError, PermissionError, OSError) as e:
            if attempt == 119:
                raise CheckBroken("binary %s unavailable: %s" % (exe, e))
            time.sleep(1)


def run_cli_pairs(ctx, cli_exe, impl, model, defaults, nproj, tally):
    rng = ctx.rng
    st = {"projects": 0, "spawns": 0, "files_compared": 0, "explains_compared": 0, "override_runs": 0, "override_config_errors": 0, "no_language_files_skipped_by_check": 0,
          "no_language_witness": None,
          "no_language_note": "observation only (D24 shape): a file brought into scope by a rule or an empty extension filter but without a recognised language is skipped by "
                              "process_file_with_cache before any count exists; C05 quantifies over counts, so such files are outside its domain. explain answers, for them too, with the "
                              "rule/limit/warn point/flags that ThresholdChecker::check applies to any count for that path (tied at library level, e.g. the Dockerfile corpus case)"}
    STATUS = {"passed": "P", "warning": "W", "failed": "F"}
    langs = set(defaults["languages"].split(","))
    for pi in range(nproj):
        cfg = cli_cfg(rng)
        omit = set()
        if rng.random() < 0.25:     # rely on the crate defaults for some globals
            omit = set(rng.sample(["max_lines", "warn_threshold", "skip_comments", "skip_blank"], rng.randint(1, 3)))
            if "max_lines" in omit:
                cfg.max = int(defaults["max_lines"])
                if cfg.wa is not None and cfg.wa >= cfg.max:
                    cfg.wa = None
            if "warn_threshold" in omit:
                cfg.wt = int(defaults["warn_threshold_bits"])
            if "skip_comments" in omit:
                cfg.sc = defaults["skip_comments"] == "1"
            if "skip_blank" in omit:
                cfg.sb = defaults["skip_blank"] == "1"
        paths = rng.sample(CLI_PATHS, rng.randint(3, 6))
        cli = rand_opt(rng, lambda: Cli(rand_opt(rng, lambda: rng.randint(1, 30), 0.6), rng.random() < 0.4, rng.random() < 0.4,
                                        rand_opt(rng, lambda: bits(rng.choice(SPECIAL_T + [round(rng.random(), 2), round(rng.random(), 2), 1.5, 7.0, -0.25, float("nan")])), 0.6)), 0.4)
        # match vectors from the harness, boundary-directed file sizes from the spec
        pr, _ = probe(impl, [(cfg, p, None, None, "cli") for p in paths] + [(cfg, ".sloc-guard.toml", None, None, "cli")])
        with Sandbox() as sb:
            sb.write(".sloc-guard.toml", cfg.toml(omit))
            want = {}
            for c, d in pr[:-1]:
                if d is None:
                    raise CheckBroken("probe failed for CLI config " + cfg.wire())
                s = spec(c)
                k = rng.choice(boundary_counts(rng, s["limit"], s["warn"]))
                k = min(k, 80)
                total, code, comment, blank, ign = split_count(rng, k, s["sc"], s["sb"])
                comment, blank, ign = min(comment, 40), min(blank, 40), min(ign, 6)
                ext = c.path.rsplit(".", 1)[1] if "." in os.path.basename(c.path) else ""
                text, ign = file_text(ext, code, comment, blank, ign)
                sb.write(c.path, text)
                want[c.path] = (code, comment, blank, ign)
            runs = [None] + ([cli] if cli is not None else [])
            explained = {}
            for ov in runs:
                args = ["--color", "never", "check", "--format", "json", "--no-sloc-cache"] + (ov.args() if ov else [])
                rc, out, err = sb_run(sb, cli_exe, args, env={"RAYON_NUM_THREADS": "2"})
                st["spawns"] += 1
                if ov:
                    st["override_runs"] += 1
                # check validates the overridden configuration: model and spec say whether this run is a configuration error
                c0 = pr[0][0]
                vc = Case(cfg, c0.path, (0, 0, 0, 0, 0), cli=ov, tag="cli-validity")
                vc.mv, vc.ev, vc.ext = c0.mv, c0.ev, c0.ext
                vm, _, _ = run_lines(model, [vc.wire_model()])
                model_valid = parse_fields(vm[0]).get("VALO") == "1" if vm else None
                spec_valid = config_valid(cfg, ov)
                tally.evals += 1
                tally.bump("tag:cli-validity")
                if model_valid != spec_valid:
                    raise CheckBroken("model and spec disagree on validity of %s with %s" % (cfg.wire(), ov.args() if ov else None))
                if not spec_valid:
                    st["override_config_errors"] += 1
                    tally.nontrivial.add("cli-invalid\t" + vc.wire_model())
                    if rc != 2 or out.strip().startswith("{"):
                        tally.mism.append((vc, "exit %d, stdout %r" % (rc, out[:200]), vm[0] if vm else "", "VALO(check exits 2 on an override that breaks validation)"))
                        tally.fails.append((vc, "exit %d %s" % (rc, (out + err)[:300]), ["check ran with overrides %s that break a validated constraint (exit %d, expected the configuration error exit 2)" % (ov.args(), rc)]))
                    continue
                try:
                    j = json.loads(out)
                except Exception:
                    tally.fails.append((Case(cfg, ".", (0, 0, 0, 0, 0), cli=ov, tag="cli"), out[:300] + err[:300], ["check --format json produced no JSON (exit %d)" % rc]))
                    continue
                reported = {}
                for r in j["results"]:
                    rel = r["path"][2:] if r["path"].startswith("./") else r["path"]
                    reported[rel] = r
                allpaths = sorted(set(want) | set(reported))
                pr2, _ = probe(impl, [(cfg, p, None, ov, "cli") for p in allpaths])
                mcases = []
                for (c, d), p in zip(pr2, allpaths):
                    r = reported.get(p)
                    if r is not None:
                        rs = r["stats"]
                        c.stats = (rs["total"], rs["code"], rs["comment"], rs["blank"], rs["total"] - rs["code"] - rs["comment"] - rs["blank"])
                    else:
                        w = want[p]
                        c.stats = (sum(w), w[0], w[1], w[2], w[3])
                    c.tag = "cli-check" + ("+override" if ov else "")
                    mcases.append(c)
                mouts, merrs = run_sharded(model, [c.wire_model() for c in mcases])
                if merrs:
                    raise CheckBroken("model driver failed: %s" % merrs[:1])
                for c, mo, p in zip(mcases, mouts, allpaths):
                    md = parse_fields(mo)
                    r = reported.get(p)
                    ext = os.path.basename(p).rsplit(".", 1)[1] if "." in os.path.basename(p).lstrip(".") else None
                    haslang = ext in langs
                    tally.evals += 1
                    tally.bump("tag:" + c.tag)
                    if p in want and r is not None and (r["stats"]["code"], r["stats"]["comment"], r["stats"]["blank"]) != want[p][:3] and ext in KNOWN_LANG:
                        raise CheckBroken("generated file %s counted as %s, built as %s" % (p, r["stats"], want[p]))
                    if md["SP"] == "1" and not haslang:
                        # in scope by a rule / empty filter but no language: check has no count for it (D24 shape, outside C05)
                        st["no_language_files_skipped_by_check"] += 1
                        if st["no_language_witness"] is None and parse_expl(md["XEXP"])["kind"] == "R":
                            st["no_language_witness"] = {"config_toml": cfg.toml(omit), "file": p}
                        continue
                    if (md["SP"] == "1") != (r is not None):
                        tally.mism.append((c, json.dumps(r), mo, "SP(check evaluates the file)"))
                        tally.fails.append((c, json.dumps(r), ["check %s %s but the property's scope rule says %s" %
                                                               ("reports" if r is not None else "does not report", p, md["SP"])]))
                        continue
                    if r is None:
                        continue
                    mp = parse_result(md["PFC"])
                    got = (STATUS.get(r["status"], r["status"]), r["sloc"], r["limit"], r.get("override_reason"))
                    exp = (mp["status"], mp["stats"][1], mp["limit"], mp["reason"])
                    st["files_compared"] += 1
                    tally.nontrivial.add("cli\t" + c.wire_model())
                    if got != exp:
                        tally.mism.append((c, json.dumps(r), mo, "check-json"))
                        s = spec(c)
                        if got != (s["status"], s["count"], s["limit"], s["reason"]):
                            tally.fails.append((c, json.dumps(r), ["check --format json reports (status, sloc, limit, reason) = %r, the property demands %r" %
                                                                   (got, (s["status"], s["count"], s["limit"], s["reason"]))]))
                    # explain for the same path (explain has no override flags: it describes the configuration file)
                    if p not in explained:
                        rc2, out2, err2 = sb_run(sb, cli_exe, ["--color", "never", "explain", p, "--format", "json"])
                        st["spawns"] += 1
                        try:
                            explained[p] = json.loads(out2)
                        except Exception:
                            tally.fails.append((c, out2[:300] + err2[:300], ["explain --format json produced no JSON (exit %d)" % rc2]))
                            continue
                    ej = explained[p]
                    es = expl_from_json(ej)
                    st["explains_compared"] += 1
                    if es != md["XEXP"]:
                        tally.mism.append((c, es, md["XEXP"], "explain-json"))
                    if ov is None:
                        # coherence, implementation against itself: explain's numbers reproduce check's verdict
                        rs = r["stats"]
                        cnt = rs["code"] + (0 if ej["skip_comments"] else rs["comment"]) + (0 if ej["skip_blank"] else rs["blank"])
                        want_status = verdict(cnt, ej["effective_limit"], ej["effective_warn_at"])
                        if ej["is_excluded"] or (cnt, ej["effective_limit"], want_status) != (r["sloc"], r["limit"], STATUS.get(r["status"])):
                            tally.fails.append((c, json.dumps(r), ["explain reports limit %d warn %d skip %s/%s (count %d -> %s), check reports sloc %d limit %d %s" %
                                                                   (ej["effective_limit"], ej["effective_warn_at"], ej["skip_comments"], ej["skip_blank"], cnt, want_status,
                                                                    r["sloc"], r["limit"], r["status"])]))
            # aliases of a file: a symbolic link in ANOTHER directory (check evaluates it when it is listed with --files) and a
            # spelling with a `..` segment. Rules are matched against the path as given, by check and by explain alike:
            # explain must report the limit, warn point and flags check applies to THAT path, not to where it resolves
            aliases = []
            real = [q for q in want if os.path.basename(q).rsplit(".", 1)[-1] in KNOWN_LANG and "." in os.path.basename(q)]
            dirs_here = sorted({os.path.dirname(q) for q in CLI_PATHS} | {"vendor", "lib/inner"})
            for q in rng.sample(real, min(2, len(real))):
                d = rng.choice([x for x in dirs_here if x != os.path.dirname(q)] or [""])
                lp = os.path.join(d, "l_" + os.path.basename(q)) if d else "l_" + os.path.basename(q)
                full = os.path.join(sb.proj, lp)
                os.makedirs(os.path.dirname(full), exist_ok=True)
                if not os.path.lexists(full):
                    os.symlink(os.path.relpath(os.path.join(sb.proj, q), os.path.dirname(full)), full)
                    aliases.append((lp, "symlink to " + q))
                if os.path.dirname(q):
                    other = rng.choice([x for x in dirs_here if x and os.path.isdir(os.path.join(sb.proj, x))] or ["src"])
                    if os.path.isdir(os.path.join(sb.proj, other)):
                        aliases.append((other + "/" + "/".join([".."] * (other.count("/") + 1)) + "/" + q, "dot-dot spelling of " + q))
            for ap, what in aliases:
                rc, out, err = sb_run(sb, cli_exe, ["--color", "never", "check", "--format", "json", "--no-sloc-cache", "--files", ap], env={"RAYON_NUM_THREADS": "1"})
                rc2, out2, err2 = sb_run(sb, cli_exe, ["--color", "never", "explain", ap, "--format", "json"])
                st["spawns"] += 2
                try:
                    rr = [r for r in json.loads(out)["results"] if r.get("violation_category") in (None, "content") or "sloc" in r]
                    ej = json.loads(out2)
                except Exception:
                    continue
                rr = [r for r in rr if r.get("stats")]
                if len(rr) != 1 or ej.get("is_excluded"):
                    continue
                r = rr[0]
                rs = r["stats"]
                cnt = rs["code"] + (0 if ej["skip_comments"] else rs["comment"]) + (0 if ej["skip_blank"] else rs["blank"])
                want_status = verdict(cnt, ej["effective_limit"], ej["effective_warn_at"])
                st["alias_pairs"] = st.get("alias_pairs", 0) + 1
                tally.evals += 1
                tally.bump("tag:cli-alias")
                if (cnt, ej["effective_limit"], want_status) != (r["sloc"], r["limit"], STATUS.get(r["status"])):
                    ac = Case(cfg, ap, (rs["total"], rs["code"], rs["comment"], rs["blank"], 0), tag="cli-alias")
                    tally.fails.append((ac, json.dumps(r), ["%s (%s): explain reports limit %d warn %d skip %s/%s (count %d -> %s), check --files reports sloc %d limit %d %s" %
                                                            (ap, what, ej["effective_limit"], ej["effective_warn_at"], ej["skip_comments"], ej["skip_blank"], cnt, want_status,
                                                             r["sloc"], r["limit"], r["status"])]))
            if pi < 2:
                ctx.sample({"cli_project": cfg.toml(omit), "files": want, "override_args": cli.args() if cli else None,
                            "explain_of_first_file": explained.get(sorted(explained)[0]) if explained else None})
        st["projects"] += 1
    return st


# ------------------------------------------------------------------ extraction cross-check

def coq_opt(x, f=str):
    return "None" if x is None else "(Some %s)" % f(x)


def coq_str(s):
    return "[" + ";".join(str(ord(c)) for c in s) + "]"


def coq_bool(b):
    return "true" if b else "false"


def coq_cfg(cfg):
    rules = ";".join("mk_rule %s %d %s %s %s %s %s" % (coq_str(r.pattern), r.max, coq_opt(r.wt), coq_opt(r.wa), coq_opt(r.sc, coq_bool), coq_opt(r.sb, coq_bool),
                                                       coq_opt(r.reason, coq_str)) for r in cfg.rules)
    return "(mk_config [%s] %d %d %s %s %s [%s] [%s])" % (";".join(coq_str(e) for e in cfg.exts), cfg.max, cfg.wt, coq_opt(cfg.wa), coq_bool(cfg.sc), coq_bool(cfg.sb),
                                                          ";".join(coq_str(e) for e in cfg.exclude), rules)


def xcheck(ctx, cases, mouts, k):
    """Evaluate a sub-sample inside Coq (vm_compute) and compare with the extracted driver: verdict, limit, warn point, skip flags, count."""
    idx = [i for i, c in enumerate(cases) if c.cli is None and c.mv is not None and i < len(mouts) and mouts[i] is not None]
    ctx.rng.shuffle(idx)
    pick = idx[:k]
    exprs = []
    for i in pick:
        c = cases[i]
        ck = "(new_checker %s)" % coq_cfg(c.cfg)
        if c.inst is not None:
            ck = "(with_warning_threshold %s %d)" % (ck, c.inst)
        mv = "[" + ";".join(coq_bool(x == "1") for x in c.mv) + "]"
        ev = "[" + ";".join(coq_bool(x == "1") for x in c.ev) + "]"
        st = "(mk_stats %d %d %d %d %d)" % c.stats
        exprs.append("let ck := %s in let r := process_for_check ck %s %s in let e := explain ck %s %s in "
                     "[match res_status r with Passed => 0 | Warning => 1 | Failed => 2 end; res_limit r; ls_code (res_stats r); ex_warn_at e; ex_limit e; "
                     "(if ex_sc e then 1 else 0); (if ex_sb e then 1 else 0); (if ex_excluded e then 1 else 0)]" % (ck, mv, st, ev, mv))
    res = coq_eval("From Coq Require Import NArith List.\nFrom SG Require Import Threshold.Float64 Threshold.Model.", exprs)
    bad = 0
    for i, r in zip(pick, res):
        nums = [int(x) for x in re.findall(r"\d+", r)]
        md = parse_fields(mouts[i])
        p, e = parse_result(md["PFC"]), parse_expl(md["EXP"])
        exp = [{"P": 0, "W": 1, "F": 2}[p["status"]], p["limit"], p["stats"][1], e["warn"], e["limit"], int(e["sc"]), int(e["sb"]), int(e["excluded"])]
        if nums != exp:
            bad += 1
    ctx.cov["extraction_crosscheck"] = {"cases": len(pick), "disagreements": bad}
    if bad or len(res) != len(pick):
        raise CheckBroken("extracted OCaml and vm_compute disagree on %d/%d cases" % (bad, len(pick)))


# ------------------------------------------------------------------ the check

def proofs(ctx):
    import vlib
    # vlib.check_obligations parses the header line of a Print Assumptions block ("Axioms:") as if it were an axiom
    # name; accept that header token for the flocq file and strip it from the evidence afterwards (reported upstream).
    vlib.AXIOM_ALLOW["flocq"] = set(vlib.AXIOM_ALLOW["flocq"]) | {"Axioms"}
    ok = True
    cmds, broken = [], []
    for pf in PROP_FILES:
        if not os.path.exists(os.path.join(COQ, pf)):
            ok = False
            broken.append({"file": pf, "problems": ["missing"]})
            continue
        ok = proofs_step(ctx, [pf], allow=PROP_ALLOW[pf]) and ok
        cmds.append(ctx.cov["checker_cmd"])
        broken += ctx.proof_broken
    ctx.cov["checker_cmd"] = " ; ".join(cmds)
    ctx.proof_broken = broken
    if "axioms_used" in ctx.cov:
        ctx.cov["axioms_used"] = {k: [a for a in v if a != "Axioms"] for k, v in ctx.cov["axioms_used"].items()}
    return ok


def run(ctx):
    t0 = time.time()
    impl, model, cli_exe, defaults = prepare_threshold(ctx)
    proofs_ok = proofs(ctx)
    quick = ctx.tier == "quick"
    tally = Tally()
    timing = {"build_and_proofs_s": round(time.time() - t0, 1)}

    # 1. corpus, 2. seeded boundary-directed cases
    t1 = time.time()
    corpus = corpus_cases()
    bases = base_cases(ctx, 4000 if quick else 30000)
    probed, perr = probe(impl, bases)
    gen, broken = expand(ctx, probed)
    if broken:
        tally.fails.append((broken[0], "probe", ["harness could not answer the probe"]))
    cases = corpus + gen
    ds, mouts = run_library(ctx, impl, model, cases, tally, sample_idx={0, len(corpus), len(corpus) + 1})
    timing["library_random_s"] = round(time.time() - t1, 1)

    # 3. small-scope sweeps: exhaustive in thorough, sampled in quick
    t1 = time.time()
    sa, sbp = sweep_selection(ctx), sweep_precedence(ctx)
    domain = {"sweepA_configs_x_paths": len(sa), "sweepB_configs": len(sbp)}
    if quick:
        ctx.rng.shuffle(sa)
        ctx.rng.shuffle(sbp)
        sa, sbp = sa[:1500], sbp[:3000]
    pa, _ = probe(impl, sa + sbp)
    sweep_cases, broken = expand(ctx, pa, all_counts=True)
    run_library(ctx, impl, model, sweep_cases, tally, sample_idx={len(sweep_cases) // 2})
    domain["sweep_cases_run"] = len(sweep_cases)
    domain["exhaustive"] = not quick
    ctx.cov["small_scope"] = domain
    ctx.cov["exhaustive"] = False
    timing["library_sweeps_s"] = round(time.time() - t1, 1)

    # 4. invalid patterns are rejected by ThresholdChecker::new (no verdict is produced from a broken rule list)
    inv = invalid_pattern_cases(ctx)
    outs, _ = run_impl(impl, [c.wire_impl() for c in inv])
    for c, o in zip(inv, outs):
        tally.evals += 1
        tally.bump("tag:" + c.tag)
        if not o.startswith("ERR="):
            tally.fails.append((c, o, ["invalid glob accepted by ThresholdChecker::new"]))

    # 5. CLI pairs
    t1 = time.time()
    clist = run_cli_pairs(ctx, cli_exe, impl, model, defaults, 60 if quick else 400, tally)
    ctx.cov["cli_level"] = clist
    timing["cli_pairs_s"] = round(time.time() - t1, 1)

    # 6. extraction vs vm_compute
    xcheck(ctx, cases, mouts, 80 if quick else 600)

    ctx.cov["evaluations"] = tally.evals
    ctx.cov["distinct_nontrivial"] = len(tally.nontrivial)
    ctx.cov["traces_validated_against_impl"] = tally.evals - len(tally.mism)
    ctx.cov["model_vs_impl_mismatches"] = len(tally.mism)
    ctx.cov["rule"] = ("seeded generator: rule lists of 0..6 rules over 20 overlapping glob patterns x 20 paths (depth <= 6, ./ and backslash spellings, extension-less names), every optional field "
                       "present/absent at random, limits 0..12 / to 10^6 / around 2^53 and 2^64, thresholds from {0,.5,.8,.9,1}, uniform [0,1), two-digit decimals, random bit patterns in [0,1] and a hostile "
                       "stream (NaN, inf, negative, >1, subnormal), global / CLI-override / with_warning_threshold variants; for each configuration x path the match vectors are computed by the harness with the "
                       "real globset and the raw stats are placed so that the effective count hits limit-1, limit, limit+1, warn-1, warn, warn+1, 0 and a random value, with random ignored lines; "
                       "plus small-scope sweeps A (all rule lists of length <= 3 over 5 patterns x 6 paths, decoy values) and B (all presence/absence combinations of optional fields x limits 0..6 x thresholds "
                       "{0,.5,.8,.9,1} x counts 0..limit+2; exhaustive in the thorough tier, sampled in quick); plus CLI projects (check --format json vs explain --format json vs model). "
                       "Each library case exercises ThresholdChecker::new/check/explain/get_skip_settings_for_path/should_process/is_content_excluded and compute_effective_stats under catch_unwind. "
                       "non-trivial = distinct canonical case (configuration, overrides, match vectors, stats) in which a rule is selected or the effective count is within 1 of the limit or the warn point, "
                       "as reported by the extracted model; CLI files count when check reported them")
    ctx.cov["input_distribution"] = dict(sorted(tally.hist.items()))
    ctx.cov["timing"] = timing
    ctx.cov["trusted_base"] = TRUSTED_COMMON + [
        "globset matching is data: the match vector is computed by the harness with one real Glob per pattern; normalize_for_matching is restated in the harness (5 lines)",
        "std Path::extension, toml and clap/std float parsing (decimal -> binary64) are not modelled",
        "Coq.Floats.SpecFloat as the definition of IEEE 754 binary64 multiplication and of usize -> f64 rounding (tied to the hardware by the differential run)",
        "Flocq (Bmult_correct, round_le) and the classical real-number axioms it inherits, for C05_monotone_limit_percentage only",
        "absence of panics of the Rust code is observed by the harness (catch_unwind), not proved; usize additions in compute_effective_stats are assumed not to overflow",
        "validation of rule `expires` dates (part of validate_content_section since D19) is not modelled: generated rules carry no expires field"]
    ctx.assumptions = ["GlobSet::matches returns the ascending indices of exactly the patterns that match individually (tied by the differential run: the match vector is computed per pattern)",
                       "a file that check evaluates has line stats; files without a recognised language have no count and lie outside C05 (D24 is recorded under C01's scope question)",
                       "counts fit in usize without overflow (code + comment + blank < 2^64)"]

    # ---- verdicts
    seen = set()
    for (c, raw, f) in tally.fails:
        key = f[0][:60]
        if key in seen or len(seen) >= 5:
            continue
        seen.add(key)
        ctx.violation({"kind": "property-oracle", "what": f, "case": c.to_json(), "match_vector": c.mv, "exclude_vector": c.ev, "impl": raw[:1500],
                       "replay_cmd": "python3 tools/vp.py check C05 --replay <this file>"})
    if not tally.fails:
        if tally.mism:
            c, io, mo, k = tally.mism[0]
            ctx.violation({"kind": "correspondence-broken", "relation": "sgv-threshold / CLI field %s == extracted Threshold.Model" % k,
                           "first_mismatch": {"case": c.to_json(), "match_vector": c.mv, "impl": io[:1500], "model": mo[:1500]},
                           "case": c.to_json(), "mismatches": len(tally.mism),
                           "note": "the model no longer describes the code, so theorems C05_* no longer transfer; the property oracle found no violating input among %d cases" % tally.evals},
                          no_input=True)
        elif not proofs_ok:
            ctx.violation({"kind": "proof-broken", "details": ctx.proof_broken}, no_input=True)
        elif tally.died:
            ctx.violation({"kind": "harness-died", "details": tally.died[:2]}, no_input=False)


def replay(ctx, path):
    j = json.load(open(path))
    impl, model, cli_exe, defaults = prepare_threshold(ctx)
    cj = j.get("case") or j.get("first_mismatch", {}).get("case")
    if not cj:
        print("replay file has no case (kind=%s)" % j.get("kind"))
        return 0
    c = Case.from_json(cj)
    o, _, _ = run_lines(impl, [c.wire_impl()])
    print("impl :", o)
    d = parse_fields(o[0]) if o else {"_raw": "<NOANSWER>"}
    if "_raw" in d:
        return 1
    c.mv, c.ev, c.ext = d["MV"], d["EV"], d["EXT"]
    m, _, _ = run_lines(model, [c.wire_model()])
    print("model:", m)
    f = oracle(c, d)
    print("oracle:", f or "ok")
    return 1 if f else 0
