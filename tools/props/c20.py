"""C20 -- reports are consistent, well-formed and deterministic."""
import collections
import concurrent.futures as cf
import json
import os
import time
from gen_report import *  # noqa

PROP_FILES = ["Report/Properties_C20.v"]
MANIFEST = dict(
    technique="Coq proofs (induction over the result list / file list, permutation and stable-sort uniqueness, a decoder for html_escape) on a "
              "Gallina port of the summary counting, ProjectStatistics::new and its two breakdowns (HashMap order as an explicit permutation "
              "argument), LanguageRegistry::with_custom_languages and html_escape; tied to the code by parsing back every --format and side-car "
              "of real check/stats runs in throw-away projects and by a library-level harness that feeds arbitrary result vectors to every formatter",
    text="Theorems C20_summary_counts, C20_text_summary_agrees, C20_totals_are_sums, C20_breakdown_partitions, C20_check_and_stats_same_counts, "
         "C20_permute_is_permutation / C20_permute_complete (pi ranges over exactly the orders a HashMap can produce), C20_deterministic_modulo_ties, "
         "C20_breakdown_deterministic and C20_registry_deterministic (unconditional for the repaired sort key / registration order), "
         "C20_html_escape_charwise, C20_html_escape_safe, C20_html_escape_injective, C20_uri_roundtrip / C20_uri_wellformed (SARIF uri encoder), "
         "C20_html_totals_are_sums / C20_html_totals_agree_with_project_totals / C20_html_totals_ignore_structure_results (html cards = sums over the "
         "file results, D75), C20_roots_each_file_once / C20_roots_same_files (overlapping scan roots, D50), "
         "C20_presentation_flags_inert and the listing theorems hold for "
         "all result lists, file lists, permutations and strings (unbounded). Cross-format agreement, JSON/SARIF well-formedness and run-to-run "
         "byte identity are established by the correspondence run only.",
    note="Trusted: Coq kernel, extraction (ExtrOcamlBasic), harness sgv-report, the python extractors for text/Markdown/HTML, a hand-transcribed "
         "subset of the SARIF 2.1.0 schema (the official schema file is not in the sandbox), serde_json, std HashMap (any iteration order is a "
         "permutation), rayon's order-preserving collect. D23 (tie order, shared extension, config hash), D31 (--suggest with a non-UTF-8 name) and "
         "D37 (SARIF uri not percent-encoded) are repaired by fixes/D23-*, D31-*, D37-*.patch; D75 (html line-total cards counted structure results) "
         "by fixes/D75-*.patch; D50 (overlapping scan roots counted twice) by fixes/D50-*.patch of the structure subsystem; D111 (Markdown Details table: names / reasons "
         "with pipes, backticks or line breaks broke cells, spans and rows, a split row could forge a Passed row) by fixes/D111-*.patch, Markdown is read back by a "
         "python transcription of the GFM table and code-span rules; D180 (report order and --top selection followed the directory enumeration order) "
         "by fixes/D180-*.patch. Open findings: K20_backslash_twin (D181: a\\b.rs and a/b.rs reported under one path), K20_stats_markdown_raw_names (D182). Roots model: relative roots "
         "without parent-dir components, keys computed by the python side (split on the slash, dot and empty components dropped).",
    ref="5 (C20)")

FORMATS = ["text", "json", "sarif", "markdown", "html"]
NONPASSED = ("warning", "failed", "grandfathered")


def model_generation(ctx):
    """0 = tree before the D23 repair (classes still listed as open findings), 1 = repaired tree."""
    open_classes = {k["class"] for k in ctx.kf.get("findings", []) if k["property"] == "C20"}
    return "0" if "D23-hashmap-order" in open_classes else "1"


def prepare(ctx):
    bins = cargo_build(["sgcli", "sgv-report"])
    ok, log = coq_make(["Report/Summary.vo", "Report/Stats.vo", "Report/Escape.vo", "Report/Uri.vo", "Report/Roots.vo", "Extract/ExtractReport.vo"])
    if not ok:
        raise CheckBroken("coq model build failed:\n" + log[-3000:])
    model = ModelProc(ocaml_build("report_drv", ["report_ex"]))
    # private copies: other checks rebuild the shared target directory while this one is spawning
    import atexit, shutil, tempfile
    d = tempfile.mkdtemp(prefix="sgv-report-bin-", dir=os.environ.get("SGV_TMP", "/tmp"))
    atexit.register(shutil.rmtree, d, True)
    for b in list(bins):
        shutil.copy2(bins[b], os.path.join(d, b))
        bins[b] = os.path.join(d, b)
    rc, dump = sh([bins["sgv-report"], "dump"], check=True)
    builtin = json.loads(dump.strip().splitlines()[-1])
    return bins["sgcli"], bins["sgv-report"], model, builtin


class Acc:
    """what one phase found"""

    def __init__(self):
        self.fails, self.mism, self.known = [], [], []     # (what, case/replay dict)
        self.evals = 0
        self.hist = collections.Counter()
        self.nontrivial = set()
        self.validated = 0
        self.spawns = 0
        self.model_lines = []      # (line, output) sample for the vm_compute cross-check

    def merge(self, o):
        self.fails += o.fails
        self.mism += o.mism
        self.known += o.known
        self.evals += o.evals
        self.hist.update(o.hist)
        self.nontrivial |= o.nontrivial
        self.validated += o.validated
        self.spawns += o.spawns
        self.model_lines += o.model_lines[:40]


class ModelProc:
    """one long-lived extracted-model driver (it answers and flushes line by line)"""

    def __init__(self, exe):
        import subprocess, threading
        self.exe = exe
        self.lock = threading.Lock()
        self.p = subprocess.Popen([exe], stdin=subprocess.PIPE, stdout=subprocess.PIPE, text=True, bufsize=1, preexec_fn=__import__("vlib")._big_stack)

    def ask(self, lines):
        out = []
        with self.lock:
            for l in lines:
                self.p.stdin.write(l + "\n")
                self.p.stdin.flush()
                o = self.p.stdout.readline()
                if not o:
                    raise CheckBroken("model driver died on: " + l[:300])
                out.append(o.rstrip("\n"))
        return out

    def close(self):
        try:
            self.p.stdin.close()
            self.p.wait(timeout=10)
        except Exception:
            self.p.kill()


def ask(model, lines):
    if isinstance(model, ModelProc):
        out = model.ask(lines)
    else:
        out, rc, err = run_lines(model, lines, timeout=300)
    if len(out) != len(lines) or any(o.startswith(("ERR", "BADLINE")) for o in out):
        raise CheckBroken("model driver failed: %s" % [o for o in out if o.startswith(("ERR", "BAD"))][:2])
    return out


def counts_of(entries):
    c = collections.Counter(st for _, st in entries)
    return {"total": len(entries), "passed": c["passed"], "warning": c["warning"], "failed": c["failed"], "grandfathered": c["grandfathered"]}


def rows_for_model(rows):
    return [(r["status"], r["path"], (r["stats"]["total"], r["stats"]["code"], r["stats"]["comment"], r["stats"]["blank"]), is_structure_row(r))
            for r in rows]


D75 = "D75-html-totals-count-structure-results"
AGG_GEN = ["1"]      # generation of html_aggregate: "0" while D75 is listed as an open finding, "1" on the repaired tree


def set_generations(ctx):
    open_classes = {k["class"] for k in ctx.kf.get("findings", []) if k["property"] == "C20"}
    AGG_GEN[0] = "0" if D75 in open_classes else "1"
    ROOTS_STRICT[0] = ROOTS_CLASS not in open_classes


def content_sums(rows):
    """sums of the per-file counts of one check run: the rows that stand for a counted file"""
    return [sum(r["stats"][k] for r in rows if not is_structure_row(r)) for k in ("total", "code", "comment", "blank")]


def html_cards(H):
    c = H["cards"]
    try:
        return [int(c["Total Lines"]), int(c["Code"]), int(c["Comments"]), int(c["Blanks"])]
    except Exception:
        return None


def totals_verdict(acc, rows, tool_agg, what, case):
    """oracle for the four line-total cards of an html check report against the per-file counts"""
    exp = content_sums(rows)
    if tool_agg == exp:
        return
    everything = [sum(r["stats"][k] for r in rows) for k in ("total", "code", "comment", "blank")]
    if AGG_GEN[0] == "0" and tool_agg == everything and any(is_structure_row(r) for r in rows):
        acc.known.append((D75, what % (tool_agg, exp), case))
    else:
        acc.fails.append((what % (tool_agg, exp), case))


def cross_format(acc, model, outputs, case, where):
    """outputs: dict name -> text for one results vector: text, text_v, json, sarif, markdown, html (any subset but json).
    Applies the C20 rules and the model comparison. Returns the parsed JSON (or None)."""
    try:
        J = parse_check_json(outputs["json"])
    except Bad as e:
        acc.fails.append(("%s: json not well-formed: %s" % (where, e), case))
        return None
    ref = J["entries"]
    ref_np = collections.Counter(e for e in ref if e[1] != "passed")
    want = counts_of(ref)
    if J["summary"] != want:
        acc.fails.append(("%s: json summary %s != per-status counts of its results %s" % (where, J["summary"], want), case))
    parsed = {"json": J}
    for name, text in outputs.items():
        if name == "json" or text is None:
            continue
        fmt = "text" if name.startswith("text") else name
        try:
            P = PARSERS[fmt](text)
        except Bad as e:
            acc.fails.append(("%s: %s not well-formed / not parseable: %s" % (where, name, e), case))
            continue
        parsed[name] = P
        got = collections.Counter(P["entries"])
        if name == "html":
            if P["entries"] != ref:
                acc.fails.append(("%s: html lists %s, json lists %s" % (where, P["entries"][:4], ref[:4]), case))
            if P["foreign"]:
                acc.fails.append(("%s: html: injected text created markup: %s" % (where, P["foreign"][:3]), case))
            if P["unsafe"]:
                acc.fails.append(("%s: html: text with a raw quote/apostrophe/ampersand: %r" % (where, P["unsafe"][:2]), case))
            if P["counts"].get("script", 0) != 1 or P["counts"].get("tr", 0) != (len(ref) + 1 if ref else 0):
                acc.fails.append(("%s: html: unexpected element counts script=%s tr=%s for %d results" % (
                    where, P["counts"].get("script"), P["counts"].get("tr"), len(ref)), case))
        elif name == "text_v" or name == "text_color":
            if got != collections.Counter(ref):
                acc.fails.append(("%s: %s lists %s, json lists %s" % (where, name, sorted(got.items())[:4], sorted(ref)[:4]), case))
        elif name == "text":
            exp = collections.Counter(e for e in ref if e[1] in ("failed", "warning"))
            if got != exp:
                acc.fails.append(("%s: text lists %s, json failed+warning are %s" % (where, sorted(got.items())[:4], sorted(exp.items())[:4]), case))
        elif name == "sarif":
            if P["bad_uris"]:
                acc.fails.append(("%s: sarif: artifactLocation.uri %r is not a valid RFC 3986 URI-reference (unreserved, slash, %%XX only)" % (
                    where, P["bad_uris"][0]), case))
            if got != ref_np:
                acc.fails.append(("%s: sarif: percent-decoding the uris names %s, json non-passed are %s" % (
                    where, sorted((got - ref_np).items())[:3], sorted((ref_np - got).items())[:3]), case))
        else:  # markdown: read as a GFM renderer reads it; a line break of a name / reason is shown as a space
            ref_md = [(md_shown_name(p_), st_) for p_, st_ in ref if st_ != "passed"]
            if P["entries"] != ref_md:
                acc.fails.append(("%s: markdown Details table names %s, json non-passed are %s" % (
                    where, [e for e in P["entries"] if e not in ref_md][:3] or P["entries"][:3], [e for e in ref_md if e not in P["entries"]][:3] or ref_md[:3]), case))
            else:
                # a table cell is trimmed by every GFM reader: the reason is compared without the spaces at its ends
                want_reasons = [("-" if r.get("override_reason") is None else md_one_line(r["override_reason"]).strip(" ")) for r in J["rows"] if r["status"] != "passed"]
                got_reasons = [r["reason"] for r in P["rows"]]
                if got_reasons != want_reasons:
                    k = next((i for i, (a_, b_) in enumerate(zip(got_reasons, want_reasons)) if a_ != b_), 0)
                    acc.fails.append(("%s: markdown shows the reason %r for %r, json says %r" % (where, got_reasons[k], ref_md[k][0], want_reasons[k]), case))
                if any(c in p_ for p_, st_ in ref_md for c in "|`") or any("\n" in p_ or "\r" in p_ for p_, st_ in ref if st_ != "passed"):
                    acc.hist["%s:markdown-rows-with-pipe-backtick-or-newline-in-name" % where.split()[0]] += 1
                if any(c in x for x in want_reasons for c in "|`\\"):
                    acc.hist["%s:markdown-rows-with-pipe-backtick-backslash-in-reason" % where.split()[0]] += 1
        if P.get("summary") is not None and P["summary"] != want:
            acc.fails.append(("%s: %s summary %s != per-status counts of the json results %s" % (where, name, P["summary"], want), case))
    # ---- model side
    rows = rows_for_model(J["rows"])
    wr = w_results(rows)
    lines = ["summary\t" + wr, "agg\t%s\t%s" % (AGG_GEN[0], wr), "listed\ttext\t0\t" + wr, "listed\ttext\t1\t" + wr, "listed\tsarif\t0\t" + wr,
             "listed\tmarkdown\t0\t" + wr, "listed\thtml\t0\t" + wr, "listed\tjson\t0\t" + wr]
    uri_from = len(lines)
    np_paths = [p for p, st in ref if st != "passed"]
    if "sarif" in parsed:
        lines += ["uri\t" + (",".join(str(b) for b in p.encode("utf-8")) or "-") for p in np_paths]
    esc_from = len(lines)
    if "html" in parsed:
        lines += ["esc\t" + enc(p) for p, _ in ref]
        lines += ["esc\t" + enc(r["override_reason"]) for r in J["rows"] if r.get("override_reason") is not None]
    mo = ask(model, lines)
    acc.model_lines += list(zip(lines, mo))[:3] + list(zip(lines, mo))[uri_from:uri_from + 2] + list(zip(lines, mo))[esc_from:esc_from + 2]
    ms = [int(x) for x in mo[0].split(" | ")[0].split()]
    mt = [int(x) for x in mo[0].split(" | ")[1].split()]
    wl = [want["total"], want["passed"], want["warning"], want["failed"], want["grandfathered"]]
    bad = []
    if ms != wl or mt != wl:
        bad.append("summary: model %s / %s, tool %s" % (ms, mt, wl))
    for name, idx in (("text", 2), ("text_v", 3), ("sarif", 4), ("markdown", 5), ("html", 6), ("json", 7)):
        if name in parsed and [((md_shown_name(p_), st_) if name == "markdown" else (p_, st_)) for p_, st_ in r_entries(mo[idx])] != parsed[name]["entries"]:
            bad.append("listing order of %s: model %s, tool %s" % (name, r_entries(mo[idx])[:5], parsed[name]["entries"][:5]))
    if "sarif" in parsed:
        m_uris = []
        for p, o in zip(np_paths, mo[uri_from:esc_from]):
            f = o.split("\t")
            if f[1] != "1" or bytes(int(x) for x in f[2].split(",") if x != "-") != p.encode("utf-8"):
                raise CheckBroken("extracted uri_encode violates its own theorems on %r: %s" % (p, o[:200]))
            m_uris.append(dec(f[0]))
        if m_uris != parsed["sarif"]["uris"]:
            k = next((i for i, (a, b) in enumerate(zip(m_uris, parsed["sarif"]["uris"])) if a != b), 0)
            bad.append("sarif uri: model %r, tool %r" % (m_uris[k:k + 1], parsed["sarif"]["uris"][k:k + 1]))
    if "html" in parsed:
        H = parsed["html"]
        agg = [int(x) for x in mo[1].split()]
        tool_agg = html_cards(H)
        if tool_agg != agg:
            bad.append("html aggregate cards: model %s, tool %s" % (agg, tool_agg))
        if tool_agg is not None:
            # the results that stand for a file carry its counts; a structure result carries a count of files /
            # directories / a depth in the same fields, which is not a per-file line count
            totals_verdict(acc, J["rows"], tool_agg, where + ": html Total Lines/Code/Comments/Blanks cards %s are not the sums of the per-file counts %s "
                           "(structure results carry a synthetic count, not line statistics)", case)
            if any(is_structure_row(r) for r in J["rows"]):
                acc.hist["%s:html-totals-with-structure-results" % where.split()[0]] += 1
        esc_out = mo[esc_from:]
        n = len(ref)
        m_paths = [dec(o.split("\t")[0]) for o in esc_out[:n]]
        m_reasons = [dec(o.split("\t")[0]) for o in esc_out[n:]]
        for o in esc_out:
            f = o.split("\t")
            if f[0] != f[1] or f[2] != "1":
                raise CheckBroken("extracted html_escape disagrees with its own spec/safety predicate: " + o[:200])
        if H["raw_paths"] != m_paths:
            k = next((i for i, (a, b) in enumerate(zip(H["raw_paths"], m_paths)) if a != b), 0)
            bad.append("html_escape(path): model %r, tool %r" % (m_paths[k:k + 1], H["raw_paths"][k:k + 1]))
        if H["raw_reasons"] != m_reasons:
            bad.append("html_escape(reason): model %r, tool %r" % (m_reasons[:2], H["raw_reasons"][:2]))
    if bad:
        acc.mism.append(("%s: %s" % (where, bad[0]), case))
    else:
        acc.validated += 1
    return J


# ---------------------------------------------------------------------------------------- library level

def lib_phase(ctx, impl, model, builtin, gen, n_fmt, n_stats, n_reg):
    acc = Acc()
    rng = ctx.rng
    cases = [gen_fmt_case(rng) for _ in range(n_fmt)] + [gen_stats_case(rng) for _ in range(n_stats)] + [gen_reg_case(rng) for _ in range(n_reg)]
    for c in load_corpus("lib"):
        cases.insert(0, c)
    outs, errs = run_sharded(impl, [json.dumps(c) for c in cases], timeout=600)
    if errs:
        acc.fails.append(("sgv-report died", {"lib_case": json.loads(errs[0]["first_unanswered"])}))
    for c, o in zip(cases, outs):
        if o == "<NOANSWER>":
            continue
        acc.evals += 1
        acc.hist["lib:" + c["op"]] += 1
        j = json.loads(o)
        case = {"lib_case": c}
        if j.get("panic") or "error" in j:
            acc.fails.append(("library call panicked / failed: %s" % o[:200], case))
            continue
        if c["op"] == "fmt":
            errs_ = [k for k, v in j.items() if not isinstance(v, str)]
            if errs_:
                acc.fails.append(("formatter returned an error: %s" % errs_, case))
                continue
            J = cross_format(acc, model, j, case, "lib fmt")
            if J and any(st != "passed" for _, st in J["entries"]):
                acc.nontrivial.add(json.dumps(c, sort_keys=True))
            # colour must only add SGR sequences
            if j["text_color"] and strip_ansi(j["text_color"]) != j["text_v"]:
                acc.fails.append(("coloured text differs from plain text by more than SGR sequences", case))
        elif c["op"] == "stats":
            lib_stats(acc, model, c, j, case, gen)
        else:
            lib_reg(acc, model, builtin, c, j, case, gen)
    return acc


def strip_ansi(s):
    return re.sub(r"\x1b\[[0-9;]*m", "", s)


def stats_model_files(files):
    return [(f["path"], f["lang"], tuple(f["stats"])) for f in files]


def sorted_desc_by_code(gs):
    return all(gs[i][2] >= gs[i + 1][2] for i in range(len(gs) - 1))


def compare_groups(acc, model, gen, rng_pis, cmd_prefix, files, tool_runs, case, where, totals=None):
    """tool_runs: list of group lists [(key, files, code, comment, blank, lines)] from repeated runs."""
    wf = w_files(files)
    lines = ["%s\t%s\t%s" % (cmd_prefix.replace("\tV\t", "\t%s\t" % gen), w_pi(pi), wf) for pi in rng_pis]
    lines.append("totals\t" + wf)
    mo = ask(model, lines)
    acc.model_lines += list(zip(lines, mo))[:2]
    mgs = [r_groups(o) for o in mo[:-1]]
    mt = [int(x) for x in mo[-1].split()]
    ok = True
    keys = [g[2] for g in mgs[0]]
    tie = len(set(keys)) != len(keys)
    for tg in tool_runs:
        # partition oracle on the implementation
        if sum(g[1] for g in tg) != len(files) or [sum(g[i] for g in tg) for i in (5, 2, 3, 4)] != [sum(f[2][i] for f in files) for i in (0, 1, 2, 3)]:
            acc.fails.append(("%s: groups do not partition the files (group sums %s, file sums %s)" % (
                where, [sum(g[i] for g in tg) for i in (1, 5, 2, 3, 4)], [len(files)] + [sum(f[2][i] for f in files) for i in range(4)]), case))
        if len({g[0] for g in tg}) != len(tg):
            acc.fails.append(("%s: a group key appears twice" % where, case))
        if gen == "1":
            if any(tg != m for m in mgs):
                acc.mism.append(("%s: breakdown differs: model %s, tool %s" % (where, mgs[0][:4], tg[:4]), case))
                ok = False
        else:
            if sorted(tg) != sorted(mgs[0]) or not sorted_desc_by_code(tg):
                acc.mism.append(("%s: breakdown differs beyond the order of ties: model %s, tool %s" % (where, mgs[0][:4], tg[:4]), case))
                ok = False
    if gen == "1" and any(m != mgs[0] for m in mgs):
        raise CheckBroken("repaired model depends on pi: %s" % lines[0][:300])
    if totals is not None and list(totals) != mt:
        acc.mism.append(("%s: totals: model %s, tool %s" % (where, mt, list(totals)), case))
        ok = False
    if any(tg != tool_runs[0] for tg in tool_runs):
        msg = "%s: repeated runs order the groups differently: %s vs %s" % (where, [g[0] for g in tool_runs[0]], [g[0] for g in next(t for t in tool_runs if t != tool_runs[0])])
        if tie and gen == "0":
            acc.known.append(("D23-hashmap-order", msg, case))
        else:
            acc.fails.append((msg, case))
    if ok:
        acc.validated += 1
    return tie


def lib_stats(acc, model, c, j, case, gen):
    files = stats_model_files(c["files"])
    runs_l, runs_d = [], []
    for r in j["runs"]:
        runs_l.append(parse_stats_groups("json", r["lang_json"], "lang"))
        runs_d.append(parse_stats_groups("json", r["dir_json"], "dir"))
        for fmt, key in (("md", "lang_md"), ("text", "lang_text")):
            g2 = parse_stats_groups(fmt, r[key], "lang")
            plain = all(("\n" not in g[0] and "|" not in g[0] and g[0].strip() == g[0] and g[0]) for g in runs_l[-1])
            if plain and [(g[0], g[1], g[2], g[3], g[4]) for g in g2] != [(g[0], g[1], g[2], g[3], g[4]) for g in runs_l[-1]]:
                acc.fails.append(("stats %s breakdown %s differs from the json breakdown %s" % (fmt, g2[:3], runs_l[-1][:3]), case))
        H = parse_html(r["lang_html"])
        if H["foreign"] or H["unsafe"]:
            acc.fails.append(("stats html: a language name created markup or stayed unescaped: %s" % (H["foreign"] + H["unsafe"])[:3], case))
    rng = __import__("random").Random(len(files) * 7919 + len(json.dumps(c)))
    ng = len({f[1] for f in files})
    pis = [[], rand_pi(rng, ng), rand_pi(rng, ng)]
    t1 = compare_groups(acc, model, gen, pis, "bylang\tV", files, runs_l, case, "lib stats by_language", totals=j["totals"])
    depth = c["depth"]
    nd = len(runs_d[0]) if runs_d else 0
    pis = [[], rand_pi(rng, nd), rand_pi(rng, nd)]
    t2 = compare_groups(acc, model, gen, pis, "bydir\tV\t%s" % ("-" if depth is None else depth), files, runs_d, case, "lib stats by_directory")
    if t1 or t2:
        acc.nontrivial.add(json.dumps(c, sort_keys=True))
        acc.hist["lib:stats-with-ties"] += 1


def lib_reg(acc, model, builtin, c, j, case, gen):
    wb = ";".join("%s=%s" % (enc(e), enc(n)) for e, n in sorted(builtin.items()))
    wc = ";".join("%s=%s" % (enc(x["name"]), "+".join(enc(e) for e in x["exts"])) for x in c["customs"]) or "-"
    we = ";".join(enc(e) for e in c["exts"])
    rng = __import__("random").Random(len(json.dumps(c)))
    n = len(c["customs"])
    pis = [[], rand_pi(rng, n), rand_pi(rng, n)]
    lines = ["reg\t%s\t%s\t%s\t%s\t%s" % (gen, w_pi(pi), wb, wc, we) for pi in pis[:3]]
    mo = ask(model, lines)
    acc.model_lines += list(zip(lines, mo))[:1]
    ms = [[None if x == "?" else dec(x) for x in o.split(";")] for o in mo]
    claimed = collections.Counter(e for x in c["customs"] for e in set(x["exts"]))
    shared = any(v > 1 for v in claimed.values())
    names = [r["names"] for r in j["runs"]]
    hashes = {r["hash"] for r in j["runs"]}
    if gen == "1":
        if any(m != ms[0] for m in ms):
            raise CheckBroken("repaired registry model depends on pi")
        if any(nm != ms[0] for nm in names):
            acc.mism.append(("registry: model %s, tool %s" % (ms[0], names[0]), case))
        else:
            acc.validated += 1
    else:
        # v0: every observed answer must be reachable by some registration order
        import itertools
        reach = set()
        for perm in itertools.permutations(range(n)):
            code, rest = [], list(range(n))
            for p in perm:
                code.append(rest.index(p))
                rest.remove(p)
            reach.add(tuple(code))
        mo2 = ask(model, ["reg\t0\t%s\t%s\t%s\t%s" % (w_pi(list(code)), wb, wc, we) for code in sorted(reach)])
        reachable = {tuple(o.split(";")) for o in mo2}
        for nm in names:
            if tuple("?" if x is None else enc(x) for x in nm) not in reachable:
                acc.mism.append(("registry: tool answer %s is not produced by any registration order in the model" % nm, case))
                break
        else:
            acc.validated += 1
    if any(nm != names[0] for nm in names):
        msg = "registry: the language of a shared extension differs between runs: %s vs %s" % (names[0], next(x for x in names if x != names[0]))
        (acc.known.append(("D23-hashmap-order", msg, case)) if (shared and gen == "0") else acc.fails.append((msg, case)))
    if len(hashes) > 1:
        msg = "compute_config_hash differs between runs for one configuration (%d values)" % len(hashes)
        (acc.known.append(("D23-hashmap-order", msg, case)) if (n > 1 and gen == "0") else acc.fails.append((msg, case)))
    if shared:
        acc.nontrivial.add(json.dumps(c, sort_keys=True))
        acc.hist["lib:reg-shared-ext"] += 1


# ---------------------------------------------------------------------------------------- CLI level

def project_replay(P):
    enc_c = lambda v: v if isinstance(v, str) else {"hex": v.hex()}
    return {"config": P.config, "files": {k.hex(): enc_c(v) for k, v in P.files.items()}, "late": {k.hex(): enc_c(v) for k, v in P.late.items()},
            "baseline": P.baseline, "customs": P.customs, "tags": sorted(P.tags), "unreadable": [k.hex() for k in getattr(P, "unreadable", [])]}


def project_from_replay(j):
    P = Project()
    P.config = j["config"]
    dec_c = lambda v: v if isinstance(v, str) else bytes.fromhex(v["hex"])
    P.files = {bytes.fromhex(k): dec_c(v) for k, v in j["files"].items()}
    P.late = {bytes.fromhex(k): dec_c(v) for k, v in j.get("late", {}).items()}
    P.baseline = j.get("baseline", False)
    P.customs = [tuple(c) for c in j.get("customs", [])]
    P.tags = set(j.get("tags", []))
    P.unreadable = [bytes.fromhex(k) for k in j.get("unreadable", [])]
    return P


def write_files(sb, files, skipped):
    for rel, content in files.items():
        p = os.path.join(os.fsencode(sb.proj), rel)
        try:
            os.makedirs(os.path.dirname(p), exist_ok=True)
            with open(p, "wb" if isinstance(content, bytes) else "w") as f:
                f.write(content)
        except OSError:
            skipped.append(rel.hex())


def chmod_unreadable(sb, P):
    """files tagged unreadable lose their read permission (no effect when the check runs as root)"""
    n = 0
    if os.geteuid() != 0:
        for rel in getattr(P, "unreadable", []):
            try:
                os.chmod(os.path.join(os.fsencode(sb.proj), rel), 0)
                n += 1
            except OSError:
                pass
    return n


def strip1(s):
    return s[:-1] if s.endswith("\n") else s


def run_project(sgcli, model, builtin, gen, P, det_full, verbose_log=None, with_roots=False):
    acc = Acc()
    case = {"project": project_replay(P)}
    tag = "+".join(sorted(P.tags))
    acc.hist["cli:" + tag] += 1
    with Sandbox("sgv-report-") as sb:
        skipped = []
        sb.write(".sloc-guard.toml", P.config)
        write_files(sb, P.files, skipped)
        bl = os.path.join(sb.base, "baseline.json")
        tail = ["--no-sloc-cache"]
        side = os.path.join(sb.base, "side")
        os.makedirs(side)

        def run(pre, sub, post, threads="4"):
            acc.spawns += 1
            rc, out, err = sb.run(sgcli, ["--color", "never"] + pre + sub + post, env={"RAYON_NUM_THREADS": threads}, timeout=120)
            if verbose_log is not None:
                verbose_log.append((pre + sub + post, rc, out, err))
            return rc, out, err

        if P.baseline:
            rc, out, err = run([], ["check"], ["--format", "json", "--baseline", bl, "--update-baseline", "all"] + tail)
            if rc not in (0, 1):
                acc.fails.append(("writing the baseline failed: rc=%s %s" % (rc, err[:200]), case))
                return acc
            write_files(sb, P.late, skipped)
            tail = tail + ["--baseline", bl]
        acc.hist["cli:files-rejected-by-fs"] += len(skipped)
        names = [k for k in list(P.files) + list(P.late) if k.hex() not in skipped]
        acc.hist["cli:files-written"] += len(names)
        acc.hist["cli:files-with-non-utf8-content"] += sum(1 for k in names if isinstance(P.files.get(k, P.late.get(k)), bytes))
        acc.hist["cli:files-unreadable-mode-000"] += chmod_unreadable(sb, P)
        acc.hist["cli:names-not-utf8"] += sum(1 for k in names if "\ufffd" in lossy(k))
        acc.hist["cli:names-with-html-specials"] += sum(1 for k in names if any(c in lossy(k) for c in "<>&\"'"))
        acc.hist["cli:names-with-newline-or-control"] += sum(1 for k in names if any(ord(c) < 32 or ord(c) == 127 for c in lossy(k)))
        # ---- A. every primary format
        outs, rcs = {}, {}
        for fmt in FORMATS:
            rcs[fmt], outs[fmt], err = run([], ["check"], ["--format", fmt] + tail)
            if rcs[fmt] not in (0, 1):
                acc.fails.append(("check --format %s exits %s: %s" % (fmt, rcs[fmt], err[:300]), case))
                return acc
        rcs["text_v"], outs["text_v"], _ = run(["-v"], ["check"], tail)
        acc.evals += 1
        J = cross_format(acc, model, outs, case, "cli check")
        if J is None:
            return acc
        twin_paths(acc, P, J, names, case)
        rc0 = rcs["json"]
        if any(v != rc0 for v in rcs.values()):
            acc.fails.append(("exit code depends on --format / -v: %s" % rcs, case))
        mexit = int(ask(model, ["exit\t%s\t0\t0\t0" % w_results(rows_for_model(J["rows"]))])[0])
        if mexit != rc0:
            acc.mism.append(("exit code: model %s, tool %s" % (mexit, rc0), case))
        if any(st != "passed" for _, st in J["entries"]):
            acc.nontrivial.add(json.dumps(case, sort_keys=True))
        for st in {st for _, st in J["entries"]}:
            acc.hist["cli:has-" + st] += 1
        acc.hist["cli:files-with-ignored-lines"] += sum(1 for r in J["rows"] if r["stats"]["total"] > r["stats"]["code"] + r["stats"]["comment"] + r["stats"]["blank"])
        if any(r.get("violation_category", {}).get("category") == "structure" for r in J["rows"]):
            acc.hist["cli:has-structure-result"] += 1
        # the two shapes on which generate_split_suggestions cannot read what a Failed/Warning result names
        nonutf8 = {("./" + lossy(k)).replace("\\", "/") for k, v in list(P.files.items()) + list(P.late.items()) if isinstance(v, bytes)}
        for r in J["rows"]:
            if r["status"] in ("failed", "warning"):
                if r["path"] in nonutf8:
                    acc.hist["cli:issue-on-file-with-non-utf8-content"] += 1
                if r.get("violation_category", {}).get("category") == "structure" and r["path"].rsplit("/", 1)[-1].rsplit(".", 1)[-1] in builtin \
                        and "." in r["path"].rsplit("/", 1)[-1].lstrip("."):
                    acc.hist["cli:structure-issue-on-language-like-directory"] += 1
        # ---- B. side-cars and presentation flags
        wj, ws, rj = (os.path.join(side, n) for n in ("w.json", "w.sarif", "r.json"))
        rc, out, err = run([], ["check"], ["--write-json", wj, "--write-sarif", ws, "--report-json", rj] + tail)
        if rc != rc0 or out != outs["text"]:
            acc.fails.append(("side-car flags change the exit code or the primary output (rc %s vs %s)" % (rc, rc0), case))
        try:
            side_j, side_s, rep_j = open(wj).read(), open(ws).read(), open(rj).read()
        except OSError as e:
            acc.fails.append(("side-car file missing: %s" % e, case))
            side_j = side_s = rep_j = None
        if side_j is not None:
            if strip1(side_j) != strip1(outs["json"]):
                acc.fails.append(("--write-json differs from --format json", case))
            if strip1(side_s) != strip1(outs["sarif"]):
                acc.fails.append(("--write-sarif differs from --format sarif", case))
        for pre, post, name in ((["-q"], [], "-q"), (["-vv"], [], "-vv"), ([], ["--suggest"], "--suggest"), ([], ["--suggest", "--format", "html"], "--suggest html")):
            rc, out, err = run(pre, ["check"], post + tail)
            if rc != rc0:
                acc.fails.append(("%s changes the exit code: %s vs %s" % (name, rc, rc0), case))
            if name == "-q":
                issues = any(st in ("failed", "warning") for _, st in J["entries"])
                if issues and out != outs["text"]:
                    acc.fails.append(("-q changes the report of a run with issues", case))
                if not issues and out != "":
                    acc.fails.append(("-q prints a report for a run without issues", case))
            elif name == "-vv":
                if out != outs["text_v"]:
                    acc.fails.append(("-vv output differs from -v", case))
            elif name == "--suggest":
                try:
                    if parse_text(out)["entries"] != parse_text(outs["text"])["entries"]:
                        acc.fails.append(("--suggest changes the statuses of the text report", case))
                except Bad as e:
                    acc.fails.append(("--suggest text not parseable: %s" % e, case))
            else:
                try:
                    H = parse_html(out)
                    if H["entries"] != J["entries"] or H["foreign"] or H["unsafe"]:
                        acc.fails.append(("--suggest html: entries differ or markup injected / unescaped: %s" % (H["foreign"] + H["unsafe"])[:2], case))
                except Bad as e:
                    acc.fails.append(("--suggest html not parseable: %s" % e, case))
        # --suggest against the plain run, format by format: same exit code, same listing, same summary
        plain = dict(outs)
        for name in FORMATS + ["text_v"]:
            fmt = "text" if name == "text_v" else name
            rc, out, err = run(["-v"] if name == "text_v" else [], ["check"], ["--suggest", "--format", fmt] + tail)
            if rc != rc0:
                acc.fails.append(("--suggest --format %s%s changes the exit code: %s vs %s" % (fmt, " -v" if name == "text_v" else "", rc, rc0), case))
            try:
                a, b = PARSERS[fmt](out), PARSERS[fmt](plain[name])
                if a["entries"] != b["entries"] or a.get("summary") != b.get("summary"):
                    d = [x for x in a["entries"] if x not in b["entries"]][:2] + [x for x in b["entries"] if x not in a["entries"]][:2]
                    acc.fails.append(("--suggest changes the results listed by %s: %s; summary %s vs %s" % (name, d, a.get("summary"), b.get("summary")), case))
            except Bad as e:
                acc.fails.append(("--suggest --format %s not parseable: %s" % (fmt, e), case))
        acc.hist["cli:suggest-vs-plain-comparisons"] += len(FORMATS) + 1
        rc, out, err = run([], ["check"], ["--suggest", "--format", "json"] + tail)
        try:
            JS = parse_check_json(out)
            if rc != rc0 or JS["entries"] != J["entries"] or JS["summary"] != J["summary"]:
                acc.fails.append(("--suggest changes statuses / exit (json)", case))
            for a, b in zip(JS["rows"], J["rows"]):
                a = dict(a)
                sg = a.pop("suggestions", None)
                if sg is not None:
                    acc.hist["cli:suggestions-attached"] += 1
                    if b["status"] == "warning":
                        acc.hist["cli:suggestions-attached-to-a-warning"] += 1
                if a != b:
                    acc.fails.append(("--suggest changes a result beyond adding suggestions", case))
                if sg is not None and b["status"] not in ("failed", "warning"):
                    acc.fails.append(("--suggest decorated a %s result" % b["status"], case))
        except Bad as e:
            acc.fails.append(("--suggest json not well-formed: %s" % e, case))
        acc.spawns += 1
        rc, out, err = sb.run(sgcli, ["--color", "always", "-v", "check"] + tail, env={"RAYON_NUM_THREADS": "4"}, timeout=120)
        if rc != rc0 or strip_ansi(out) != outs["text_v"]:
            acc.fails.append(("--color always changes more than SGR sequences (rc %s vs %s)" % (rc, rc0), case))
        # ---- C. stats
        rawmap = {}
        for rel in list(P.files) + list(P.late):
            raw = "./" + lossy(rel)
            rawmap.setdefault(raw.replace("\\", "/"), set()).add(raw)
        stats_phase(acc, sgcli, model, builtin, gen, P, J, rep_j, run, case, rawmap, check_html=outs["html"])
        # ---- D. determinism: repeated runs x thread counts
        cmds = [(["check"], ["--format", "json"] + tail), (["check"], ["--format", "html"] + tail),
                (["stats", "breakdown"], ["--format", "json", "--no-sloc-cache"]),
                (["stats", "breakdown"], ["--by", "dir", "--format", "json", "--no-sloc-cache"]),
                (["stats", "report"], ["--format", "html", "--no-sloc-cache"])]
        if "bigstructure" in P.tags:
            # more than 20 structure results with tied paths: every listing format must keep their order
            cmds = [(["check"], ["--format", f] + tail) for f in ("json", "sarif", "text", "markdown", "html")]
            acc.hist["cli:big-structure-results"] += sum(1 for r in J["rows"] if r.get("violation_category", {}).get("category") == "structure")
            paths = collections.Counter(r["path"] for r in J["rows"] if r.get("violation_category", {}).get("category") == "structure")
            acc.hist["cli:big-structure-paths-with-several-results"] += sum(1 for v in paths.values() if v > 1)
        reps = 5 if det_full else 1
        for sub, post in cmds:
            seen = {}
            for th in ("1", "4", "16"):
                for _ in range(reps):
                    rc, out, err = run([], sub, post, threads=th)
                    seen.setdefault((rc, out), []).append(th)
            if len(seen) > 1:
                msg = "%s %s: %d distinct outputs over %d runs (threads 1/4/16)" % (" ".join(sub), " ".join(post[:3]), len(seen), 3 * reps)
                if gen == "0" and ("customlang" in P.tags or has_tie(J, sub)):
                    acc.known.append(("D23-hashmap-order", msg, case))
                else:
                    acc.fails.append((msg, case))
        acc.hist["cli:determinism-runs"] += 15 * reps
        # ---- E. with the SLOC cache on: the same reports on the cold run (no cache yet) and on every warm run (threads 4/1/16),
        # byte for byte, and equal to the --no-sloc-cache report; the config hash (custom languages) is stable
        acc.hist["cli:empty-source-files"] += sum(1 for k in names if P.files.get(k, P.late.get(k)) in ("", b""))
        if "structure" not in P.tags:
            # an entry is cached only for a file that was not modified in the current second: age every file
            for rel in names:
                try:
                    os.utime(os.path.join(os.fsencode(sb.proj), rel), (1614834367, 1614834367))
                except OSError:
                    pass
            hashes = []
            cache_tail = [a for a in tail if a != "--no-sloc-cache"]
            rc, ref_stats, err = run([], ["stats", "summary"], ["--format", "json", "--no-sloc-cache"])
            legs = [("check --format json", ["check"], ["--format", "json"] + cache_tail, rc0, outs["json"]),
                    ("check --format markdown", ["check"], ["--format", "markdown"] + cache_tail, rcs["markdown"], outs["markdown"]),
                    ("stats summary --format json", ["stats", "summary"], ["--format", "json"], rc, ref_stats)]
            for k, th in enumerate(("4", "1", "16")):
                for what, sub, post, ref_rc, ref_out in (legs if k < 2 else legs[:1]):
                    rc, out, err = run([], sub, post, threads=th)
                    if rc != ref_rc or out != ref_out:
                        detail = ""
                        if sub == ["check"] and post[1] == "json":
                            try:
                                e2 = parse_check_json(out)["entries"]
                                detail = "; results only without the cache: %s, only with it: %s" % (
                                    [e for e in J["entries"] if e not in e2][:3], [e for e in e2 if e not in J["entries"]][:3])
                            except Bad as e:
                                detail = "; not well-formed: %s" % e
                        acc.fails.append(("%s with the SLOC cache enabled (%s run of three over one cache, %s threads) is not byte-identical to the report of the same "
                                          "project with --no-sloc-cache (rc %s vs %s)%s" % (what, "first" if k == 0 else "later", th, rc, ref_rc, detail), case))
                try:
                    hashes.append(json.load(open(os.path.join(sb.proj, ".sloc-guard", "cache.json")))["config_hash"])
                except Exception:
                    hashes.append(None)
            if len(set(hashes)) != 1:
                msg = "cache config_hash differs between runs of one configuration: %s" % hashes
                (acc.known.append(("D23-hashmap-order", msg, case)) if gen == "0" else acc.fails.append((msg, case)))
            acc.hist["cli:cache-on-runs"] += 7
            if any(P.files.get(k, P.late.get(k)) in ("", b"") for k in names):
                acc.hist["cli:cache-on-projects-with-empty-file"] += 1
        # ---- F. overlapping scan roots
        if with_roots:
            roots_phase(acc, model, P, J, run, case, tail)
        # ---- H. the same tree created in two different orders (on tmpfs a directory enumerates in reverse creation order; on ext4 in
        # the order of a per-filesystem hash): identical project, configuration and flags -> byte-identical reports, same --top selection
        order_phase(acc, sgcli, P, case, sb)
        # ---- G. a recorded violation is repaired and the next run tightens the baseline (--ratchet auto): stdout of a machine format is
        # still exactly the report (well-formed, equal to the --output file of the same results); messages belong on stderr
        if P.baseline:
            ratchet_phase(acc, P, J, run, case, tail, bl, side, sb)
    if gen == "0" and "shared-ext" in P.tags:
        # unrepaired tree: every command is a fresh process with its own registration order, so any
        # cross-command disagreement of this project is a consequence of D23
        for what, c in acc.fails + acc.mism:
            acc.known.append(("D23-hashmap-order", "consequence across commands: " + what, c))
        acc.fails, acc.mism = [], []
    return acc


STATS_MD = "K20_stats_markdown_raw_names"      # finding: the stats Markdown tables print names raw (the check report was repaired by D111)
TWIN = "K20_backslash_twin"      # display_path writes a backslash of a file NAME as a slash on every platform (finding, see known_findings/C20.json)


def twin_paths(acc, P, J, names, case):
    """distinct files of the project must be distinct results: no two file results of one run carry the same path"""
    seen = collections.Counter(r["path"] for r in J["rows"] if not is_structure_row(r))
    for p, n in sorted(seen.items()):
        if n < 2:
            continue
        twins = [k for k in names if ("./" + lossy(k)).replace("\\", "/") == p]
        if any("\ufffd" in lossy(k) for k in twins):
            acc.hist["cli:same-path-through-lossy-decoding"] += 1      # two non-UTF-8 names that decode alike: inherent to a textual report
            continue
        sts = sorted(r["status"] for r in J["rows"] if r["path"] == p and not is_structure_row(r))
        msg = "check lists %d file results with the same path %r (statuses %s) for the distinct files %s" % (n, p, sts, [lossy(k) for k in twins])
        # classifier of the finding: exactly the files whose names differ only in backslash against slash, one result each
        if len(twins) == n and any(b"\\" in k for k in twins):
            acc.known.append((TWIN, msg, case))
            acc.hist["cli:backslash-twin-results"] += 1
        else:
            acc.fails.append((msg, case))


def order_phase(acc, sgcli, P, case, sb):
    import shutil, tempfile
    shm = "/dev/shm" if os.path.isdir("/dev/shm") and os.access("/dev/shm", os.W_OK) else None
    base = tempfile.mkdtemp(prefix="sgv-report-order-", dir=shm or sb.base)
    acc.hist["cli:creation-order-projects-on-%s" % ("tmpfs" if shm else "sandbox-fs")] += 1
    try:
        items = sorted(list(P.files.items()) + list(P.late.items()))
        # a generated project may name one path both as a file and as a directory (mod.rs and mod.rs/m0.rs): which of
        # the two exists would depend on the creation order, so the two trees would not be the same project. Keep the
        # directory reading in both.
        _b = lambda r: r if isinstance(r, bytes) else os.fsencode(r)
        _names = [_b(r) for r, _ in items]
        items = [(r, c) for r, c in items if not any(o.startswith(_b(r) + b"/") for o in _names)]
        outs = {}
        for name, seq in (("ascending", items), ("descending", items[::-1])):
            root = os.path.join(base, name)
            os.makedirs(root)
            skipped = []
            if name == "ascending":
                with open(os.path.join(root, ".sloc-guard.toml"), "w") as f:
                    f.write(P.config)
            for rel, content in seq:
                fp = os.path.join(os.fsencode(root), rel)
                try:
                    os.makedirs(os.path.dirname(fp), exist_ok=True)
                    with open(fp, "wb" if isinstance(content, bytes) else "w") as f:
                        f.write(content)
                except OSError:
                    skipped.append(rel)
            if name == "descending":
                with open(os.path.join(root, ".sloc-guard.toml"), "w") as f:
                    f.write(P.config)
            res = []
            for args in (["check", "--format", "json", "--no-sloc-cache"], ["check", "--format", "markdown", "--no-sloc-cache"],
                         ["stats", "files", "--top", "2", "--format", "json", "--no-sloc-cache"],
                         ["stats", "breakdown", "--by", "dir", "--format", "json", "--no-sloc-cache"]):
                acc.spawns += 1
                rc, out, err = sb.run(sgcli, ["--color", "never"] + args, cwd=root, env={"RAYON_NUM_THREADS": "4"}, timeout=120)
                res.append((args, rc, out))
            outs[name] = res
        for (args, rc1, o1), (_, rc2, o2) in zip(outs["ascending"], outs["descending"]):
            if rc1 != rc2 or o1 != o2:
                detail = ""
                try:
                    if args[0] == "check" and args[2] == "json":
                        a, b = [e[0] for e in parse_check_json(o1)["entries"]], [e[0] for e in parse_check_json(o2)["entries"]]
                        detail = ": results listed as %s... vs %s... (same set: %s)" % (a[:4], b[:4], sorted(a) == sorted(b))
                    elif args[:2] == ["stats", "files"]:
                        a, b = [f[0] for f in parse_stats_files("json", o1)], [f[0] for f in parse_stats_files("json", o2)]
                        detail = ": --top 2 selects %s vs %s" % (a, b)
                except Exception:
                    pass
                acc.fails.append(("%s on two byte-identical trees whose files were created in ascending / descending name order gives different "
                                  "output (rc %s vs %s)%s" % (" ".join(args[:4]), rc1, rc2, detail), dict(case, creation_orders=["ascending", "descending"])))
        acc.hist["cli:creation-order-comparisons"] += 4
    finally:
        shutil.rmtree(base, ignore_errors=True)


def ratchet_phase(acc, P, J, run, case, tail, bl, side, sb):
    import shutil
    plainname = lambda t: "\\" not in t and not any(ord(c) < 32 or ord(c) == 127 for c in t)
    gf = None
    for rel in sorted(list(P.files) + list(P.late)):
        try:
            t = rel.decode("utf-8")
        except UnicodeDecodeError:
            continue
        if plainname(t) and any(r["path"] == "./" + t and r["status"] == "grandfathered" and not is_structure_row(r) for r in J["rows"]):
            gf = rel
            break
    if gf is None:
        acc.hist["cli:ratchet-no-grandfathered-file"] += 1
        return
    target = os.path.join(os.fsencode(sb.proj), gf)
    try:
        with open(target, "w") as f:
            f.write("x = 1\n")          # one line of code in every language: the recorded violation is gone
    except OSError:
        return
    saved = bl + ".recorded"
    shutil.copy2(bl, saved)
    c2 = dict(case, repaired=gf.decode("utf-8"))
    for fmt in ("json", "sarif"):
        shutil.copy2(saved, bl)
        of = os.path.join(side, "ratchet." + fmt)
        rc1, out1, err1 = run([], ["check"], ["--format", fmt, "--ratchet", "auto"] + tail)          # tightens, report on stdout
        rc2, out2, err2 = run([], ["check"], ["--format", fmt, "--ratchet", "auto", "--output", of] + tail)   # already tight, report in a file
        acc.hist["cli:ratchet-auto-runs"] += 2
        if "Baseline tightened" in err1 + out1:
            acc.hist["cli:ratchet-auto-tightened-with-%s-on-stdout" % fmt] += 1
        if rc1 not in (0, 1) or rc2 != rc1:
            acc.fails.append(("check --ratchet auto --format %s exits %s when it tightens the baseline and %s on the tightened baseline: %s" % (fmt, rc1, rc2, (err1 or err2)[-200:]), c2))
            continue
        try:
            PARSERS[fmt](out1)
        except Bad as e:
            acc.fails.append(("check --ratchet auto --format %s while tightening the baseline: stdout is not a well-formed %s report (%s); it begins %r" % (fmt, fmt, e, out1[:80]), c2))
            continue
        try:
            filed = open(of).read()
        except OSError as e:
            acc.fails.append(("--output file missing: %s" % e, c2))
            continue
        if strip1(filed) != strip1(out1):
            acc.fails.append(("check --ratchet auto --format %s: stdout of the run that tightened the baseline differs from the --output file of the same results" % fmt, c2))
        if out2.strip():
            acc.fails.append(("check --format %s --output FILE still prints to stdout: %r" % (fmt, out2[:80]), c2))


def has_tie(J, sub):
    return True   # v0 only: any repeated key may tie; the generation-0 classifier is deliberately coarse


def stats_phase(acc, sgcli, model, builtin, gen, P, J, rep_j, run, case, rawmap, check_html=None):
    ns = ["--no-sloc-cache"]
    # files
    fouts = {}
    for fmt in ("json", "text", "md"):
        rc, out, err = run([], ["stats", "files"], ["--format", fmt] + ns)
        if rc != 0:
            acc.fails.append(("stats files --format %s exits %s" % (fmt, rc), case))
            return
        fouts[fmt] = out
    try:
        fj = json.loads(fouts["json"])
    except Exception as e:
        acc.fails.append(("stats files json not well-formed: %s" % e, case))
        return
    frows = parse_stats_files("json", fouts["json"])
    plain = all("\n" not in p and "`" not in p and "|" not in p and " - " not in p for p, *_ in frows)
    if plain:
        for fmt in ("text", "md"):
            if parse_stats_files(fmt, fouts[fmt]) != frows:
                acc.fails.append(("stats files %s differs from stats files json" % fmt, case))
    elif any(c in p for p, *_ in frows for c in "|`\n\r"):
        # read as a GFM renderer reads it (the reader used for the check report): rows of 6 cells, the name a code span
        acc.hist["cli:stats-md-with-pipe-backtick-or-newline-in-a-name"] += 1
        try:
            got = []
            lines = re.split(r"\r\n|\n|\r", fouts["md"])
            k = next(i for i, l in enumerate(lines) if l.startswith("|------"))
            for line in lines[k + 1:]:
                if line == "":
                    break
                cells = md_split_row(line)
                if cells is None or len(cells) != 6:
                    raise Bad("line %r is not a row of 6 cells" % line[:80])
                got.append((md_code_span(cells[0]), int(cells[2]), int(cells[3]), int(cells[4]), int(cells[5])))
            want = [(md_shown_name(p), c, t, m, b) for p, c, t, m, b in frows]
            if got != want:
                raise Bad("rows %s, stats files json has %s" % ([g for g in got if g not in want][:2], [w for w in want if w not in got][:2]))
        except (Bad, ValueError, StopIteration) as e:
            acc.known.append((STATS_MD, "stats files --format md does not name the files of stats files --format json: %s" % e, case))
    # check vs stats: identical counts per file
    chk = collections.Counter((r["path"], r["stats"]["total"], r["stats"]["code"], r["stats"]["comment"], r["stats"]["blank"])
                              for r in J["rows"] if r.get("violation_category", {}).get("category") != "structure")
    sts = collections.Counter((p, t, c, m, b) for p, c, t, m, b in frows)
    if chk != sts:
        d = list((chk - sts).items())[:2] + list((sts - chk).items())[:2]
        acc.fails.append(("check and stats files report different per-file counts: %s" % d, case))
    # summary in three formats + model totals
    files_full = [(f["path"], f["language"], (f["total"], f["code"], f["comment"], f["blank"])) for f in fj.get("top_files", [])]
    mt = [int(x) for x in ask(model, ["totals\t" + w_files(files_full)])[0].split()]
    sums = [len(files_full)] + [sum(f[2][i] for f in files_full) for i in range(4)]
    for fmt in ("json", "text", "md"):
        rc, out, err = run([], ["stats", "summary"], ["--format", fmt] + ns)
        try:
            got = list(parse_stats_summary(fmt, out))
        except Exception as e:
            acc.fails.append(("stats summary %s not parseable: %s" % (fmt, e), case))
            continue
        if got != sums:
            acc.fails.append(("stats summary %s %s != sums of the per-file counts %s" % (fmt, got, sums), case))
        if got != mt:
            acc.mism.append(("project totals: model %s, tool %s (%s)" % (mt, got, fmt), case))
    # the line-total cards of check --format html are project totals too: the same four numbers as stats summary,
    # stats report and the --report-json side-car of the very same check run
    if check_html is not None:
        try:
            got = html_cards(parse_html(check_html))
        except Bad:
            got = None
        if got is not None and got != sums[1:]:
            everything = [sum(r["stats"][k] for r in J["rows"]) for k in ("total", "code", "comment", "blank")]
            msg = ("check --format html prints Total Lines/Code/Comments/Blanks %s, the per-file counts of stats files (and the stats summary / "
                   "--report-json totals of the same project) add up to %s" % (got, sums[1:]))
            if AGG_GEN[0] == "0" and got == everything and any(is_structure_row(r) for r in J["rows"]):
                acc.known.append((D75, msg, case))
            else:
                acc.fails.append((msg, case))
        acc.hist["cli:html-cards-vs-project-totals"] += 1
    # language per file vs registry model
    cust = ";".join("%s=%s" % (enc(n), "+".join(enc(e) for e in ce)) for n, ce, _ in P.customs) or "-"
    wb = ";".join("%s=%s" % (enc(e), enc(n)) for e, n in sorted(builtin.items()))
    exts = sorted({p.rsplit(".", 1)[1] for p, _, _ in files_full if "." in p.rsplit("/", 1)[-1]})
    if exts and gen == "1":
        mo = ask(model, ["reg\t1\t-\t%s\t%s\t%s" % (wb, cust, ";".join(enc(e) for e in exts))])[0].split(";")
        lang_of = {e: (None if x == "?" else dec(x)) for e, x in zip(exts, mo)}
        for p, l, _ in files_full:
            e = p.rsplit(".", 1)[1]
            if lang_of.get(e) != l:
                acc.mism.append(("language of %r: model %r, tool %r" % (p, lang_of.get(e), l), case))
                break
    # breakdowns
    for by, extra, cmdp in (("lang", [], "bylang\tV"), ("dir", ["--by", "dir"], "bydir\tV\t-"), ("dir", ["--by", "dir", "--depth", "2"], "bydir\tV\t2")):
        rc, out, err = run([], ["stats", "breakdown"], extra + ["--format", "json"] + ns)
        try:
            bj = json.loads(out)
            groups = parse_stats_groups("json", out, by)
        except Exception as e:
            acc.fails.append(("stats breakdown json not well-formed: %s" % e, case))
            continue
        # the model receives the raw scanned path: the display path with backslashes is not recoverable, the
        # generated names with a backslash are therefore given to the model as displayed (documented)
        def raw_of(p):
            c = rawmap.get(p, {p})
            return next(iter(c)) if len(c) == 1 else None
        bfiles = [(raw_of(f["path"]), f["language"], (f["total"], f["code"], f["comment"], f["blank"])) for f in bj.get("files", [])]
        if any(f[0] is None for f in bfiles):
            acc.hist["cli:breakdown-skipped-ambiguous-display-path"] += 1
            continue
        rng = __import__("random").Random(len(out))
        pis = [[], rand_pi(rng, len(groups)), rand_pi(rng, len(groups))]
        s = bj["summary"]
        tie = compare_groups(acc, model, gen, pis, cmdp, bfiles, [groups], case, "cli stats breakdown %s" % " ".join(extra),
                             totals=(s["total_files"], s["total_lines"], s["code"], s["comment"], s["blank"]))
        if tie:
            acc.hist["cli:breakdown-with-ties"] += 1
            acc.nontrivial.add(json.dumps(case, sort_keys=True))
        if by == "lang" and not extra:
            for fmt in ("text", "md"):
                rc, out2, err = run([], ["stats", "breakdown"], ["--format", fmt] + ns)
                g2 = parse_stats_groups(fmt, out2, "lang")
                if all("|" not in g[0] and "\n" not in g[0] for g in groups) and [g[:5] for g in g2] != [g[:5] for g in groups] and gen == "1":
                    acc.fails.append(("stats breakdown %s %s differs from json %s" % (fmt, g2[:3], groups[:3]), case))
    # report in four formats
    for fmt in ("json", "html", "md", "text"):
        rc, out, err = run([], ["stats", "report"], ["--format", fmt] + ns)
        try:
            got = list(parse_stats_summary(fmt, out))
            if got != sums:
                acc.fails.append(("stats report %s summary %s != sums %s" % (fmt, got, sums), case))
            if fmt == "html":
                H = parse_html(out)
                if H["foreign"] or H["unsafe"]:
                    acc.fails.append(("stats report html: injected text created markup or stayed unescaped: %s" % (H["foreign"] + H["unsafe"])[:3], case))
        except Exception as e:
            acc.fails.append(("stats report %s not parseable: %s" % (fmt, e), case))
    # --report-json side-car of check
    if rep_j is not None:
        try:
            got = list(parse_stats_summary("json", rep_j))
            if got != sums:
                acc.fails.append(("check --report-json summary %s != stats summary %s" % (got, sums), case))
        except Exception as e:
            acc.fails.append(("--report-json not well-formed: %s" % e, case))


# ---------------------------------------------------------------------------------------- overlapping scan roots

ROOTS_CLASS = "D50-overlapping-roots-double-count"      # defect D50 (repaired by the structure subsystem, fixes/D50-overlapping-scan-roots.patch)
ROOTS_STRICT = [True]     # False while ROOTS_CLASS is listed as an open finding: duplication that is exactly the concatenation of the
#                           single-root outputs is then reported as that known class; anything else is still a violation


def strip_dot(p):
    """a display path modulo the spelling of the root it was reached through"""
    while p.startswith("./"):
        p = p[2:]
    return p or "."


def pick_overlap(P, J):
    """(d, f): a top-level directory and a counted file below it, both plain enough to be passed as arguments and to be
    recognised in the reports (valid UTF-8, no backslash / control character, no leading dash)"""
    counted = {r["path"] for r in J["rows"] if not is_structure_row(r)}
    for rel in sorted(list(P.files) + list(P.late)):
        try:
            t = rel.decode("utf-8")
        except UnicodeDecodeError:
            continue
        if "/" not in t or "\\" in t or t.startswith("-") or any(ord(c) < 32 or ord(c) == 127 for c in t):
            continue
        if "./" + t in counted:
            return t.split("/", 1)[0], t
    return None


def root_key(arg):
    """normalize_for_matching of a relative root without parent-dir components, as the model's component list"""
    comps = [c for c in arg.split("/") if c not in ("", ".")]
    return "/".join(enc(c) for c in comps) if comps else "."


def roots_phase(acc, model, P, J, run, case, tail):
    """C20 over runs whose scan roots overlap: the files of the run are the DISTINCT files below the roots; totals are sums
    over them, every breakdown puts each of them into exactly one group, check lists each of them once. Model side:
    drop_covered (Report/Roots.v) says which roots are walked; the file results of the run must be, in order, those of the
    walked roots."""
    pick = pick_overlap(P, J)
    if pick is None:
        acc.hist["cli:roots-no-suitable-directory"] += 1
        return
    d, f = pick
    ns = ["--no-sloc-cache"]

    def observe(roots, groups=True):
        o = {}
        rc, out, err = run([], ["stats", "files"], ["--format", "json"] + ns + roots)
        o["files"] = collections.Counter(parse_stats_files("json", out)) if rc == 0 else None
        rc, out, err = run([], ["stats", "summary"], ["--format", "json"] + ns + roots)
        o["totals"] = list(parse_stats_summary("json", out)) if rc == 0 else None
        if groups:
            rc, out, err = run([], ["stats", "breakdown"], ["--by", "dir", "--format", "json"] + ns + roots)
            o["groups"] = parse_stats_groups("json", out, "dir") if rc == 0 else None
        rc, out, err = run([], ["check"], ["--format", "json"] + tail + roots)
        o["rc"] = rc
        try:
            Jr = parse_check_json(out)
            o["content_list"] = [(r["path"], r["status"], r["stats"]["total"], r["stats"]["code"], r["stats"]["comment"], r["stats"]["blank"])
                                 for r in Jr["rows"] if not is_structure_row(r)]
            o["content"] = collections.Counter(o["content_list"])
            if Jr["summary"] != counts_of(Jr["entries"]):
                acc.fails.append(("roots %s: json summary %s != per-status counts of its results" % (roots, Jr["summary"]), dict(case, roots=roots)))
        except Bad:
            o["content_list"] = o["content"] = None
        if any(v is None for v in o.values()):
            return None
        return o

    def norm(counter):
        c = collections.Counter()
        for k, v in counter.items():
            c[(strip_dot(k[0]),) + tuple(k[1:])] += v
        return c

    single = {}

    def single_of(r):
        if r not in single:
            single[r] = observe([r], groups=False)
        return single[r]

    for r in (".", d, f):
        if single_of(r) is None:
            acc.fails.append(("a run over the single root %r failed" % r, dict(case, roots=[r])))
            return
    for roots, cover in (([".", d], "."), ([d, "."], "."), ([d, d], d), ([d, f], d), ([f, d], d), ([f, f], f), (["./" + d, d + "/"], d)):
        acc.hist["cli:overlapping-root-runs"] += 1
        acc.evals += 1
        c2 = dict(case, roots=roots)
        o = observe(roots)
        if o is None:
            acc.fails.append(("a run over the roots %s failed" % roots, c2))
            continue
        ref = single[cover]
        bad = []
        distinct = norm(ref["files"])
        n = sum(distinct.values())
        if any(v > 1 for v in norm(o["files"]).values()) or norm(o["files"]) != distinct:
            dup = sorted(k[0] for k, v in norm(o["files"]).items() if v > 1)[:2]
            bad.append("stats files lists %d entries for the %d distinct files under the roots (twice: %s)" % (sum(o["files"].values()), n, dup))
        if o["totals"] != ref["totals"]:
            bad.append("stats summary totals %s are not the sums over the distinct files %s (= the totals of the covering root %r)" % (o["totals"], ref["totals"], cover))
        gfiles = sum(g[1] for g in o["groups"])
        gkeys = [strip_dot(g[0]) for g in o["groups"]]
        if gfiles != n or len(set(gkeys)) != len(gkeys):
            bad.append("the by-directory breakdown does not partition the files: its groups hold %d files for %d distinct files, keys %s" % (gfiles, n, [g[0] for g in o["groups"]][:4]))
        if any(v > 1 for v in norm(o["content"]).values()) or norm(o["content"]) != norm(ref["content"]):
            bad.append("check lists %d file results for the %d distinct files it checked" % (sum(o["content"].values()), sum(norm(ref["content"]).values())))
        if o["rc"] != ref["rc"]:
            bad.append("exit code %s, the covering root alone gives %s" % (o["rc"], ref["rc"]))
        # ---- model: which roots are walked
        line = "roots\t" + ";".join(root_key(r) for r in roots)
        mo = ask(model, [line])[0]
        acc.model_lines.append((line, mo))
        kept_keys = [] if mo.split("\t")[0] == "-" else mo.split("\t")[0].split(";")
        if mo.split("\t")[1] != "1":
            raise CheckBroken("roots_overlap is false on the overlapping roots %s" % roots)
        walked = list(roots) if not ROOTS_STRICT[0] else [next(r for r in roots if root_key(r) == k) for k in kept_keys]
        exp_list = []
        for r in walked:
            sr = single_of(r)
            exp_list += sr["content_list"] if sr else []
        if o["content_list"] != exp_list:
            acc.mism.append(("roots %s: the model walks %s, whose file results are %s...; check lists %s..." % (
                " ".join(roots), walked, exp_list[:3], o["content_list"][:3]), c2))
        elif not bad:
            acc.validated += 1
        if not bad:
            continue
        acc.nontrivial.add(json.dumps(c2, sort_keys=True))
        msg = "roots %s: %s" % (" ".join(roots), "; ".join(bad))
        # classifier of the old defect: the run printed exactly the concatenation of what each root gives on its own
        a, b = single_of(roots[0]), single_of(roots[1])
        concatenated = (a is not None and b is not None and o["files"] == a["files"] + b["files"] and o["content"] == a["content"] + b["content"]
                        and o["totals"] == [x + y for x, y in zip(a["totals"], b["totals"])] and o["rc"] == max(a["rc"], b["rc"]))
        if not ROOTS_STRICT[0] and concatenated:
            acc.known.append((ROOTS_CLASS, msg, c2))
        else:
            acc.fails.append((msg, c2))


KIND_PLAN = ["bigstructure", "none", "plain", "ties", "hostile", "structure", "baseline", "customlang", "mixed", "warnband"]


def cli_phase(ctx, sgcli, model, builtin, gen, n_projects, n_full, n_roots=5):
    acc = Acc()
    projects = [project_from_replay(c["project"]) for c in load_corpus("cli")]
    k = 0
    while len(projects) < n_projects:
        projects.append(gen_project(ctx.rng, KIND_PLAN[k % len(KIND_PLAN)]))
        k += 1
    full = [i for i, P in enumerate(projects) if ({"ties", "customlang", "bigstructure"} & P.tags)]
    full = set(sorted(full, key=lambda i: (0 if "bigstructure" in projects[i].tags else 1, i))[:n_full])
    # overlapping scan roots: the corpus projects tagged for it, then generated projects with a sub-directory (structure rules first)
    cand = [i for i, P in enumerate(projects) if any(b"/" in k for k in P.files)]
    roots = set(sorted(cand, key=lambda i: (0 if "roots" in projects[i].tags else 1 if "structure" in projects[i].tags else 2, i))[:n_roots])
    with cf.ThreadPoolExecutor(max_workers=6) as ex:
        futs = [ex.submit(run_project, sgcli, model, builtin, gen, P, i in full, None, i in roots) for i, P in enumerate(projects)]
        for f in futs:
            acc.merge(f.result())
    return acc, projects


def load_corpus(kind):
    p = os.path.join(CORPUS, "report.jsonl")
    out = []
    if os.path.exists(p):
        for line in open(p):
            line = line.strip()
            if not line:
                continue
            j = json.loads(line)
            if kind == "lib" and "lib_case" in j:
                out.append(j["lib_case"])
            if kind == "cli" and "project" in j:
                out.append(j)
    return out


def xcheck(ctx, acc, k):
    """Evaluate a sub-sample of the model queries inside Coq (vm_compute) and compare with the extracted driver."""
    pool = [(l, o) for l, o in acc.model_lines if l.split("\t")[0] in ("summary", "agg", "esc", "uri", "bylang", "totals", "roots") and len(l) < 1500]
    ctx.rng.shuffle(pool)
    pick = pool[:k]
    exprs, expect = [], []

    def res(item):
        st, p, t, c, m, b = item.split("|")[:6]
        return ("{| r_path := %s; r_status := %s; r_stats := {| l_total := %s; l_code := %s; l_comment := %s; l_blank := %s |}; "
                "r_raw := None; r_limit := 0; r_reason := None; r_sugg := None; r_structure := %s |}" % (
                    coq_str(dec(p)), ["Passed", "Warning", "Failed", "Grandfathered"][int(st)], t, c, m, b,
                    "true" if item.split("|")[6:] == ["1"] else "false"))

    def fil(item):
        p, l, t, c, m, b = item.split("|")
        return "{| f_path := %s; f_lang := %s; f_stats := {| l_total := %s; l_code := %s; l_comment := %s; l_blank := %s |} |}" % (
            coq_str(dec(p)), coq_str(dec(l)), t, c, m, b)

    for l, o in pick:
        f = l.split("\t")
        if f[0] == "summary":
            rs = "[" + "; ".join(res(i) for i in f[1].split(";")) + "]" if f[1] != "-" else "[]"
            exprs.append("let s := summarize %s in [s_total s; s_passed s; s_warnings s; s_failed s; s_grandfathered s]" % rs)
            expect.append([int(x) for x in o.split(" | ")[0].split()])
        elif f[0] == "agg":
            rs = "[" + "; ".join(res(i) for i in f[2].split(";")) + "]" if f[2] != "-" else "[]"
            exprs.append("let a := %s %s in [l_total a; l_code a; l_comment a; l_blank a]" % ("html_aggregate_v0" if f[1] == "0" else "html_aggregate", rs))
            expect.append([int(x) for x in o.split()])
        elif f[0] == "roots":
            def pth(x):
                return "[]" if x == "." else "[" + ";".join(coq_str(dec(c)) for c in x.split("/")) + "]"
            exprs.append("flat_map (fun p => 1114113 :: flat_map (fun c => 1114112 :: c) p) (drop_covered [%s])" % ";".join(pth(x) for x in f[1].split(";")))
            exp = []
            for x in ([] if o.split("\t")[0] == "-" else o.split("\t")[0].split(";")):
                exp.append(1114113)
                for c in ([] if x == "." else x.split("/")):
                    exp += [1114112] + [ord(ch) for ch in dec(c)]
            expect.append(exp)
        elif f[0] == "uri":
            exprs.append("uri_encode [%s]" % ";".join(x for x in f[1].split(",") if x != "-"))
            expect.append([ord(c) for c in dec(o.split("\t")[0])])
        elif f[0] == "esc":
            exprs.append("html_escape %s" % coq_str(dec(f[1])))
            expect.append([ord(c) for c in dec(o.split("\t")[0])])
        elif f[0] == "totals":
            fs = "[" + "; ".join(fil(i) for i in f[1].split(";")) + "]" if f[1] != "-" else "[]"
            exprs.append("let t := project_totals %s in [t_files t; t_lines t; t_code t; t_comment t; t_blank t]" % fs)
            expect.append([int(x) for x in o.split()])
        else:
            fs = "[" + "; ".join(fil(i) for i in f[3].split(";")) + "]" if f[3] != "-" else "[]"
            pi = "[" + ";".join(x for x in f[2].split(",")) + "]%nat" if f[2] != "-" else "[]"
            fn = "by_language_v0" if f[1] == "0" else "by_language"
            exprs.append("flat_map (fun g => g_key g ++ [1114112; g_files g; g_code g]) (%s %s %s)" % (fn, pi, fs))
            exp = []
            for g in r_groups(o):
                exp += [ord(c) for c in g[0]] + [1114112, g[1], g[2]]
            expect.append(exp)
    if not exprs:
        ctx.cov["extraction_crosscheck"] = {"cases": 0, "disagreements": 0}
        return
    got = coq_eval("From Coq Require Import NArith List.\nFrom SG Require Import Report.Summary Report.Stats Report.Escape Report.Uri Report.Roots.", exprs)
    bad = 0
    for g, e in zip(got, expect):
        if [int(x) for x in re.findall(r"\d+", g)] != e:
            bad += 1
    ctx.cov["extraction_crosscheck"] = {"cases": len(exprs), "disagreements": bad}
    if bad or len(got) != len(exprs):
        raise CheckBroken("extracted OCaml and vm_compute disagree on %d/%d report cases" % (bad, len(exprs)))


def run(ctx):
    sgcli, impl, model, builtin = prepare(ctx)
    proofs_ok = proofs_step(ctx, PROP_FILES)
    gen = model_generation(ctx)
    set_generations(ctx)
    quick = ctx.tier == "quick"
    t0 = time.time()
    lib = lib_phase(ctx, impl, model, builtin, gen, *((400, 150, 100) if quick else (10000, 3000, 1500)))
    t1 = time.time()
    cli, projects = cli_phase(ctx, sgcli, model, builtin, gen, *((26, 10, 5) if quick else (320, 100, 80)))
    t2 = time.time()
    acc = Acc()
    acc.merge(lib)
    acc.merge(cli)
    acc.model_lines = lib.model_lines + cli.model_lines
    ctx.cov["evaluations"] = acc.evals
    ctx.cov["distinct_nontrivial"] = len(acc.nontrivial)
    ctx.cov["traces_validated_against_impl"] = acc.validated
    ctx.cov["cli_process_spawns"] = acc.spawns
    ctx.cov["phase_wall_s"] = {"library": round(t1 - t0, 1), "cli": round(t2 - t1, 1)}
    ctx.cov["model_generation"] = "repaired tree (fixes/D23-*.patch applied)" if gen == "1" else "unrepaired tree (D23 open)"
    ctx.cov["rule"] = (
        "library level (sgv-report): seeded result vectors (0-8 results, every status, content and 10 structure kinds, hostile paths / reasons / "
        "suggestion names, duplicate paths, non-UTF-8 paths) through all five formatters (+ text -v, coloured text); file lists with tied code totals, "
        "hostile language names and directory depths through ProjectStatistics (6 fresh HashMaps per case); custom-language sets with shared "
        "extensions through with_custom_languages and compute_config_hash (6 fresh HashMaps per case). CLI level (sgcli in a Sandbox): generated "
        "projects of 8 kinds (none, plain, ties in every sort key, hostile names incl. quotes/angle brackets/ampersands/newlines/percent/non-UTF-8 "
        "bytes, structure rules, baseline with grandfathered and new failures, several custom languages sharing an extension, mixed); each: check in "
        "5 formats + -v, side-cars, -q/-vv/--suggest/--color always, stats files|summary|breakdown|report in every format, 3-15 repeated runs of 5 "
        "commands under RAYON_NUM_THREADS 1/4/16; with the SLOC cache on (files aged so that entries are stored; projects with EMPTY recognised source "
        "files and a file ignored by directive): check json / markdown / stats summary on the first and on later runs over one cache (threads 4/1/16) byte-identical "
        "to the --no-sloc-cache reports; the html line-total cards against stats summary / --report-json; the same tree created in ascending and in descending name "
        "order (on tmpfs when there is one): check json / markdown, stats files --top 2, stats breakdown --by dir byte-identical; for baseline projects a "
        "recorded violation repaired, then check --ratchet auto --format json|sarif: stdout well-formed and equal to the --output file; for 5 (thorough 80) projects "
        "with a sub-directory: runs over overlapping scan roots (. d | d . | d d | d d/file | d/file d | file file | ./d d/) against the single covering root. evaluations = library cases answered + projects; non-trivial = distinct case with a non-passed "
        "result, a tie in a breakdown sort key, or an extension claimed by two custom languages; traces_validated = comparisons model-vs-tool that agreed")
    ctx.cov["input_distribution"] = dict(acc.hist)
    ctx.cov["model_vs_impl_mismatches"] = len(acc.mism)
    ctx.cov["property_oracle_failures"] = len(acc.fails)
    for c in (lib.model_lines[:2] + cli.model_lines[:2]):
        ctx.sample({"model_query": c[0][:400], "model_answer": c[1][:400]})
    if projects:
        P = projects[min(3, len(projects) - 1)]
        ctx.sample({"project_tags": sorted(P.tags), "config": P.config, "files": [k.decode("utf-8", "replace") for k in list(P.files)[:8]]})
    ctx.cov["trusted_base"] = TRUSTED_COMMON + [
        "SARIF: validated against a hand-transcribed subset of sarif-schema-2.1.0 (allowed/required properties, enums, integer minima of the 13 object "
        "types the tool emits) plus RFC 3986 uri-reference syntax of every artifactLocation.uri; the official schema file is not in the sandbox",
        "python extractor for the unescaped text format: a file name that itself forges a header line is outside the generated names; Markdown is read by a "
        "python transcription of the GFM table / code-span / backslash-escape rules (cells end at pipes not preceded by a backslash, CommonMark 6.1 code spans)",
        "python html.parser as the reference HTML tokenizer; serde_json for JSON well-formedness of strings",
        "std HashMap: iteration order is some permutation of the entries (modelled by the selection code pi); rayon collect preserves order",
        "Path::parent / display_path are modelled for clean relative paths as the scanner yields them"]
    ctx.assumptions = ["custom language names are distinct (they are keys of one TOML table)"]
    xcheck(ctx, acc, 40 if quick else 300)
    # ---- verdicts
    seen_known = set()
    for klass, what, case in acc.known:
        if not ctx.known(klass, what):
            acc.fails.append(("(class %s is not a listed finding) %s" % (klass, what), case))
        elif klass not in seen_known:
            seen_known.add(klass)
            ctx.notes.append({"known_finding_example": {"class": klass, "what": what[:300]}})
    for what, case in acc.fails[:5]:
        ctx.violation(dict(case, kind="property-oracle", what=what, replay_cmd="python3 tools/vp.py check C20 --replay <this file>"))
    if not acc.fails:
        if acc.mism:
            what, case = acc.mism[0]
            ctx.violation(dict(case, kind="correspondence-broken", relation="extracted Report model == tool output (summary, listing order, "
                               "totals, breakdowns, registry, html_escape)", first_mismatch=what, mismatches=len(acc.mism),
                               note="the model no longer describes the code, so theorems C20_* no longer transfer; no input violating C20 itself was "
                                    "found among %d cases" % acc.evals), no_input=True)
        elif not proofs_ok:
            ctx.violation({"kind": "proof-broken", "details": ctx.proof_broken}, no_input=True)


def replay(ctx, path):
    j = json.load(open(path))
    sgcli, impl, model, builtin = prepare(ctx)
    gen = model_generation(ctx)
    set_generations(ctx)
    if "lib_case" in j:
        out, rc, err = run_lines(impl, [json.dumps(j["lib_case"])])
        acc = Acc()
        o = json.loads(out[0])
        case = {"lib_case": j["lib_case"]}
        if j["lib_case"]["op"] == "fmt":
            cross_format(acc, model, o, case, "lib fmt")
        elif j["lib_case"]["op"] == "stats":
            lib_stats(acc, model, j["lib_case"], o, case, gen)
        else:
            lib_reg(acc, model, builtin, j["lib_case"], o, case, gen)
    elif "project" in j:
        acc = run_project(sgcli, model, builtin, gen, project_from_replay(j["project"]), True, None, True)
    else:
        print("nothing to replay in", path)
        return 0
    for what, _ in acc.fails:
        print("FAIL    :", what)
    for what, _ in acc.mism:
        print("MISMATCH:", what)
    for k, what, _ in acc.known:
        print("KNOWN   :", k, what)
    print("replayed: %d oracle failures, %d model mismatches, %d known-class hits" % (len(acc.fails), len(acc.mism), len(acc.known)))
    return 1 if (acc.fails or acc.mism) else 0
