"""C17 -- configuration gate: invalid settings exit 2, never enforced, never a crash."""
import concurrent.futures as cf
import json
from gen_gate import *  # noqa

PROP_FILES = ["Gate/Properties_C17.v"]
MANIFEST = dict(
    technique="Coq proof on a Gallina model of the load/validate/override/checker-construction pipeline (validation.rs, structure/validation.rs, check_args.rs, context.rs, config.rs, duration.rs, expires.rs); glob, regex and TOML typing enter as oracle bits from the real crates; tied by field-level mutation through the library and the real CLI in both build profiles",
    text="C17_gate_sound_modulo_known (every accepted effective configuration is in the documented domain unless it falls in an executable known class), C17_gate_sound_repaired (no class left once D17/D18/D19/D27 are repaired), C17_validate_equals_check (config validate = check verdict for the repaired tree; refuted for the pinned tree), C17_reject_is_exit2, C17_no_crash, C17_presets_pass (finite sweep over the regenerated preset/template table), duration/date parser facts; D17/D18/D19 witnesses by vm_compute.",
    note="Trusted: Coq kernel, extraction, harness sgv-gate (typed dump of the deserialised Config, globset/regex compilation bits), python generators. TOML syntax/type errors are predicted by the real toml deserialiser (oracle), not modelled. Absence of panics/timeouts of the Rust code is observed on the generated inputs in both build profiles, not proved.",
    ref="5 (C17)")

CLASSES = ["K17_rule_warn_threshold", "K17_expires", "K17_cli_after_validation", "K17_overflow", "K17_dormant_glob", "K17_lenient_date"]


# --------------------------------------------------------------------------- diagnostics

def expected_diag(kind, i, j, h):
    """Substrings of which at least one must occur in the diagnostic for this model reason."""
    thr = ["warn_threshold", "warn_files_threshold", "warn_dirs_threshold"]
    at = ["", "warn_files_at", "warn_dirs_at"]
    lim = ["max_files", "max_dirs", "max_depth"]
    globs = h.get("bad_globs", []) if h else []
    if kind.startswith("Glob"):
        return [g for g in globs if g] or ["pattern"]
    table = {
        "PathRequired": ["require a target"],
        "Parse": ["line ", "invalid", "expected", "missing", "unknown", "duplicate", "Ambiguous", "sibling", "TOML"],
        "Version": ["version"],
        "ContentWarnThreshold": ["content.warn_threshold"],
        "ContentWarnAt": ["content.warn_at"],
        "ContentRuleWarnAt": ["content.rules[%d].warn_at" % i],
        "ContentRuleWarnThreshold": ["content.rules[%d].warn_threshold" % i],
        "ContentRuleExpires": ["content.rules[%d].expires" % i],
        "ReportExclude": ["stats.report.exclude"],
        "BreakdownBy": ["stats.report.breakdown_by"],
        "TrendSince": ["stats.report.trend_since"],
        "StructThreshold": ["structure." + thr[j % 3]],
        "StructWarnAtNeg": ["structure." + at[j % 3]],
        "StructWarnAtLimit": ["structure." + at[j % 3]],
        "RuleThreshold": ["structure.rules[%d].%s" % (i, thr[j % 3])],
        "RuleWarnAtNeg": ["structure.rules[%d].%s" % (i, at[j % 3])],
        "RuleWarnAtLimit": ["structure.rules[%d].%s" % (i, at[j % 3])],
        "StructRuleExpires": ["structure.rules[%d].expires" % i],
        "Limit": ["Invalid %s value" % lim[j % 3]],
        "RuleLimit": ["Invalid %s value in rule %d" % (lim[j % 3], i + 1)],
        "SiblingEmptyMatch": ["Rule %d sibling %d has empty 'match'" % (i + 1, j + 1)],
        "SiblingEmptyRequire": ["Rule %d sibling %d has empty 'require'" % (i + 1, j + 1)],
        "SiblingEmptyPattern": ["Rule %d sibling %d has empty pattern" % (i + 1, j + 1)],
        "SiblingNoStem": ["Rule %d sibling %d" % (i + 1, j + 1)],
        "SiblingGroupSize": ["Rule %d sibling %d group must have at least 2" % (i + 1, j + 1)],
        "MixGlobal": ["Global structure config cannot mix"],
        "MixRule": ["Rule %d (scope" % (i + 1)],
        "Regex": ["Invalid naming pattern regex"],
    }
    return table[kind]


def split_out(o):
    """'A' | 'C' | 'R:kind:i:j' -> (tag, kind, i, j)"""
    if o.startswith("R:"):
        _, k, i, j = o.split(":")
        return ("R", k, int(i), int(j))
    return (o, None, 0, 0)


def diag_matches(o, text, h):
    tag, k, i, j = split_out(o)
    if tag != "R":
        return True
    return any(s in text for s in expected_diag(k, i, j, h))


# --------------------------------------------------------------------------- cases

def load_corpus():
    p = os.path.join(CORPUS, "gate.jsonl")
    out = []
    if os.path.exists(p):
        for line in open(p):
            if line.strip():
                j = json.loads(line)
                out.append({"tag": "corpus", "name": j["name"], "toml": j["toml"], "argv": j.get("argv", []), "muts": [j["name"]]})
    return out


def gen_cases(ctx, n, tables):
    rng = ctx.rng
    bases = base_docs()
    for name, text in tables:
        try:
            bases["tbl:" + name] = tomllib.loads(text)
        except Exception:
            pass
    # the large tables are mutated less often than the hand-written bases
    weights = {k: (1.0 if not k.startswith("tbl:") else 0.12) for k in bases}
    keys = list(bases)
    fcs = flag_cases()
    cases = []
    for _ in range(n):
        r = rng.random()
        if r < 0.05:
            t = rng.choice(MALFORMED)
            cases.append({"tag": "malformed", "toml": t, "argv": [], "muts": ["malformed"]})
            continue
        name = rng.choices(keys, [weights[k] for k in keys])[0]
        m = mutate(rng, {name: bases[name]})
        argv = []
        if r < 0.25:
            argv = list(rng.choice(fcs))
            m["muts"].append("flags:" + " ".join(argv))
        cases.append({"tag": "flags" if argv else "mutated", "toml": m["toml"], "argv": argv, "muts": m["muts"], "base": name})
    return cases


# --------------------------------------------------------------------------- CLI runs

SRC = "fn main() {\n    println!(\"x\");\n}\n"


def cli_case(sgcli, sgcli_rel, case, with_snapshot=False):
    """Run one document (+ check argv) through the real CLI, both profiles. Returns dict profile -> cmd -> (rc, stderr+stdout tail)."""
    res = {}
    with Sandbox(prefix="sgv-gate-") as sb:
        sb.write(".sloc-guard.toml", case["toml"].encode("utf-8", "surrogatepass") if isinstance(case["toml"], str) else case["toml"])
        sb.write("src/a.rs", SRC)
        env = {"RAYON_NUM_THREADS": "2"}
        for prof, exe in (("D", sgcli), ("R", sgcli_rel)):
            r = {}
            argv = case["argv"] or []
            cmds = {"check": ["--color", "never", "check", "--no-sloc-cache"] + argv}
            if not case.get("check_only"):
                cmds["validate"] = ["--color", "never", "config", "validate", "-c", ".sloc-guard.toml"]
                cmds["show"] = ["--color", "never", "config", "show"]
                cmds["stats"] = ["--color", "never", "stats", "summary", "--no-sloc-cache"]
            if with_snapshot:
                cmds["snapshot"] = ["--color", "never", "snapshot", "--force", "--no-sloc-cache"]
            if prof in case.get("with_files", "") and not argv:
                cmds["files"] = ["--color", "never", "check", "--no-sloc-cache", "--files", "src/a.rs"]
            for name, a in cmds.items():
                rc, so, se = sb.run(exe, a, env=env, timeout=30)
                r[name] = (rc, (se + "\n" + so)[-1500:])
            res[prof] = r
    return res


def run_cli_cases(cases, sgcli, sgcli_rel, workers=16):
    with cf.ThreadPoolExecutor(max_workers=workers) as ex:
        return list(ex.map(lambda c: cli_case(sgcli, sgcli_rel, c, with_snapshot=c.get("snapshot", False)), cases))


def hostile_dir_names():
    """Sub-project directory names for `init --detect`: TOML-hostile, glob-hostile and invisible characters."""
    names = ['we"ird', "a[b", "x{y", "q?z", "st*r", "sp ace", "uni_\u00e9", "tab\there", "br]ace}", "dollar$reset", "#hash", "'single'",
             "web\\ui", "web\nui", "cr\rlf", 'tr"""iple', "lit" + "'" * 3 + "eral", 'a\\"b', "end\\", "my \"web\" app", "bob's-web", "web[v2]{a,b}*"]
    for i in list(range(1, 0x20)) + [0x7F]:
        names.append("c%02x%sx" % (i, chr(i)))
    names += ["zw\u200bsp", "bom\ufeffx", "ls\u2028x", "ps\u2029x", "pua\ue000x", "nel\u0085x", "comb e\u0301 a\u0323\u0308", "\u0301lead",
              "max\U0010ffffx", "nonchar\ufffex", "rtl\u202eover", "w\u00e9b\u30b5\u30a4\u30c8", "emoji\U0001f600dir", "shy\u00adx"]
    return names


def glob_escape(s):
    """globset::escape"""
    return "".join("[" + c + "]" if c in "?*[]{}" else c for c in s)


def expected_detect_pattern(name):
    # detect_projects turns backslashes of the relative path into slashes; the name is then matched literally
    return glob_escape(name.replace("\\", "/")) + "/**"


def init_detect_cases(sgcli, sgcli_rel, quick, groups=None):
    """`init --detect` in a monorepo whose sub-project directories have hostile names: the generated template must pass the
    gate and its patterns, parsed back from the TOML by an independent parser, must be the directory names."""
    names = hostile_dir_names()
    if groups is None:
        groups = [names[i:i + 8] for i in range(0, len(names), 8)]
        if not quick:
            groups += [[n] for n in names]

    def one(group):
        out = {}
        for prof, exe in (("D", sgcli), ("R", sgcli_rel)):
            with Sandbox(prefix="sgv-gate-i-") as sb:
                for name in group:
                    sb.write(os.path.join(name, "Cargo.toml"), "[package]\nname = \"x\"\n")
                    sb.write(os.path.join(name, "src", "a.rs"), SRC)
                if len(group) == 1:
                    sb.write("package.json", "{ \"name\": \"root\" }\n")
                env = {"RAYON_NUM_THREADS": "2"}
                r0 = sb.run(exe, ["--color", "never", "init", "--detect"], env=env, timeout=30)
                p = os.path.join(sb.proj, ".sloc-guard.toml")
                raw = open(p, "rb").read() if os.path.exists(p) else b""
                r1 = sb.run(exe, ["--color", "never", "config", "validate", "-c", ".sloc-guard.toml"], env=env, timeout=30)
                r2 = sb.run(exe, ["--color", "never", "check", "--no-sloc-cache"], env=env, timeout=30)
                pats, perr = None, None
                try:
                    doc = tomllib.loads(raw.decode("utf-8"))
                    pats = sorted(r.get("pattern") for r in doc.get("content", {}).get("rules", []))
                except Exception as e:  # the template is not TOML for an independent parser either
                    perr = str(e)[:200]
                out[prof] = {"init": r0[0], "validate": r1[0], "check": r2[0], "toml": raw.decode("utf-8", "replace"), "diag": (r1[2] + r2[2])[-400:],
                             "patterns": pats, "parse_error": perr}
        return out
    with cf.ThreadPoolExecutor(max_workers=12) as ex:
        return list(zip(groups, ex.map(one, groups)))


# --------------------------------------------------------------------------- inheritance leg (extends / $reset x version)

INH_VERSIONS = [None, "2", "1", "3", "", "2.0", Raw("2"), Raw("2.0"), Raw("true"), Raw('["2"]')]
INH_BODY = "\n[content]\nmax_lines = 400\nwarn_threshold = 0.5\n"


def vline(v):
    return "" if v is None else "version = %s\n" % tval(v)


def inherit_cases(rng, presets, quick):
    """Configurations loaded through `extends` (preset / local base file) or containing a `$reset` marker, crossed with
    every version class in the child, in the base, or in both. `flat` is the single-file document with the same
    effective version (child wins over base); the gate verdict must be the one of `flat`."""
    out = []
    pnames = [n for n, _ in presets]
    for i, cv in enumerate(INH_VERSIONS):
        for pn in (pnames if not quick else [pnames[i % len(pnames)]]):
            ev = cv if cv is not None else "2"
            out.append({"shape": "preset", "files": {".sloc-guard.toml": vline(cv) + 'extends = "preset:%s"\n' % pn + INH_BODY},
                        "flat": vline(ev) + INH_BODY, "muts": ["extends preset:" + pn, "child version %r" % (cv,)]})
        out.append({"shape": "reset", "files": {".sloc-guard.toml": vline(cv) + '\n[scanner]\nexclude = ["$reset", "vendor/**"]\n' + INH_BODY},
                    "flat": vline(cv) + '\n[scanner]\nexclude = ["vendor/**"]\n' + INH_BODY, "muts": ["$reset marker, no extends", "version %r" % (cv,)]})
    pairs = [(c, b) for c in INH_VERSIONS for b in INH_VERSIONS]
    if quick:
        must = [(None, "1"), ("3", "2"), ("1", "1"), ("2", "1"), (None, Raw("2")), (None, None), ("2", "2"), (None, ""), (Raw("2"), "2")]
        rest = [p for p in pairs if p not in must]
        rng.shuffle(rest)
        pairs = must + rest[:7]
    for k, (cv, bv) in enumerate(pairs):
        ev = cv if cv is not None else bv
        child = vline(cv) + 'extends = "base.toml"\n'
        flat_extra = ""
        shape = "local"
        if k % 3 == 2:
            child += '\n[scanner]\nexclude = ["$reset", "gen/**"]\n'
            flat_extra = '\n[scanner]\nexclude = ["gen/**"]\n'
            shape = "local+reset"
        out.append({"shape": shape, "files": {".sloc-guard.toml": child, "base.toml": vline(bv) + '\n[scanner]\nexclude = ["old/**"]\n' + INH_BODY},
                    "flat": vline(ev) + flat_extra + INH_BODY, "muts": ["extends base.toml", "child version %r" % (cv,), "base version %r" % (bv,)]})
    # $reset markers in the TABLE arrays (content.rules by pattern, structure.rules by scope): the marker element is not a typed
    # rule (no max_lines), every loading path strips it before the document is typed; alone, followed by a real rule, carrying a
    # field of the wrong type; in a single file and in a leaf whose base has rules of its own
    RULE = '[[content.rules]]\npattern = "**/gen/**"\nmax_lines = 50\n'
    SRULE = '[[structure.rules]]\nscope = "src/**"\nmax_files = 30\n'
    BASE_RULES = 'version = "2"\n' + INH_BODY + '[[content.rules]]\npattern = "**/old/**"\nmax_lines = 9\n[structure]\nmax_files = 100\n' \
                 '[[structure.rules]]\nscope = "old/**"\nmax_files = 7\n'
    markers = [("content-marker-only", '[[content.rules]]\npattern = "$reset"\n', ""),
               ("content-marker+rule", '[[content.rules]]\npattern = "$reset"\n' + RULE, RULE),
               ("content-marker-with-untyped-field", '[[content.rules]]\npattern = "$reset"\nmax_lines = "many"\n' + RULE, RULE),
               ("structure-marker-only", '[[structure.rules]]\nscope = "$reset"\n', ""),
               ("structure-marker+rule", '[[structure.rules]]\nscope = "$reset"\n' + SRULE, SRULE),
               ("both-markers", '[[content.rules]]\npattern = "$reset"\n[[structure.rules]]\nscope = "$reset"\n', ""),
               ("content-marker-not-first", RULE + '[[content.rules]]\npattern = "$reset"\n', None)]
    for name, leaf, flat in markers:
        bad = 'version = "2"\n[content]\nmax_lines = "not typed"\n'      # what a misplaced marker must amount to: a refused document
        out.append({"shape": "reset-rule", "files": {".sloc-guard.toml": 'version = "2"\n' + INH_BODY + leaf},
                    "flat": ('version = "2"\n' + INH_BODY + flat) if flat is not None else bad, "muts": ["table-array $reset marker, no extends", name]})
        out.append({"shape": "local+reset-rule", "files": {".sloc-guard.toml": 'extends = "base.toml"\n' + leaf, "base.toml": BASE_RULES},
                    "flat": ('version = "2"\n' + INH_BODY + "[structure]\nmax_files = 100\n"
                             + ("" if "content" in name or name == "both-markers" else '[[content.rules]]\npattern = "**/old/**"\nmax_lines = 9\n')
                             + ("" if "structure" in name or name == "both-markers" else '[[structure.rules]]\nscope = "old/**"\nmax_files = 7\n')
                             + flat) if flat is not None else bad,
                    "muts": ["extends base.toml (which has rules)", "table-array $reset marker in the leaf", name]})
    # a chain of three: the unsupported version sits in the grandparent only
    out.append({"shape": "chain", "files": {".sloc-guard.toml": 'extends = "mid.toml"\n', "mid.toml": 'extends = "base.toml"\n[content]\nmax_lines = 300\n',
                                            "base.toml": 'version = "1"\n' + INH_BODY},
                "flat": 'version = "1"\n' + INH_BODY, "muts": ["extends mid.toml -> base.toml", "grandparent version '1'"]})
    for c in out:
        c["tag"] = "inherit-" + c["shape"]
        c["toml"] = c["flat"]
        c["argv"] = []
    return out


def run_inherit_cases(cases, sgcli, sgcli_rel):
    def one(c):
        res = {}
        with Sandbox(prefix="sgv-gate-x-") as sb:
            for name, text in c["files"].items():
                sb.write(name, text)
            sb.write("src/a.rs", SRC)
            env = {"RAYON_NUM_THREADS": "2"}
            cmds = {"check": ["--color", "never", "check", "--no-sloc-cache"],
                    "validate": ["--color", "never", "config", "validate", "-c", ".sloc-guard.toml"],
                    "show": ["--color", "never", "config", "show"],
                    "stats": ["--color", "never", "stats", "summary", "--no-sloc-cache"]}
            for prof, exe in (("D", sgcli), ("R", sgcli_rel)):
                res[prof] = {}
                for name, a in cmds.items():
                    rc, so, se = sb.run(exe, a, env=env, timeout=30)
                    res[prof][name] = (rc, (se + "\n" + so)[-1200:])
        return res
    with cf.ThreadPoolExecutor(max_workers=16) as ex:
        return list(ex.map(one, cases))


def verdict_of_exit(cmd, rc):
    if rc == -9:
        return "T"
    if rc == 2:
        return "R"
    if cmd == "check" and rc in (0, 1):
        return "A"
    if cmd != "check" and rc == 0:
        return "A"
    return "X%d" % rc


# --------------------------------------------------------------------------- the check

def prepare(ctx):
    bins = cargo_build(["sgv-gate", "sgcli"])
    rel = cargo_build(["sgcli"], release=True)
    presets, templates, probes, behav, items = write_gen_presets(bins, bins["sgcli"])
    ok, log = coq_make(["Gate/Validate.vo", "Gen/Gen_Presets.vo", "Extract/ExtractGate.vo"])
    if not ok:
        raise CheckBroken("coq model build failed:\n" + log[-3000:])
    model = ocaml_build("gate_drv", ["gate_ex"])
    return bins, rel["sgcli"], model, presets, templates, probes, behav, items


def behav_bits(behav):
    return "".join("1" if behav[k] else "0" for k in BEHAV_KEYS)


def evaluate(bins, model, behav, cases):
    """Library level + model for every case. Fills case['h'], case['m']."""
    outs, errs = run_sharded(bins["sgv-gate"], [harness_line(c["toml"], c["argv"]) for c in cases], timeout=900, args=["run"])
    hs = [parse_harness(o) if o != "<NOANSWER>" else None for o in outs]
    mlines = [model_line(h) if h else "PARSEFAIL\t-" for h in hs]
    mouts, merrs = run_sharded(model, mlines, timeout=900, args=[behav_bits(behav)])
    if merrs:
        raise CheckBroken("model driver failed: %s" % merrs[:1])
    for c, h, mo in zip(cases, hs, mouts):
        c["h"] = h
        c["m"] = parse_model(mo)
        if c["m"] is None and h is not None:
            raise CheckBroken("model driver rejected a case: %s / %s" % (mo, c["toml"][:300]))
    return errs


def lib_mismatch(c):
    """Library-level correspondence: validate_config_semantics / CheckContext::from_config vs the model."""
    h, m = c["h"], c["m"]
    if h is None:
        return "harness gave no answer"
    if not h["parse"]:
        return None
    lib = m["lib"]
    for key, tagname in (("sem", "SEM"), ("sem2", "SEM2"), ("ctx", "CTX")):
        if key in ("ctx", "sem2") and not h["clap_ok"]:
            continue
        iv, imsg = h[key]
        mv = lib[key]
        mt = split_out(mv)
        want = {"OK": "OK", "R": "ERR", "C": "PANIC"}[mt[0]]
        if iv != want:
            return "%s: impl %s (%s) model %s" % (tagname, iv, imsg[:120], mv)
        if iv == "ERR" and not diag_matches(mv, imsg, h):
            return "%s: impl error %r does not name the setting the model rejects (%s)" % (tagname, imsg[:160], mv)
    return None


def run(ctx):
    bins, sgcli_rel, model, presets, templates, probes, behav, items = prepare(ctx)
    sgcli = bins["sgcli"]
    proofs_ok = proofs_step(ctx, PROP_FILES)
    quick = ctx.tier == "quick"
    viol = []      # property violations with concrete input
    mism = []      # model != impl
    hist = {}

    def known_or_violation(klass, what, case, extra=None):
        if ctx.known(klass, what):
            return
        viol.append({"kind": "property-oracle", "class": klass, "what": what, "toml": case["toml"], "argv": case.get("argv", []),
                     "muts": case.get("muts"), "detail": extra, "dirs": case.get("dirs"), "files": case.get("files")})

    # ---- behaviour probes vs the switches the model is instantiated with
    for k in ("rule_wt", "expires", "count_exclude", "strict_dates"):
        if k in probes and probes[k] != behav[k]:
            what = ("the built crate %s what known_findings/C17.json says about %s" %
                    ("no longer does" if behav[k] else "already does", k))
            ctx.notes.append({"probe_disagrees": k, "probe": probes[k], "expected": behav[k], "what": what})

    # ---- cases
    tables = [("preset-" + n, t) for n, t in presets] + templates
    table_cases = [{"tag": "table", "name": n, "toml": t, "argv": [], "muts": [n]} for n, t in tables]
    # every preset also through `extends = "preset:<name>"`
    ext_cases = [{"tag": "table-extends", "name": "extends-" + n, "toml": 'extends = "preset:%s"\n' % n, "argv": [], "muts": [n], "cli_only": True}
                 for n, _ in presets]
    corpus = load_corpus()
    n_lib = 6000 if quick else 150000
    gen = gen_cases(ctx, n_lib, tables)
    # every flag value class on two fixed documents
    bases = base_docs()
    flagdocs = []
    for argv in flag_cases():
        for bn in ("empty", "rich"):
            flagdocs.append({"tag": "flag-class", "toml": render(bases[bn]), "argv": argv, "muts": ["flags:" + " ".join(argv)], "base": bn})
    longglobs = long_glob_cases(quick)
    cases = table_cases + corpus + flagdocs + longglobs + gen
    errs = evaluate(bins, model, behav, cases)

    # ---- library-level correspondence + spec oracle on the library verdicts
    nontrivial = set()
    kinds_seen = {}
    for c in cases:
        hist[c["tag"]] = hist.get(c["tag"], 0) + 1
        mm = lib_mismatch(c)
        if mm:
            mism.append({"level": "library", "what": mm, "toml": c["toml"], "argv": c["argv"], "muts": c.get("muts")})
        m = c["m"]
        if m:
            key = (m["D"]["check"], m["D"]["validate"], m["R"]["check"], m["lib"].get("known"))
            if m["D"]["check"] != "A" or m["lib"].get("known", "-") != "-" or m["lib"].get("dom") == "0":
                nontrivial.add((c["toml"], tuple(c["argv"])))
            kinds_seen[m["D"]["check"].split(":")[1] if m["D"]["check"].startswith("R:") else m["D"]["check"]] = \
                kinds_seen.get(m["D"]["check"].split(":")[1] if m["D"]["check"].startswith("R:") else m["D"]["check"], 0) + 1
        # spec oracle at library level: the library pipeline accepts (sem OK, ctx OK, clap OK) but the effective configuration is
        # outside the documented domain
        h = c["h"]
        if h and h["parse"] and h["clap_ok"] and m and h["sem"][0] == "OK" and h["ctx"][0] == "OK" and m["lib"]["dom"] == "0" and \
                (h["sem2"][0] == "OK" or not behav["revalidate_cli"]):
            has_path_ok = not m["D"]["check"].startswith("R:PathRequired")
            version_ok = not m["D"]["check"].startswith("R:Version")
            if has_path_ok and version_ok:
                ks = [k for k in m["lib"]["known"].split(",") if k != "-"]
                if not ks:
                    viol.append({"kind": "property-oracle", "class": None, "what": "library pipeline accepts a configuration outside the documented domain and no known class applies",
                                 "toml": c["toml"], "argv": c["argv"], "muts": c.get("muts")})
                for k in ks:
                    known_or_violation(k, "accepted outside the documented domain (library level)", c)

    # ---- CLI subset: tables, corpus, flag classes, and a stratified sample of the generated documents
    cli_budget = 55 if quick else 4000
    by_kind = {}
    for c in gen:
        m = c["m"]
        if not m:
            continue
        k = (m["D"]["check"].split(":")[1] if m["D"]["check"].startswith("R:") else m["D"]["check"], m["D"]["validate"][:1], m["lib"].get("known"))
        by_kind.setdefault(k, []).append(c)
    picked = []
    pools = list(by_kind.values())
    ctx.rng.shuffle(pools)
    while len(picked) < cli_budget and any(pools):
        for p in pools:
            if p and len(picked) < cli_budget:
                picked.append(p.pop())
    flag_cli = [dict(c, check_only=True) for c in flagdocs if c["base"] == "empty"] + \
               ([dict(c, check_only=True) for c in flagdocs if c["base"] == "rich"] if not quick else [])
    age_cases = []
    for v in (90, 213503982334601, 213503982334602, 999999999999999999):
        age_cases.append({"tag": "retention", "toml": "[trend]\nmax_age_days = %d\n" % v, "argv": [], "muts": ["max_age_days=%d" % v], "snapshot": True, "age": v})
    evaluate(bins, model, behav, age_cases + ext_cases)
    # `check --files` builds the same context: it must refuse exactly what config validate refuses
    for c in corpus + picked:
        c["with_files"] = "DR" if not quick else "D"
    cli_cases = table_cases + ext_cases + corpus + age_cases + picked + flag_cli + longglobs
    cli_res = run_cli_cases(cli_cases, sgcli, sgcli_rel)
    spawns = 0
    cli_ok = 0
    for c, res in zip(cli_cases, cli_res):
        h, m = c["h"], c["m"]
        for prof in ("D", "R"):
            for cmd, (rc, text) in res[prof].items():
                spawns += 1
                # O1: exit in {0,1,2}, no panic, no timeout
                bad = None
                if rc == -9:
                    bad = "timeout"
                elif "panicked at" in text:
                    bad = "panic (exit %d)" % rc
                elif rc not in (0, 1, 2):
                    bad = "exit status %d" % rc
                if bad:
                    overflowish = (m and "K17_overflow" in (m["lib"].get("known") or "")) or c["tag"] == "retention"
                    if overflowish and "overflow" in text:
                        known_or_violation("K17_overflow", "%s %s: %s" % (prof, cmd, bad), c, text[-300:])
                    else:
                        viol.append({"kind": "property-oracle", "class": None, "what": "%s build, %s: %s" % ("debug" if prof == "D" else "release", cmd, bad),
                                     "toml": c["toml"], "argv": c["argv"], "output": text[-600:]})
                # model comparison
                if cmd == "snapshot" or c.get("cli_only"):
                    continue
                if not m:
                    continue
                mo = m[prof][{"check": "check", "files": "check", "validate": "validate", "show": "show", "stats": "show"}[cmd]]
                if cmd == "check" and h and not h["clap_ok"]:
                    mo = "R:Clap:0:0"
                iv = verdict_of_exit("check" if cmd == "files" else cmd, rc)
                mt = split_out(mo)[0]
                want = {"A": "A", "R": "R", "C": "X101"}[mt]
                if iv != want:
                    mism.append({"level": "cli", "profile": prof, "cmd": cmd, "impl_exit": rc, "model": mo, "toml": c["toml"], "argv": c["argv"],
                                 "output": text[-400:], "muts": c.get("muts")})
                else:
                    cli_ok += 1
                    # O4: exit 2 carries a diagnostic naming the offending setting
                    if iv == "R":
                        if mo.startswith("R:Clap"):
                            okd = "error:" in text
                        else:
                            okd = diag_matches(mo, text, h)
                        if not okd:
                            viol.append({"kind": "property-oracle", "class": None, "what": "exit 2 without a diagnostic naming the offending setting (%s)" % mo,
                                         "toml": c["toml"], "argv": c["argv"], "output": text[-600:], "profile": prof, "cmd": cmd})
            # O3: config validate accepts exactly what check accepts (documents without flags)
            if not c["argv"] and "validate" in res[prof]:
                vc = verdict_of_exit("check", res[prof]["check"][0])
                vv = verdict_of_exit("validate", res[prof]["validate"][0])
                if vc in ("A", "R") and vv in ("A", "R") and vc != vv:
                    known_or_violation("K17_validate_vs_check", "config validate exit %d, check exit %d" % (res[prof]["validate"][0], res[prof]["check"][0]), c)
            if not c["argv"] and "validate" in res[prof] and "files" in res[prof]:
                vf = verdict_of_exit("check", res[prof]["files"][0])
                vv = verdict_of_exit("validate", res[prof]["validate"][0])
                if vf in ("A", "R") and vv in ("A", "R") and vf != vv:
                    viol.append({"kind": "property-oracle", "class": None, "what": "check --files exits %d where config validate exits %d: the restricted run "
                                 "does not refuse what the gate refuses" % (res[prof]["files"][0], res[prof]["validate"][0]), "toml": c["toml"], "argv": [],
                                 "muts": c.get("muts"), "profile": prof})
            # O2: accepted by the real check although outside the documented domain
            if m and h and h["parse"] and h["clap_ok"] and verdict_of_exit("check", res[prof]["check"][0]) == "A" and m["lib"]["dom"] == "0":
                ks = [k for k in m["lib"]["known"].split(",") if k != "-"]
                if prof == "D":
                    ks = [k for k in ks if k != "K17_overflow"] or ks
                if not ks:
                    viol.append({"kind": "property-oracle", "class": None, "what": "check exits %d on a configuration outside the documented domain" % res[prof]["check"][0],
                                 "toml": c["toml"], "argv": c["argv"], "profile": prof})
                for k in ks:
                    known_or_violation(k, "check exit %d outside the documented domain" % res[prof]["check"][0], c)
        # O5: every preset and template passes both commands
        if c["tag"] in ("table", "table-extends"):
            for prof in ("D", "R"):
                if res[prof]["check"][0] not in (0, 1) or res[prof]["validate"][0] != 0:
                    viol.append({"kind": "property-oracle", "class": None, "what": "built-in %s does not pass the gate (check %d, validate %d)" %
                                 (c["name"], res[prof]["check"][0], res[prof]["validate"][0]), "toml": c["toml"], "argv": [],
                                 "output": res[prof]["check"][1][-300:] + res[prof]["validate"][1][-300:]})
        if c["tag"] == "retention":
            # model of apply_retention: days*86400 unchecked
            exp = retention_expect(model, behav, c["age"])
            for prof in ("D", "R"):
                rc = res[prof]["snapshot"][0]
                want = exp[prof]
                if (want == "PANIC") != (rc == 101):
                    mism.append({"level": "cli", "profile": prof, "cmd": "snapshot", "impl_exit": rc, "model": want, "toml": c["toml"], "argv": []})
    for n, w in items:
        if w is None:
            viol.append({"kind": "property-oracle", "class": None, "what": "built-in %s does not deserialise into Config" % n, "toml": dict(tables)[n], "argv": []})

    # ---- init --detect templates for hostile sub-project directory names
    idc = init_detect_cases(sgcli, sgcli_rel, quick)
    for group, res in idc:
        want = sorted(expected_detect_pattern(n) for n in group)
        for prof in ("D", "R"):
            r = res[prof]
            spawns += 3
            bad = None
            if r["init"] != 0 or r["validate"] != 0 or r["check"] not in (0, 1):
                bad = "does not pass the gate (init %d, config validate %d, check %d)" % (r["init"], r["validate"], r["check"])
            elif r["patterns"] is None:
                bad = "is not TOML for an independent parser (%s)" % r["parse_error"]
            elif r["patterns"] != want:
                bad = "has patterns %r, the directory names give %r" % (r["patterns"], want)
            if bad:
                culprit, rr = group, r
                if len(group) > 1:   # shrink to one directory name
                    for g1, res1 in init_detect_cases(sgcli, sgcli_rel, True, groups=[[n] for n in group]):
                        spawns += 6
                        r1 = res1[prof]
                        if r1["init"] != 0 or r1["validate"] != 0 or r1["check"] not in (0, 1) or r1["patterns"] != [expected_detect_pattern(g1[0])]:
                            culprit, rr = g1, r1
                            break
                known_or_violation("K17_init_detect_names", "init --detect template for sub-project directories %r %s" % (group, bad),
                                   {"toml": rr["toml"], "argv": [], "dirs": culprit, "muts": ["init --detect"] + [repr(g) for g in culprit]},
                                   {"dirs": culprit, "diag": rr["diag"], "patterns": rr["patterns"], "parse_error": rr["parse_error"]})
                break
    ctx.cov["init_detect_hostile_names"] = len(hostile_dir_names())
    ctx.cov["init_detect_sandboxes"] = len(idc)

    # ---- inheritance leg: extends (preset, local base, chain) and $reset markers crossed with every version class
    inh = inherit_cases(ctx.rng, presets, quick)
    evaluate(bins, model, behav, inh)          # the model (and the library pipeline) see the flattened single-file document
    inh_res = run_inherit_cases(inh, sgcli, sgcli_rel)
    for c, res in zip(inh, inh_res):
        hist[c["tag"]] = hist.get(c["tag"], 0) + 1
        h, m = c["h"], c["m"]
        for prof in ("D", "R"):
            for cmd, (rc, text) in res[prof].items():
                spawns += 1
                if rc == -9 or "panicked at" in text or rc not in (0, 1, 2):
                    viol.append({"kind": "property-oracle", "class": None, "what": "%s build, %s on an inherited configuration: exit %d / panic / timeout" % (prof, cmd, rc),
                                 "files": c["files"], "toml": c["flat"], "argv": [], "output": text[-500:]})
                    continue
                mo = m[prof][{"check": "check", "validate": "validate", "show": "show", "stats": "show"}[cmd]]
                iv = verdict_of_exit(cmd, rc)
                want = {"A": "A", "R": "R", "C": "X101"}[split_out(mo)[0]]
                if iv != want:
                    # the flattened document is refused (unsupported / non-string version) but the same settings loaded through
                    # extends / $reset are accepted: the property itself is violated, not just the correspondence
                    if want == "R" and iv == "A":
                        viol.append({"kind": "property-oracle", "class": None,
                                     "what": "%s exits %d on a configuration whose effective version is not \"2\" when it is loaded through %s (the same settings in one file: %s)"
                                             % (cmd, rc, c["shape"], mo), "files": c["files"], "toml": c["flat"], "argv": [], "muts": c["muts"], "profile": prof})
                    else:
                        mism.append({"level": "cli-inherit", "profile": prof, "cmd": cmd, "impl_exit": rc, "model": mo, "files": c["files"], "toml": c["flat"],
                                     "argv": [], "output": text[-400:]})
                else:
                    cli_ok += 1
                    if iv == "R" and mo.startswith("R:Version") and "version" not in text.lower():
                        viol.append({"kind": "property-oracle", "class": None, "what": "%s: exit 2 without a diagnostic naming the version" % cmd,
                                     "files": c["files"], "toml": c["flat"], "argv": [], "output": text[-500:]})
                    elif iv == "R" and not text.strip():
                        viol.append({"kind": "property-oracle", "class": None, "what": "%s: exit 2 without any diagnostic" % cmd, "files": c["files"],
                                     "toml": c["flat"], "argv": []})
        # O3 on the loading paths: config validate accepts exactly what check accepts
        for prof in ("D", "R"):
            vc = verdict_of_exit("check", res[prof]["check"][0])
            vv = verdict_of_exit("validate", res[prof]["validate"][0])
            if vc in ("A", "R") and vv in ("A", "R") and vc != vv:
                viol.append({"kind": "property-oracle", "class": None,
                             "what": "config validate exits %d where check exits %d on a configuration loaded through %s (%s): %s" % (
                                 res[prof]["validate"][0], res[prof]["check"][0], c["shape"], ", ".join(c["muts"]),
                                 (res[prof]["validate"][1] if vv == "R" else res[prof]["check"][1]).strip()[-200:]),
                             "files": c["files"], "toml": c["flat"], "argv": [], "muts": c["muts"], "profile": prof})
    ctx.cov["inherited_documents"] = len(inh)

    # ---- duration flags of stats (value classes) through the CLI, both profiles, against parse_duration of the model
    sfc = stats_flag_cases()
    if quick:
        sfc = [a for i, a in enumerate(sfc) if a[1] in ("trend",) or i % 3 == 0]
    sres = run_stats_flags(sfc, sgcli, sgcli_rel)
    durs = sorted({a[2].split("=", 1)[1] for a in sfc if a[2].startswith("--since=")})
    dm, _, _ = run_lines(model, ["DUR\t" + enc(d) for d in durs], args=[behav_bits(behav)])
    dmodel = {d: o.split(" ")[1:] for d, o in zip(durs, dm)}  # [debug-unchecked, release-unchecked, checked]
    for argv, res in zip(sfc, sres):
        for prof in ("D", "R"):
            rc, text = res[prof]
            spawns += 1
            bad = "timeout" if rc == -9 else ("panic (exit %d)" % rc if "panicked at" in text else (None if rc in (0, 1, 2) else "exit status %d" % rc))
            since = argv[2].split("=", 1)[1] if argv[2].startswith("--since=") else None
            exp = None
            if since is not None:
                mo = dmodel[since]
                exp = mo[2] if behav["dur_checked"] else (mo[0] if prof == "D" else mo[1])
            if bad:
                if exp == "PANIC" and "overflow" in text:
                    known_or_violation("K17_overflow", "%s: %s" % (" ".join(argv), bad), {"toml": "", "argv": argv})
                else:
                    viol.append({"kind": "property-oracle", "class": None, "what": "%s build, %s: %s" % (prof, " ".join(argv), bad), "toml": "", "argv": argv, "output": text[-500:]})
            if exp == "ERR" and rc == 0:
                # an invalid duration on the command line is ignored with a warning instead of exit 2 (pinned by an existing test)
                known_or_violation("K17_since_fallback", "%s: exit 0 (warning, falls back to the latest entry) on an invalid duration" % " ".join(argv),
                                   {"toml": "", "argv": argv, "muts": ["--since value class"]}, text[-300:])
            if exp is not None:
                got = "PANIC" if rc == 101 else ("ERR" if ("Invalid --since duration" in text or "Invalid trend_since duration" in text) else ("OK" if rc == 0 else "EXIT%d" % rc))
                if got != exp:
                    mism.append({"level": "cli", "profile": prof, "cmd": " ".join(argv), "impl": got, "model": exp})
                else:
                    cli_ok += 1

    # ---- evidence
    ctx.cov["evaluations"] = len(cases) + len(age_cases) + len(ext_cases) + len(sfc) + len(idc) + len(inh)
    ctx.cov["distinct_nontrivial"] = len(nontrivial)
    ctx.cov["traces_validated_against_impl"] = len(cases) - len([x for x in mism if x["level"] == "library"])
    ctx.cov["cli_process_spawns"] = spawns
    ctx.cov["cli_verdicts_agreeing_with_model"] = cli_ok
    ctx.cov["cli_documents"] = len(cli_cases)
    ctx.cov["model_vs_impl_mismatches"] = len(mism)
    ctx.cov["model_reject_kinds_exercised"] = kinds_seen
    ctx.cov["behaviour_switches"] = behav
    ctx.cov["behaviour_probes"] = probes
    ctx.cov["tables"] = {"presets": len(presets), "init_templates": len(templates), "exhaustive": True}
    ctx.cov["input_distribution"] = hist
    ctx.cov["rule"] = ("documents = built-in presets and init templates (exhaustive), corpus witnesses, and seeded field-level mutations (1-3 per document: boundary / "
                       "out-of-range numbers, nan/inf, wrong types, 2^63/2^64 integers, malformed globs and regexes, versions, dates, durations, allow+deny mixes, "
                       "sibling rules, malformed TOML) of six hand-written bases and of the tables, 20% with a numeric check flag; every document goes through the "
                       "real toml deserialiser, validate_config_semantics, apply_cli_overrides and CheckContext::from_config (library level) and through the extracted "
                       "Coq gate; a stratified subset (one pool per model verdict kind) plus every flag value class goes through sgcli check / config validate / "
                       "config show / stats summary in a Sandbox in both build profiles. non-trivial = distinct (document, argv) that the model rejects, or that is "
                       "outside the documented domain, or that falls in a known class")
    for c in (corpus[:2] + gen[:3]):
        ctx.sample({"toml": c["toml"][:600], "argv": c["argv"], "mutations": c.get("muts"), "model": c["m"], "lib": {"sem": c["h"]["sem"] if c["h"] and c["h"]["parse"] else None,
                    "ctx": c["h"]["ctx"] if c["h"] and c["h"]["parse"] else None, "toml_parses": bool(c["h"] and c["h"]["parse"])}})
    ctx.cov["trusted_base"] = TRUSTED_COMMON + [
        "TOML syntax and typing are not modelled: the real toml crate decides whether a document is a Config (oracle) and the harness dumps the typed value",
        "glob / regex validity are oracle bits computed by globset / regex through the harness",
        "absence of panics and time-outs of the Rust code is observed (both build profiles), not proved"]
    ctx.assumptions = ["field mutation is done on single files; the extends / $reset loading paths are crossed with the version classes only (merge semantics is C16); remote extends is not exercised offline; the default init template is taken from `sgcli init`, the detect templates from generate_detected_config",
                       "`stats --since <invalid>` warns and falls back (exit 0) by design; only crash-freedom and the parse verdict are checked there"]
    xcheck(ctx, cases, behav, 40 if quick else 300)

    # ---- verdicts
    seen = set()
    for v in viol:
        key = (v.get("class"), v["what"][:60])
        if key in seen or len(seen) >= 6:
            continue
        seen.add(key)
        v["replay_cmd"] = "python3 tools/vp.py check C17 --replay <this file>"
        ctx.violation(v)
    if not viol:
        if mism:
            ctx.violation({"kind": "correspondence-broken", "relation": "sgcli / library gate verdict == extracted Gate.Validate (gate_check, gate_validate_cmd, gate_show, validate_semantics, context_from_config)",
                           "first_mismatch": mism[0], "mismatches": len(mism),
                           "note": "the model no longer describes the code, so theorems C17_* no longer transfer; no input violating C17 itself was found among %d cases" % len(cases)},
                          no_input=True)
        elif not proofs_ok:
            ctx.violation({"kind": "proof-broken", "details": ctx.proof_broken}, no_input=True)
        elif errs:
            ctx.violation({"kind": "harness-died", "details": errs[:2]}, no_input=False)


def retention_expect(model, behav, days):
    o, _, _ = run_lines(model, ["CUT\t1700000000\t%d" % days], args=[behav_bits(behav)])
    f = o[0].split(" ")[1:]
    # the retention arithmetic is repaired together with parse_duration (D17)
    return {"D": f[2] if behav["dur_checked"] else f[0], "R": f[2] if behav["dur_checked"] else f[1]}


def run_stats_flags(argvs, sgcli, sgcli_rel):
    def one(argv):
        out = {}
        with Sandbox(prefix="sgv-gate-s-") as sb:
            sb.write(".sloc-guard.toml", "version = \"2\"\n")
            sb.write("src/a.rs", SRC)
            for prof, exe in (("D", sgcli), ("R", sgcli_rel)):
                rc, so, se = sb.run(exe, ["--color", "never"] + argv, env={"RAYON_NUM_THREADS": "2"}, timeout=30)
                out[prof] = (rc, (se + "\n" + so)[-1200:])
        return out
    with cf.ThreadPoolExecutor(max_workers=16) as ex:
        return list(ex.map(one, argvs))


def xcheck(ctx, cases, behav, k):
    """Evaluate a sub-sample inside Coq (vm_compute) and compare with the extracted driver."""
    cand = [c for c in cases if c["h"] and c["h"]["parse"] and c["h"]["clap_ok"] and len(c["h"]["CFG"]) < 900]
    ctx.rng.shuffle(cand)
    pick = cand[:k]
    bh = "{| b_rule_wt := %s; b_expires := %s; b_revalidate_cli := %s; b_validate_builds := %s; b_dur_checked := %s; b_count_exclude := %s; b_strict_dates := %s |}" % \
         tuple(cb(behav[x]) for x in BEHAV_KEYS)
    exprs = []
    for c in pick:
        cfg = wire_to_coq(parse_wire(c["h"]["CFG"]))
        fl = flags_to_coq(parse_flags_wire(c["h"]["FLAGS"]))
        exprs.append("let bh := %s in let c := %s in let f := %s in "
                     "[code_of (gate_check bh Debug (DocConfig c) f); code_of (gate_check bh Release (DocConfig c) f); "
                     "code_of (gate_validate_cmd bh Debug (DocConfig c)); code_of (gate_show bh Release (DocConfig c)); "
                     "(if in_domain (apply_cli_overrides c f) then 1 else 0)]" % (bh, cfg, fl))
    pre = ("From Coq Require Import NArith ZArith List.\nFrom SG Require Import Gate.Validate.\n"
           "Definition code_of (o : outcome) : N := match o with Accept _ => 0 | Reject _ i j => 2 + 1000 * i + 100000 * j | Crash => 101 end.")
    res = coq_eval(pre, exprs)
    bad = 0
    for c, r in zip(pick, res):
        nums = [int(x) for x in re.findall(r"\d+", r)]

        def code(o):
            t, k_, i, j = split_out(o)
            return 0 if t == "A" else 101 if t == "C" else 2 + 1000 * i + 100000 * j
        m = c["m"]
        exp = [code(m["D"]["check"]), code(m["R"]["check"]), code(m["D"]["validate"]), code(m["R"]["show"]), 1 if m["lib"]["dom"] == "1" else 0]
        if nums != exp:
            bad += 1
    ctx.cov["extraction_crosscheck"] = {"cases": len(pick), "disagreements": bad}
    if bad or len(res) != len(pick):
        raise CheckBroken("extracted OCaml and vm_compute disagree on %d/%d cases" % (bad, len(pick)))


def replay(ctx, path):
    j = json.load(open(path))
    bins, sgcli_rel, model, presets, templates, probes, behav, items = prepare(ctx)
    if "toml" not in j and "first_mismatch" in j:
        j = dict(j["first_mismatch"])
    if j.get("dirs"):
        for g, res in init_detect_cases(bins["sgcli"], sgcli_rel, True, groups=[j["dirs"]]):
            for prof in ("D", "R"):
                r = res[prof]
                print("init --detect %s dirs=%r: init=%d validate=%d check=%d patterns=%r expected=%r %s" %
                      (prof, g, r["init"], r["validate"], r["check"], r["patterns"], sorted(expected_detect_pattern(n) for n in g), r["parse_error"] or ""))
                print(r["diag"].strip()[:300])
        return 0
    if j.get("files"):
        c = {"files": j["files"], "flat": j.get("toml", ""), "toml": j.get("toml", ""), "argv": [], "tag": "replay"}
        evaluate(bins, model, behav, [c])
        print("files  :", json.dumps(j["files"], indent=1))
        print("model on the flattened document:", c["m"])
        r = run_inherit_cases([c], bins["sgcli"], sgcli_rel)[0]
        for prof in ("D", "R"):
            for cmd, (rc, text) in r[prof].items():
                print("cli %s %-8s exit=%d  %s" % (prof, cmd, rc, text.strip().splitlines()[0] if text.strip() else ""))
        return 0
    c = {"toml": j.get("toml", ""), "argv": j.get("argv", []), "tag": "replay"}
    evaluate(bins, model, behav, [c])
    print("document:\n" + c["toml"])
    print("argv   :", c["argv"])
    print("library:", {k: c["h"].get(k) for k in ("parse", "sem", "ctx", "clap_ok")} if c["h"] else None)
    print("model  :", c["m"])
    if c["argv"] and c["argv"][0] == "stats":
        r = run_stats_flags([c["argv"]], bins["sgcli"], sgcli_rel)[0]
        print("cli    :", r)
    else:
        r = cli_case(bins["sgcli"], sgcli_rel, c)
        for prof in ("D", "R"):
            for cmd, (rc, text) in r[prof].items():
                print("cli %s %-8s exit=%d  %s" % (prof, cmd, rc, text.strip().splitlines()[0] if text.strip() else ""))
    return 0
