"""C12 -- the SLOC cache is transparent."""
import concurrent.futures as cf
import json
import random
from gen_cache import *  # noqa

PROP_FILES = ["Cache/Properties_C12.v"]
MANIFEST = dict(
    technique="Coq proof (reachable-state invariant over operation histories) on a Gallina model of cache/mod.rs + process_file_with_cache / load_cache / save_cache; tied by replaying generated histories on the real CLI with every invocation paired with its --no-sloc-cache twin and by comparing outputs and cache.json with the extracted model",
    text="Theorems C12_transparent_modulo_known (every Run of every history with a non-decreasing clock and no same-(mtime,size) rename collision gives out_cached = out_uncached), C12_refuted_rename_same_meta (witness), C12_no_racy_write (the D13 window is closed by the racy-clean rule), C12_corrupt_is_ignored, C12_config_hash_sufficient and the reachable-state invariant C12_cache_invariant hold for every history (unbounded) and every counter oracle. The tie to the Rust code is a seeded CLI replay: writes with os.utime, clock with SGV_NOW, same-size and same-second rewrites, deletes, renames, [languages] changes, cache corruption (truncation sweep, foreign version, wrong hash, garbage, empty, removed).",
    note="Trusted: Coq kernel, extraction, the counter (its answers enter as the oracle `truth`, computed with sgv-counter), injectivity of compute_config_hash on [languages] tables (a hypothesis of the theorems; C12_refuted_colliding_hash shows it is needed; the run checks that different tables observed have different hashes and that boundary-moving edits of a definition invalidate the cache), SGV_NOW and os.utime. Two custom languages claiming one extension: the model table is first-match, the replay lists the definitions in descending name order (registration is in name order and the last one wins), tied by the extension-tie histories (a rename that flips the owner). The structure scan is outside the Coq model: that the tool's state directories (.sloc-guard at any depth, .git/sloc-guard) are no project entries is checked on the implementation only, by two-universe histories (the whole history with the cache on vs with --no-sloc-cache everywhere, in two project copies).",
    ref="5 (C12)")

K_D13 = "K12_same_second_same_size"
K_RENAME = "K12_rename_same_meta"
K_FORGE = "K12_wellformed_edit"


def prepare(ctx):
    bins = cargo_build(["sgcli", "sgv-counter"])
    ok, log = coq_make(["Cache/Model.vo", "Extract/ExtractCache.vo"])
    if not ok:
        raise CheckBroken("coq model build failed:\n" + log[-3000:])
    model = ocaml_build("cache_drv", ["cache_ex"])
    return bins, model


def parse_model(line):
    body, flags = line.rsplit(" ## ", 1)
    fl = dict(x.split("=") for x in flags.split(" "))
    segs = []
    if body.strip():
        for s in body.split(" | "):
            a, b, c = s.split(" || ")
            segs.append((a.strip(), b.strip(), c.strip()))
    return segs, {k: v == "1" for k, v in fl.items()}


def check_history(case, runs, mline, hash_by_cfg):
    """-> (oracle_failures, model_mismatches, flags). Each failure is a dict."""
    segs, flags = parse_model(mline)
    h = case["h"]
    fails, mism = [], []
    if len(segs) != len(runs):
        return fails, [{"what": "number of runs differs", "model": len(segs), "impl": len(runs)}], flags
    for i, (r, (mc, mu, mcache)) in enumerate(zip(runs, segs)):
        ca, un = r["cached"], r["uncached"]
        # ---- property oracle on the implementation: same output, same exit code, never fatal
        if ca[0] != un[0] or ca[1] != un[1]:
            fails.append({"run": i, "kind": r["kind"], "t": r["t"], "model_predicts": mc != mu, "cached_rc": ca[0], "uncached_rc": un[0],
                          "cached_out": ca[1][:1500], "uncached_out": un[1][:1500], "cached_err": ca[2][-300:]})
        elif ca[0] not in (0, 1):
            fails.append({"run": i, "kind": r["kind"], "fatal_rc": ca[0], "stderr": ca[2][-400:]})
        # ---- model vs implementation
        def rooted(po):
            # a run started in a sub-directory spells paths relative to it
            if po and po[0] == "files" and r.get("subdir"):
                return ("files", {"./" + r["subdir"] + k[1:]: v for k, v in po[1].items()})
            return po
        pu = rooted(parse_out(r["kind"], un[1]))
        if pu != model_out(r["kind"], mu):
            mism.append({"run": i, "side": "uncached", "impl": str(pu)[:600], "model": str(model_out(r["kind"], mu))[:600]})
        pc = rooted(parse_out(r["kind"], ca[1]))
        if pc != model_out(r["kind"], mc):
            mism.append({"run": i, "side": "cached", "impl": str(pc)[:600], "model": str(model_out(r["kind"], mc))[:600]})
        mv = mcache.split(" ")
        model_view = mv[0] + " " + mv[2] if len(mv) == 3 else mcache
        if r["cache"] != model_view:
            mism.append({"run": i, "side": "cache.json", "impl": r["cache"][:800], "model": model_view[:800]})
        # ---- the assumption on the configuration hash (injective on [languages] tables), tied both ways:
        # same table -> same hash, different tables observed -> different hashes
        if r["hash"] is not None:
            key = table_key(r["langs"])
            if hash_by_cfg.setdefault(("t", key), r["hash"]) != r["hash"]:
                mism.append({"run": i, "side": "config_hash", "what": "same [languages] table, different hash", "table": str(key)})
            other = hash_by_cfg.setdefault(("h", r["hash"]), key)
            if other != key:
                mism.append({"run": i, "side": "config_hash", "what": "two different [languages] tables have the same config_hash: the injectivity assumption of C12_transparent_modulo_known fails",
                             "table_a": str(other), "table_b": str(key), "hash": r["hash"]})
    return fails, mism, flags


def truncation_sweep(ctx, exe, contents, step):
    """One fixed project; cache.json truncated at every `step`-th offset between two runs."""
    base = [("W", (1, 1), 5, T0), ("W", (2, 2), 6, T0), ("W", (3, 10), 7, T0), ("W", (4, 1), 8, T0), ("W", (5, 2), 9, T0),
            ("L", [(10, 101)]), ("X", "check", [], T0 + 10)]
    with Sandbox("sgv-c12-") as sb:
        sb.write(".sloc-guard.toml", config_text([(10, 101)]))
        for o in base[:5]:
            p = sb.write(real_path(o[1]), contents[o[2] - 1])
            os.utime(p, (o[3], o[3]))
        sb.run(exe, cmd_args("check", []), env={"SGV_NOW": str(T0 + 10), "RAYON_NUM_THREADS": "2"})
        size = os.path.getsize(os.path.join(sb.proj, ".sloc-guard", "cache.json"))
    cases = []
    for off in list(range(0, size - 1, step)) + [size - 2, size - 1]:
        h = base + [("C", "g", off), ("X", ctx.rng.choice(CMDS), [], T0 + 20), ("X", "files", [], T0 + 21)]
        cases.append({"h": h, "tag": "truncation-sweep", "offset": off})
    return cases, size


def key_scenarios(exe):
    """Oracles for the cache KEY on inputs the history generator cannot spell with its path ids: (a) the same relative
    spelling ./a.rs from two working directories of one project, (b) two non-UTF-8 names with the same lossy spelling
    (such paths bypass the cache since D40), (c) src/a/b.rs next to a file literally named a\\b.rs in src (D90). Each: cached == --no-sloc-cache AND both equal the true counts (before D40
    the uncached run was wrong as well, through the in-memory cache). Returns failure dicts (input = the script)."""
    import subprocess
    fails = []
    base_env = {"RAYON_NUM_THREADS": "1"}

    def run(sb, args, cwd, now):
        e = dict(sb.env, SGV_NOW=str(now), **base_env)
        p = subprocess.run([exe.encode() if isinstance(args[0], bytes) else exe] + args, cwd=cwd, env=e, capture_output=True, timeout=60)
        return p.returncode, p.stdout.decode("utf-8", "replace")

    def summary(out):
        try:
            x = json.loads(out)["summary"]
            return (x["total_files"], x["total_lines"], x["code"], x["comment"], x["blank"])
        except Exception:
            return None
    A, B = "x=1;\nx=1;\n", "x=1;\n// c\n"          # same size; truth: (2 lines, 2 code) / (2 lines, 1 code, 1 comment)
    # (a) working directories: prime from one directory, then compare in the other
    for first in ("sub", "root"):
        with Sandbox("sgv-c12-") as sb:
            sb.write(".sloc-guard.toml", "")
            for rel, text in (("a.rs", A), ("sub/a.rs", B)):
                os.utime(sb.write(rel, text), (T0, T0))
            d1, d2 = (os.path.join(sb.proj, "sub"), sb.proj) if first == "sub" else (sb.proj, os.path.join(sb.proj, "sub"))
            run(sb, ["stats", "summary", "--format", "json"], d1, T0 + 10)
            ca = run(sb, ["stats", "summary", "--format", "json"], d2, T0 + 20)
            un = run(sb, ["stats", "summary", "--format", "json", "--no-sloc-cache"], d2, T0 + 20)
            truth = (2, 4, 3, 1, 0) if d2 == sb.proj else (1, 2, 1, 1, 0)
            if not (ca == un and summary(ca[1]) == truth):
                fails.append({"scenario": "working-directory", "first_run_from": first,
                              "steps": "a.rs = 2 code lines, sub/a.rs = 1 code + 1 comment line, same size, mtime %d; `stats summary` from %s at %d (cached); then from the other directory at %d with and without --no-sloc-cache" % (T0, first, T0 + 10, T0 + 20),
                              "cached": summary(ca[1]), "uncached": summary(un[1]), "truth": truth, "rc": (ca[0], un[0])})
    # (b) lossy spelling: prime one of the two files with --files, then scan
    for k in (0, 1):
        with Sandbox("sgv-c12-") as sb:
            sb.write(".sloc-guard.toml", "")
            os.makedirs(os.path.join(sb.proj, "src"))
            names = (b"a\xff.rs", b"a\xfe.rs")
            try:
                for nm, text in zip(names, (A.encode(), B.encode())):
                    fp = os.path.join(sb.proj.encode(), b"src", nm)
                    open(fp, "wb").write(text)
                    os.utime(fp, (T0, T0))
            except OSError:
                continue            # the file system refuses such names
            run(sb, [b"check", b"--files", b"./src/" + names[k], b"--format", b"json"], sb.proj, T0 + 10)
            ca = run(sb, ["stats", "summary", "--format", "json"], sb.proj, T0 + 20)
            un = run(sb, ["stats", "summary", "--format", "json", "--no-sloc-cache"], sb.proj, T0 + 20)
            truth = (2, 4, 3, 1, 0)
            if not (ca == un and summary(ca[1]) == truth):
                fails.append({"scenario": "non-utf8-names", "primed": repr(names[k]),
                              "steps": "src/a\\xff.rs = 2 code lines, src/a\\xfe.rs = 1 code + 1 comment line, same size, mtime %d; `check --files ./src/%r` at %d (cached); `stats summary` at %d with and without --no-sloc-cache, RAYON_NUM_THREADS=1" % (T0, names[k], T0 + 10, T0 + 20),
                              "cached": summary(ca[1]), "uncached": summary(un[1]), "truth": truth, "rc": (ca[0], un[0])})
    # (c) a backslash is an ordinary file-name character outside Windows: src/a/b.rs and the file named a\b.rs in src
    #     are two files (the key once replaced every backslash by a slash on every platform: D90)
    for k in (0, 1, 2):
        with Sandbox("sgv-c12-") as sb:
            sb.write(".sloc-guard.toml", "")
            names = ("src/a/b.rs", "src/a\\b.rs")
            try:
                for nm, text in zip(names, (A, B)):
                    os.utime(sb.write(nm, text), (T0, T0))
            except OSError:
                continue
            if k < 2:
                run(sb, ["check", "--files", "./" + names[k], "--format", "json"], sb.proj, T0 + 10)
            else:
                run(sb, ["stats", "summary", "--format", "json"], sb.proj, T0 + 10)
            ca = run(sb, ["stats", "summary", "--format", "json"], sb.proj, T0 + 20)
            un = run(sb, ["stats", "summary", "--format", "json", "--no-sloc-cache"], sb.proj, T0 + 20)
            truth = (2, 4, 3, 1, 0)
            if not (ca == un and summary(ca[1]) == truth):
                fails.append({"scenario": "backslash-in-name", "primed": names[k] if k < 2 else "full scan",
                              "steps": "src/a/b.rs = 2 code lines, the file literally named `a\\b.rs` inside src = 1 code + 1 comment line, same size, mtime %d; %s at %d (cached); `stats summary` at %d with and without --no-sloc-cache, RAYON_NUM_THREADS=1" % (
                                  T0, ("`check --files ./%s`" % names[k]) if k < 2 else "`stats summary`", T0 + 10, T0 + 20),
                              "cached": summary(ca[1]), "uncached": summary(un[1]), "truth": truth, "rc": (ca[0], un[0])})
    return fails


def universe_failures(exe, ucases):
    """Two-universe oracle: the history with the cache on in one project copy, the same history with --no-sloc-cache on
    every invocation in another; every invocation must give the same output and exit code in both."""
    out = []
    with cf.ThreadPoolExecutor(max_workers=12) as ex:
        results = list(ex.map(lambda c: replay_universes(exe, c), ucases))
    nruns = 0
    for c, (runs, left) in zip(ucases, results):
        nruns += len(runs)
        bad = [{"run": i, "step": r["step"], "cached_rc": r["cached"][0], "uncached_rc": r["uncached"][0],
                "cached_out": r["cached"][1][:1200], "uncached_out": r["uncached"][1][:1200], "cached_err": r["cached"][2][-300:]}
               for i, r in enumerate(runs) if r["cached"][:2] != r["uncached"][:2] or r["cached"][0] not in (0, 1)]
        if bad:
            out.append((c, bad, left))
    return out, nruns


def run(ctx):
    bins, model = prepare(ctx)
    proofs_ok = proofs_step(ctx, PROP_FILES)
    quick = ctx.tier == "quick"
    rng = ctx.rng
    contents = make_contents(rng)
    tab = truth_table(bins["sgv-counter"], contents)
    cwire = contents_wire(contents, tab)
    exe = bins["sgcli"]
    cases = []
    cp = os.path.join(CORPUS, "cache.jsonl")
    corpus_contents = None
    if os.path.exists(cp):
        for line in open(cp):
            j = json.loads(line)
            cases.append({"h": norm_history(j["h"]), "tag": "corpus", "contents": j["contents"], "name": j.get("name")})
    n_dir, n_rand = (50, 70) if quick else (1500, 2500)
    n_bnd = 36 if quick else 600
    for _ in range(n_bnd):
        cases.append({"h": boundary_history(rng, contents, tab), "tag": "languages-boundary"})
    groups = same_size_pairs(contents)
    for _ in range(24 if quick else 400):
        cases.append({"h": symlink_history(rng, contents, tab, groups), "tag": "symlink"})
    for _ in range(20 if quick else 300):
        cases.append({"h": cwd_history(rng, contents, tab, groups), "tag": "working-directory"})
    for _ in range(24 if quick else 400):
        cases.append({"h": xlang_history(rng, contents, tab), "tag": "rename-across-languages"})
    for _ in range(24 if quick else 400):
        cases.append({"h": zero_history(rng, contents, tab), "tag": "empty-and-ignored"})
    for _ in range(30 if quick else 400):
        cases.append({"h": tie_history(rng, contents, tab), "tag": "extension-tie"})
    for _ in range(20 if quick else 300):
        cases.append({"h": touch_history(rng, contents, tab, groups), "tag": "touch-in-run-second"})
    for _ in range(16 if quick else 300):
        p0, a0, t0 = (rng.choice(FILE_STEMS), rng.choice([1, 2, 3])), rng.randint(1, len(contents)), T0 + rng.randrange(0, 1000)
        cases.append({"h": [("W", p0, a0, t0), ("X", rng.choice(CMDS), [], t0 + 2),
                            ("C", "x", FOREIGN_VERSIONS[len(cases) % len(FOREIGN_VERSIONS)], p0, (50, 40, 5, 5, 0), len(cases) // 2 % 2),
                            ("X", rng.choice(["check", "files", "summary"]), [], t0 + 3), ("X", rng.choice(CMDS), [], t0 + 4)], "tag": "foreign-version"})
    for _ in range(n_dir):
        cases.append({"h": directed_history(rng, contents, tab), "tag": "directed"})
    for _ in range(n_rand):
        cases.append({"h": rand_history(rng, len(contents)), "tag": "random"})
    sweep, csize = truncation_sweep(ctx, exe, contents, 64 if quick else 8)
    cases += sweep
    for i, c in enumerate(cases):
        c["seed"] = rng.randrange(1 << 30)
        if "contents" in c:
            c["ctexts"] = c["contents"]
            c["cwire"] = contents_wire(c["ctexts"], truth_table(bins["sgv-counter"], c["ctexts"]))
        else:
            c["ctexts"], c["cwire"] = contents, cwire

    def go(c):
        return replay_history(exe, c["ctexts"], c["h"], random.Random(c["seed"]))
    with cf.ThreadPoolExecutor(max_workers=12) as ex:
        all_runs = list(ex.map(go, cases))
    mlines, rc, err = run_lines(model, [c["cwire"] + "\t" + ops_wire(c["h"]) for c in cases])
    if len(mlines) != len(cases) or any(m.startswith(("MODELFAIL", "BADLINE")) for m in mlines):
        raise CheckBroken("cache model driver failed: %s %s" % (err, [m for m in mlines if m.startswith(("MODELFAIL", "BADLINE"))][:1]))
    hash_by_cfg = {}
    n_runs = 0
    all_fails, all_mism = [], []
    dist, nontrivial = {}, 0
    known_hits = []
    for c, runs, ml in zip(cases, all_runs, mlines):
        fails, mism, flags = check_history(c, runs, ml, hash_by_cfg)
        n_runs += len(runs)
        dist[c["tag"]] = dist.get(c["tag"], 0) + 1
        for o in c["h"]:
            dist["op:" + o[0]] = dist.get("op:" + o[0], 0) + 1
        seen_run, rewrites = False, False
        for o in c["h"]:
            if o[0] in ("X", "XF", "XC"):
                seen_run = True
            elif o[0] in ("W", "R", "D", "L", "C", "K", "CP") and seen_run:
                rewrites = True
        nontrivial += 1 if rewrites else 0
        for k in ("RW", "RR", "FORGE"):
            if flags.get(k):
                dist["model-flag:" + k] = dist.get("model-flag:" + k, 0) + 1
        if not flags.get("MONO", True):
            continue        # outside the property's quantifier (clock went backwards)
        if fails:
            klass = K_D13 if flags.get("RW") else (K_RENAME if flags.get("RR") else (K_FORGE if flags.get("FORGE") else None))
            if not all(f.get("model_predicts") for f in fails):
                klass = None        # a difference the faithful model does not predict is not the known defect
            all_fails.append((c, fails, klass))
        if mism:
            all_mism.append((c, mism))
        if len(ctx.cov["samples"]) < 4 and runs and c["tag"] != "truncation-sweep":
            ctx.sample({"ops": ops_wire(c["h"]), "model": ml[:400], "impl_last_run": {"kind": runs[-1]["kind"], "rc": runs[-1]["cached"][0], "cache": runs[-1]["cache"][:200]}})
    ctx.cov["evaluations"] = 2 * n_runs
    ctx.cov["distinct_nontrivial"] = nontrivial
    ctx.cov["traces_validated_against_impl"] = len(cases) - len(all_mism)
    ctx.cov["model_vs_impl_mismatches"] = len(all_mism)
    ctx.cov["rule"] = ("histories of Write(os.utime) / Delete / Rename / SetLanguages (custom languages, overriding built-in extensions) / Corrupt / Run(check, stats summary, stats files, snapshot; SGV_NOW) "
                       "replayed on sgcli in a Sandbox; every Run executed twice (with and without --no-sloc-cache): evaluations = CLI invocations. Languages-boundary histories edit one definition so that only a list boundary, an empty item, the marker order, the name or the extension split changes, on a file the two definitions classify differently. Rename-across-languages histories rename or copy (cp -p) a file that has a stored entry to an extension with other comment markers, the content being one the two languages count differently. Symlink histories name a link (own mtime old; target inside or outside the scanned tree) explicitly with check --files / stats <path>, edit, delete and re-create the target or re-point the link. Foreign-version histories replace cache.json by a well-formed file of every version 0..CACHE_VERSION+2 but the current one, same hash and metadata, other statistics, `ignored` absent or present. Directed histories put a same-size rewrite in the second of a "
                       "previous run, rename a same-(mtime,size) file over a cached path, or keep the rewrite one second apart; a truncation sweep cuts cache.json at every %d-th byte (size %d). "
                       "Compared: stdout+exit code of the pair (property oracle), per-file statistics / totals and cache.json entries against the extracted Coq model. "
                       "Touch-in-run-second histories rewrite a cached file with identical bytes in second T, run in T (or T+1), edit it with the same size in that second and run again later. Two-universe histories also cover: a custom language that claims json (the tool's cache.json / history.json must not become source files of stats / snapshot; plain and git projects) and a cache that cannot be written back (cache.json replaced by a directory, a regular file named .sloc-guard) under --strict / --warnings-as-errors / [check] warnings_as_errors. Two-universe histories: nested sub-projects (own .sloc-guard.toml, 1-4 levels deep) run from inside their directory, the enclosing project run from its root with [structure] max_dirs / max_files / max_depth at the boundary, and git projects (state in .git/sloc-guard) whose scanner.exclude does not list .git/**; the whole history once with the cache on and once with --no-sloc-cache everywhere, in two project copies, compared invocation by invocation. "
                       "non-trivial = histories with at least one edit, rename, delete, configuration change or corruption between two runs" % (64 if quick else 8, csize))
    ctx.cov["input_distribution"] = dist
    ctx.cov["trusted_base"] = TRUSTED_COMMON + ["the counter's answers enter the model as the oracle `truth` (computed with sgv-counter)",
                                                "compute_config_hash is assumed injective on [languages] tables (hypothesis of the theorems); tied in the run: same table -> same hash, different tables -> different hashes",
                                                "SGV_NOW clock hook, os.utime; mtime of a rename is preserved by the file system"]
    ctx.assumptions = ["wall-clock values of a history never decrease and a file's mtime is the second of its last write",
                       "the cache key identifies the file (the model takes paths as identities): justified for UTF-8 paths by the absolute-path key (D41; runs from the root and from sub-directories share the project cache in the generated histories; a backslash stays a name character outside Windows, D90), non-UTF-8 paths bypass the cache (D40; theorem C12_unkeyed_path_independent); both also exercised by the key scenarios of the run",
                       "a symbolic link named explicitly is, as fs::metadata / fs::read see it, another name for the target's content and mtime (model op Copy; the replay mirrors every change of the target on the link path)",
                       "an extension claimed by several custom definitions belongs to the one whose name sorts last (registry registers in name order, last wins): the replay hands the model the claims in descending name order (first match)",
                       "which directory entries a scan sees (structure counts, the file list of stats / snapshot) is not in the Coq model, nor is a cache file that cannot be written; the two-universe histories compare them on the implementation (state directories must not become project entries)"]
    xcheck(ctx, cases, mlines, 12 if quick else 60)
    # ---------------- verdicts
    reported = 0
    kfails = key_scenarios(exe)
    ctx.cov["key_scenarios"] = {"run": 7, "failed": len(kfails)}
    ctx.cov["evaluations"] += 21
    for f in kfails[:3]:
        ctx.violation(dict(f, kind="property-oracle", what="cached invocation differs from its --no-sloc-cache twin or from the true counts (cache key scenario)",
                           replay_cmd="python3 tools/vp.py check C12 --replay <this file>"))
        reported += 1
    ucases = universe_fixed() + [universe_case(rng) for _ in range(36 if quick else 400)]
    ufails, uruns = universe_failures(exe, ucases)
    ctx.cov["evaluations"] += 2 * uruns
    ctx.cov["two_universe_histories"] = {"histories": len(ucases), "invocation_pairs": uruns, "failed": len(ufails),
                                         "by_tag": {t: sum(1 for c in ucases if c["tag"] == t) for t in sorted({c["tag"] for c in ucases})}}
    for c, bad, left in ufails[:3]:
        ctx.violation({"kind": "property-oracle", "what": "an invocation of the history run with the cache on differs from the same invocation of the same history run with --no-sloc-cache throughout (two project copies)",
                       "universe": c, "failures": bad[:2], "state_directories_left": left,
                       "replay_cmd": "python3 tools/vp.py check C12 --replay <this file>"})
        reported += 1
    for c, fails, klass in all_fails:
        if klass and ctx.known(klass, "cached run differs from --no-sloc-cache"):
            continue
        if reported < 4:
            ctx.violation({"kind": "property-oracle", "what": "cached invocation differs from its --no-sloc-cache twin (or is fatal)", "ops": ops_wire(c["h"]),
                           "h": c["h"], "contents": c["ctexts"], "failures": fails[:3], "model_class": klass,
                           "replay_cmd": "python3 tools/vp.py check C12 --replay <this file>"})
        reported += 1
    if not reported and all_mism:
        # model != implementation but no failing input yet: search harder around the differing histories
        # (prefixes, extra trailing runs) and on a fresh batch, with the property oracle only
        extra = []
        for c, _ in all_mism[:6]:
            h = c["h"]
            last_t = max([o[3] for o in h if o[0] in ("W", "X", "XF", "XC")] or [T0])
            for k in range(2, len(h) + 1):
                if h[k - 1][0] not in ("X", "XF", "XC"):
                    extra.append({"h": h[:k] + [("X", "files", [], max([o[3] for o in h[:k] if o[0] in ("W", "X", "XF", "XC")] or [T0]))], "tag": "search-prefix", "ctexts": c["ctexts"], "cwire": c["cwire"]})
            for kind in CMDS:
                extra.append({"h": h + [("X", kind, [], last_t), ("X", kind, [], last_t + 2)], "tag": "search-extend", "ctexts": c["ctexts"], "cwire": c["cwire"]})
        for _ in range(2 * n_dir):
            extra.append({"h": directed_history(rng, contents, tab), "tag": "search-directed", "ctexts": contents, "cwire": cwire})
        for _ in range(n_rand):
            extra.append({"h": rand_history(rng, len(contents)), "tag": "search-random", "ctexts": contents, "cwire": cwire})
        for c in extra:
            c["seed"] = rng.randrange(1 << 30)
        with cf.ThreadPoolExecutor(max_workers=12) as ex:
            runs2 = list(ex.map(go, extra))
        ml2, _, _ = run_lines(model, [c["cwire"] + "\t" + ops_wire(c["h"]) for c in extra])
        ctx.cov["search_after_mismatch"] = {"histories": len(extra)}
        for c, runs, ml in zip(extra, runs2, ml2):
            if ml.startswith(("MODELFAIL", "BADLINE")):
                continue
            fails, _, flags = check_history(c, runs, ml, {})
            if fails and flags.get("MONO", True):
                klass = K_RENAME if flags.get("RR") else (K_FORGE if flags.get("FORGE") else None)
                if klass and all(f.get("model_predicts") for f in fails):
                    continue
                if reported < 3:
                    ctx.violation({"kind": "property-oracle", "what": "cached invocation differs from its --no-sloc-cache twin (found while searching after a model/implementation mismatch)",
                                   "ops": ops_wire(c["h"]), "h": c["h"], "contents": c["ctexts"], "failures": fails[:3],
                                   "replay_cmd": "python3 tools/vp.py check C12 --replay <this file>"})
                reported += 1
    if not reported:
        if all_mism:
            c, mism = all_mism[0]
            ctx.violation({"kind": "correspondence-broken", "relation": "sgcli outputs / cache.json == extracted Cache.Model (exec)",
                           "first_mismatch": mism[0], "ops": ops_wire(c["h"]), "h": c["h"], "contents": c["ctexts"], "mismatching_histories": len(all_mism),
                           "note": "the model no longer describes the code, so theorems C12_* no longer transfer; no history violating C12 itself was found among %d" % len(cases)},
                          no_input=True)
        elif not proofs_ok:
            ctx.violation({"kind": "proof-broken", "details": ctx.proof_broken}, no_input=True)


def coq_history(c):
    """The model-level history (ops_wire) as a Gallina term."""
    def cp(p):
        a, b = p.split(".")
        return "(%s,%s)" % (a, b)
    ops = []
    for w in ops_wire(c["h"]).split(","):
        f = w.split(":")
        if f[0] == "W":
            ops.append("Write %s %s %s" % (cp(f[1]), f[2], f[3]))
        elif f[0] == "D":
            ops.append("Delete %s" % cp(f[1]))
        elif f[0] == "R":
            ops.append("Rename %s %s" % (cp(f[1]), cp(f[2])))
        elif f[0] == "P":
            ops.append("Copy %s %s" % (cp(f[1]), cp(f[2])))
        elif f[0] == "L":
            ops.append("SetLanguages [%s]" % ";".join("(%s,%s)" % tuple(x.split("=")) for x in f[1].split("/") if x))
        elif f[0] == "C":
            if f[1] == "f":
                k = "(KForge %s (mkS %s))" % (cp(f[2]), " ".join(f[3].split(".")))
            elif f[1].startswith("x"):
                k = "(KForeign %s %s (mkS %s))" % (f[1][1:], cp(f[2]), " ".join(f[3].split(".")))
            else:
                k = {"g": "KGarbage", "h": "KBadHash", "r": "KRemove"}.get(f[1]) or "(KVersion %s)" % f[1][1:]
            ops.append("Corrupt %s" % k)
        elif f[0] == "X":
            k = {"check": "Check", "summary": "StatsSummary", "files": "StatsFiles", "snapshot": "Snapshot"}[f[1]]
            ops.append("Run %s [%s] %s" % (k, ";".join(cp(p) for p in f[2].split("/") if p != "-"), f[3]))
    return "[" + "; ".join(ops) + "]"


def xcheck(ctx, cases, mlines, k):
    """vm_compute of the transparency / classifier booleans inside Coq vs the extracted driver."""
    idx = [i for i, c in enumerate(cases) if len(c["h"]) <= 12 and c["tag"] != "corpus"]
    ctx.rng.shuffle(idx)
    idx = idx[:k]
    if not idx:
        return
    c0 = cases[idx[0]]
    # oracles as Gallina functions from the truth table of the shared content pool
    tl, sl = [], []
    for item in c0["cwire"].split(";"):
        cid, size, ts = item.split(":")
        sl.append("| %s => %s" % (cid, size))
        for t in ts.split("/"):
            l, s = t.split("=")
            v = "None" if s == "I" else "Some (mkS %s)" % " ".join(s.split("."))
            tl.append("| %s, %s => %s" % (l, cid, v))
    defs = ("From Coq Require Import NArith List Bool.\nFrom SG Require Import Cache.Model.\nOpen Scope N_scope.\n"
            "Definition tr (l c : N) : option lstats := match l, c with\n%s\n| _, _ => None end.\n"
            "Definition cs (c : N) : N := match c with\n%s\n| _ => 0 end.\n"
            "Definition ch (c : langs) : N := fold_right (fun x a => 1 + fst x + 64 * (snd x + 1024 * a)) 0 c.\n" % ("\n".join(tl), "\n".join(sl)))
    b = "(fun b : bool => if b then 1 else 0)"
    exprs = []
    for i in idx:
        hh = "(" + coq_history(cases[i]) + ")"
        exprs.append("[%s (has_racy_write tr cs ch (fun _ => true) %s); %s (has_racy_rename tr cs ch (fun _ => true) %s); %s (has_forgery tr cs ch (fun _ => true) %s); %s (monotone_clock %s); %s (transparent tr cs ch (fun _ => true) %s)]" % (b, hh, b, hh, b, hh, b, hh, b, hh))
    res = coq_eval(defs, exprs)
    bad = 0
    for i, r in zip(idx, res):
        _, fl = parse_model(mlines[i])
        exp = [int(fl["RW"]), int(fl["RR"]), int(fl["FORGE"]), int(fl["MONO"]), int(fl["TRANSP"])]
        if [int(x) for x in re.findall(r"\d+", r)] != exp:
            bad += 1
    ctx.cov["extraction_crosscheck"] = {"cases": len(idx), "disagreements": bad}
    if bad or len(res) != len(idx):
        raise CheckBroken("extracted OCaml and vm_compute disagree on %d/%d cache histories" % (bad, len(idx)))


def replay(ctx, path):
    j = json.load(open(path))
    bins, model = prepare(ctx)
    if "universe" in j:
        fails, n = universe_failures(bins["sgcli"], [j["universe"]])
        print("steps:", json.dumps(j["universe"]["steps"]))
        for c, bad, left in fails:
            for b in bad:
                print("run %d %s DIFFERENT rc cached=%d uncached=%d\n  cached  : %s\n  uncached: %s" % (
                    b["run"], b["step"], b["cached_rc"], b["uncached_rc"], b["cached_out"][:600].replace("\n", " "), b["uncached_out"][:600].replace("\n", " ")))
            print("state directories left:", left)
        print("%d invocation pairs, %d histories differ" % (n, len(fails)))
        return 0
    if "scenario" in j:
        for f in key_scenarios(bins["sgcli"]):
            print("FAIL", json.dumps(f, default=str))
        print("key scenarios re-run")
        return 0
    h = norm_history(j["h"])
    contents = j["contents"]
    tab = truth_table(bins["sgv-counter"], contents)
    runs = replay_history(bins["sgcli"], contents, h, random.Random(1))
    ml, _, _ = run_lines(model, [contents_wire(contents, tab) + "\t" + ops_wire(h)])
    print("ops  :", ops_wire(h))
    print("model:", ml[0] if ml else None)
    for i, r in enumerate(runs):
        same = r["cached"][:2] == r["uncached"][:2]
        print("run %d %-8s t=%d rc cached=%d uncached=%d %s" % (i, r["kind"], r["t"], r["cached"][0], r["uncached"][0], "SAME" if same else "DIFFERENT"))
        if not same:
            print("  cached  :", r["cached"][1][:600].replace("\n", " "))
            print("  uncached:", r["uncached"][1][:600].replace("\n", " "))
    return 0
