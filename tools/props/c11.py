"""C11 -- fail-fast and parallelism never change the verdict."""
import json
from check_tail import *  # noqa

PROP_FILES = ["Check/Properties_C11.v"]
MANIFEST = dict(
    technique="Coq proof over the relation ff_sub (every result list a fail-fast execution of the parallel loop can return, for any number of workers "
              "and any interleaving) composed with the baseline comparison and determine_exit_code; tied by trace validation of real runs: every sequential "
              "schedule exhaustively for small file sets, 1..16 rayon threads with random orders and repetitions for larger ones",
    text="Theorems C11_exit_invariant_no_baseline, C11_exit_invariant, C11_never_passes_failing_run, C11_exit_invariant_run_loop, C11_update_run_same_outcome (a run that updates the "
         "baseline is not cut short), C11_no_ff_results_identical, C11_known_debt_whatever_the_recorded_figures (what stops a fail-fast run depends on the keys of the baseline only: a recorded file that has grown is still known debt) (and the exit-code lemmas exit_1_iff, warn_only_forces_0) hold for all result lists, all sub-runs R' with ff_sub R R' and all flag combinations (unbounded). Every observed fail-fast "
         "result list of the real CLI is checked to satisfy ff_sub against the full run and its exit status to equal the model's; without fail-fast the JSON "
         "output is byte-identical across thread counts.",
    note="Not shown by proof: that rayon's scheduler and the Relaxed atomics only produce executions inside ff_sub (argued in Check/FailFast.v, validated on "
         "observed traces); order-preserving collect is rayon's contract. Trusted: Coq kernel, extraction, python trace collector.",
    ref="5 (C11)")


def small_cases(ctx):
    """(sizes, baseline subset, ff_cfg, wae, wo) for the exhaustive-permutation part"""
    rng = ctx.rng
    k = 4 if ctx.tier == "quick" else 5
    pl = placements(k, rng, 14 if ctx.tier == "quick" else 40)
    # always include the D12 shape: a grandfathered failure before an unrecorded one
    pl = [("oo" + "u" * (k - 2), [0]), ("ow" + "o" * (k - 2), [0, 2]), ("wo" + "u" * (k - 2), None)] + pl
    # an entry that cannot be read (I/O error: no result, never a trigger) in every position of every order,
    # next to unrecorded, grandfathered and passing files
    # byte-identical files in two languages (comment lines decide the verdict) in every order; both orders of the
    # twin pair matter: whichever is counted first must not lend its counts to the other
    pl = [("yr" + "u" * (k - 2), None), ("ryo" + "u" * (k - 3), [0]), ("yrw" + "y" * (k - 3), None)] + pl
    pl = [("eo" + "u" * (k - 2), None), ("eoo" + "u" * (k - 3), [1]), ("ewo" + "e" * (k - 3), None), ("eo" + "w" * (k - 2), [1])] + pl
    # recorded files whose size differs from the recorded one (g: grown since the baseline was written, k: shrunk) in front
    # of / behind an unrecorded violator: recorded is recorded, neither may stop a fail-fast run
    pl = [("go" + "u" * (k - 2), [0]), ("gok" + "u" * (k - 3), [0, 2]), ("gg" + "o" * (k - 2), [0, 1]), ("kwo" + "g" * (k - 3), [0])] + pl
    # a renamed / copied recorded file (m): the entry of the path that is gone carries this file's hash; the file is unrecorded,
    # so it stops a fail-fast run like any new violation and is reported failed; in front of and behind other violators
    pl = [("mo" + "u" * (k - 2), []), ("mou" + "o" * (k - 3), [1]), ("um" + "w" * (k - 2), None), ("mg" + "o" * (k - 2), [1])] + pl
    # one file named twice: by its own name and through a symlink that falls under a laxer content rule (l), every order
    pl = [("ol" + "u" * (k - 2), None), ("olo" + "u" * (k - 3), [2]), ("lgo" + "l" * (k - 3), [1]), ("wl" + "o" * (k - 2), None)] + pl
    out = []
    for i, (sizes, bl) in enumerate(pl):
        out.append((sizes, bl, i % 2 == 1, i % 5 == 2, i % 11 == 7))
    return k, out


def run(ctx):
    bins, model = prepare_check(ctx)
    exe = bins["sgcli"]
    proofs_ok = proofs_step(ctx, PROP_FILES)
    lib = lib_phase(ctx, bins, model, 6000 if ctx.tier == "quick" else 40000, only=("exit", "apply"))
    rng = ctx.rng
    k, small = small_cases(ctx)
    perms = list(itertools.permutations(range(k)))
    jobs = []
    for (sizes, bl, ff_cfg, wae, wo) in small:
        jobs.append(("perm", sizes, bl, perms, [1], 1, ff_cfg, wae, wo, False))
    # baseline entries of files that were deleted, under --ratchet strict / auto / warn: the scan sees them gone, so they are
    # stale with and without fail-fast (strict: exit 1 in both) whether or not a failure stops the loop early; with --files
    # nothing was scanned and they are left alone in both
    nst = 12 if ctx.tier == "quick" else 40
    for i in range(nst):
        n = rng.choice([3, 4, 6, 10])
        # mostly no failure to stop at: every over-long file is grandfathered
        sizes = "".join(rng.choice("uuwo") for _ in range(n))
        fails = [j for j, c in enumerate(sizes) if c == "o"]
        bl = list(fails) if i % 3 else [j for j in fails if rng.random() < 0.5]
        mode = "ssaw"[i % 4]
        full = i % 4 != 3
        order = list(range(n))
        rng.shuffle(order)
        jobs.append(("stale", sizes, bl, [None] if full else [order], [1, 4] if ctx.tier == "quick" else [1, 2, 4, 16], 1, i % 2 == 1, False, False, full, mode, rng.choice([1, 2])))
    # the default baseline file lies in the project, a ratchet mode is set by flag or by [baseline] ratchet (upper case), but
    # --baseline is NOT given: nothing is loaded, so nothing is grandfathered - with and without fail-fast - and the file stays
    nnob = 8 if ctx.tier == "quick" else 24
    for i in range(nnob):
        n = rng.choice([3, 4, 6])
        sizes = "o" + "".join(rng.choice("uwo") for _ in range(n - 1))
        fails = [j for j, c in enumerate(sizes) if c == "o"]
        bl = [0] + [j for j in fails[1:] if rng.random() < 0.5]
        mode = ["w", "s", "a", "W", "S", "A"][i % 6]
        full = i % 3 == 2
        orders = [None] if full else [list(range(n)), rng.sample(range(n), n)]
        jobs.append(("nobaseline", sizes, bl, orders, [1, 4], 1, i % 2 == 1, False, False, full, mode, 0, None, True))
    # runs that update the baseline: fail-fast must not change what is written (an updating run evaluates everything);
    # new failures in front of files the loaded baseline grandfathers, every mode, with and without the old file loaded
    nup = 8 if ctx.tier == "quick" else 32
    for i in range(nup):
        n = rng.choice([4, 6, 10])
        sizes = "".join(rng.choice("uwoo") for _ in range(n))
        fails = [j for j, c in enumerate(sizes) if c == "o"]
        bl = None if i % 4 == 3 else [j for j in fails if rng.random() < 0.6]
        jobs.append(("update", sizes, bl, [None], [1, 4] if ctx.tier == "quick" else [1, 2, 4, 16], 1, i % 2 == 1, False, False, True, None, 0, "acsn"[i % 4]))
    nbig = 10 if ctx.tier == "quick" else 40
    threads_all = [1, 2, 3, 4, 8, 16] if ctx.tier == "quick" else list(range(1, 17))
    reps = 2 if ctx.tier == "quick" else 3
    for i in range(nbig):
        n = rng.choice([8, 12, 20, 40]) if ctx.tier == "quick" else rng.choice([8, 20, 40, 60])
        sizes = "".join(rng.choice("uuuwwoeyrglm" if i % 3 else "uwooeyrggklm") for _ in range(n))
        fails = [j for j, c in enumerate(sizes) if c in "orgk"]
        bl = None if i % 4 == 3 else [j for j in fails if rng.random() < 0.5]
        orders = []
        for _ in range(2 if ctx.tier == "quick" else 3):
            o = list(range(n))
            rng.shuffle(o)
            orders.append(o[:rng.randint(max(2, n // 2), n)])
        jobs.append(("rand", sizes, bl, orders, threads_all, reps, i % 2 == 0, i % 5 == 1, False, False))
        # directory scans: some over-long files also break the naming rule of src; the content entry of the
        # baseline grandfathers both of their violations (the scan-time violation must not stop a fail-fast run)
        ssizes = sizes.replace("e", "u").replace("l", "u")     # (a scan does not follow a symlink to a file)
        if i % 2 == 0:
            ssizes = "".join(("N" if (c == "o" and (bl is None or j in bl or rng.random() < 0.3)) else c) for j, c in enumerate(ssizes))
        jobs.append(("scan", ssizes, bl, [None], threads_all[:4] if ctx.tier == "quick" else threads_all, reps, i % 2 == 1, False, False, True))
    traces, spawns = [], 0

    def do(j):
        return trace_case(exe, *j[1:])
    with cf.ThreadPoolExecutor(max_workers=16) as ex:
        for j, (tr, sp) in zip(jobs, ex.map(do, jobs)):
            for t in tr:
                t["part"] = j[0]
            traces += tr
            spawns += sp
    validate_traces(model, traces)
    # without fail-fast: byte-identical JSON across thread counts
    ident_runs, ident_bad = 0, []
    for i in range(4 if ctx.tier == "quick" else 16):
        n = rng.choice([10, 30, 60])
        sizes = "".join(rng.choice("uwoogl") for _ in range(n))
        pj = BigProject(exe, sizes, [j for j, c in enumerate(sizes) if c in "og" and rng.random() < 0.5])
        try:
            order = list(range(n))
            rng.shuffle(order)
            # (the list names over-long files twice: by their own name and through symlinks under a laxer rule)
            for files in (None, [pj.paths[x] for x in order]):
                outs = []
                for th in (1, 2, 4, 8, 16):
                    rc, obs, raw = pj.run(False, files, th)
                    outs.append((rc, raw))
                    ident_runs += 1
                if len(set(outs)) != 1:
                    ident_bad.append({"sizes": sizes, "files": files})
            spawns += pj.spawns
        finally:
            pj.close()
    # ---- verdicts on traces
    tie_bad, findings = [], []
    dist = {}
    nontrivial = set()
    for t in traces:
        dist[t["part"]] = dist.get(t["part"], 0) + 1
        slimt = {k2: t[k2] for k2 in ("sizes", "baseline", "order", "threads", "ff_cfg", "wae", "wo", "full_scan", "exit", "exit_noff", "ratchet", "ghosts", "update", "nob")}
        slimt["observed"] = [r["path"] + ":" + r["status"] for r in t["obs"]]
        if not t["ffsub"]:
            tie_bad.append({"what": "observed result list is not ff_sub of the full run", "trace": slimt})
        rfiles = [r for r in t["R"] if r["kind"] in ("n", "c")]
        rstruct = [r for r in t["R"] if r["kind"] not in ("n", "c")]
        if t["threads"] == 1 and [rkey(r) for r in t["Rp"]] != [rkey(r) for r in rfiles[:t["seq_len"]] + rstruct]:
            tie_bad.append({"what": "one worker: result list is not the sequential prefix ff_seq", "trace": slimt})
        if t["exit"] != t["model_exit"]:
            tie_bad.append({"what": "exit %d, model exit for the observed R' is %d" % (t["exit"], t["model_exit"]), "trace": slimt})
        if not t["eval_ok"]:
            findings.append({"prop": "C11", "class": None, "trace": slimt,
                             "what": "results of the run without fail-fast differ from the independent evaluation of the listed files (order %s): %s" % (t["order"], t["eval_diff"])})
        # the run without fail-fast against the independent verdict: statuses by path and exit from the evaluation of each file
        # and the KEYS of the loaded baseline (an entry grandfathers the file at its path and no other; no --baseline, nothing loaded)
        sp = t["spec"]
        got0 = {r["path"]: r["status"] for r in t["obs0"] if r["kind"] in ("n", "c")}
        wrong = sorted(p for p in sp["status"] if p in got0 and got0[p] != sp["status"][p])
        if wrong:
            findings.append({"prop": "C11", "class": None, "trace": slimt,
                             "what": "verdict of the run without fail-fast: %s reported %s, the independent evaluation says %s (baseline keys %s%s)" % (
                                 wrong[0], got0[wrong[0]], sp["status"][wrong[0]], sorted(t["disk"] or {}), ", not loaded: no --baseline" if t.get("nob") else "")})
        elif not (t.get("ratchet") or t.get("update")) and t["exit_noff"] != sp["exit"]:
            findings.append({"prop": "C11", "class": None, "trace": slimt, "what": "verdict of the run without fail-fast: exit %d, the independent evaluation says %d" % (t["exit_noff"], sp["exit"])})
        for r in t["obs"]:
            if r["kind"] in ("n", "c") and r["path"] in sp["status"] and r["status"] != sp["status"][r["path"]]:
                findings.append({"prop": "C11", "class": None, "trace": slimt,
                                 "what": "verdict of the fail-fast run: %s reported %s, the independent evaluation says %s" % (r["path"], r["status"], sp["status"][r["path"]])})
                break
        if t.get("nob") and (view(t["disk1"]) or {}) != (view(t["disk"]) or {}):
            findings.append({"prop": "C11", "class": None, "trace": slimt, "what": "no --baseline given, yet the default baseline file changed: %s -> %s" % (sorted(t["disk"] or {}), sorted(t["disk1"] or {}))})
        if t["exit"] != t["exit_noff"]:
            klass = None
            bl = t["disk"] or {}
            if any(r["status"] == "G" for r in t["obs"]):
                klass = "K11_failfast_grandfathered"
            findings.append({"prop": "C11", "class": klass, "what": "exit %d with fail-fast, %d without" % (t["exit"], t["exit_noff"]), "trace": slimt})
        if t.get("update"):
            if t["model_disk1"] != w_bl(t["disk1"]):
                tie_bad.append({"what": "baseline file written by the updating run differs from check_step's", "trace": slimt})
            if len(t["Rp"]) != len(t["R"]) or (view(t["disk1"]) or {}) != (view(t["disk1_noff"]) or {}):
                findings.append({"prop": "C11", "class": None, "trace": slimt,
                                 "what": "--update-baseline %s under fail-fast: %d of %d results, baseline written %s; without fail-fast %s" % (
                                     UM[t["update"]], len(t["Rp"]), len(t["R"]), sorted(t["disk1"] or {}), sorted(t["disk1_noff"] or {}))})
        if t.get("ratchet"):
            # the baseline file after the run: the model's, and - when the loop dropped nothing - the one the run without fail-fast leaves
            if t["model_disk1"] != w_bl(t["disk1"]):
                tie_bad.append({"what": "baseline file after the fail-fast run differs from check_step's", "trace": slimt})
            if len(t["Rp"]) == len(t["R"]) and (view(t["disk1"]) or {}) != (view(t["disk1_noff"]) or {}):
                findings.append({"prop": "C11", "class": None, "trace": slimt,
                                 "what": "ratchet %s: no result was dropped, yet the baseline after the fail-fast run holds %s and after the run without fail-fast %s" % (
                                     t["ratchet"], sorted(t["disk1"] or {}), sorted(t["disk1_noff"] or {}))})
        if any(r["status"] == "F" for r in t["R"]) or t.get("ghosts") or t.get("update"):
            nontrivial.add((t["sizes"], str(t["baseline"]), str(t["order"]), t["ff_cfg"]))
    for b in ident_bad:
        findings.append({"prop": "C11", "class": None, "what": "JSON output differs across thread counts without fail-fast", "trace": b})
    xcheck_model(ctx, model, 30 if ctx.tier == "quick" else 200)
    ctx.cov["evaluations"] = lib["cases"] + len(traces) + ident_runs
    ctx.cov["distinct_nontrivial"] = len(nontrivial)
    ctx.cov["traces_validated_against_impl"] = len(traces) - len({json.dumps(b["trace"], sort_keys=True) for b in tie_bad})
    ctx.cov["rule"] = ("RAYON_NUM_THREADS=1 x every permutation of --files over %d files x placements of passing / warned / failing / grandfathered files (grandfathered ones also with a size that differs from the recorded one: grown, shrunk), a file named twice through a symlink that falls under a laxer content rule, unreadable entries (I/O error: no result) and byte-identical Python/Rust twins (old mtimes) (fail-fast by flag and by "
                       "[check] fail_fast); 1..16 threads x random --files orders and directory scans x repetitions for 8..60 files; every observed R' checked with ff_subb against the "
                       "run without fail-fast, sequential runs against ff_seq, exit against determine_exit_code(apply_baseline_comparison R'); without fail-fast stdout compared bytewise "
                       "across 1,2,4,8,16 threads; directory scans and --files runs with baseline entries of deleted files under --ratchet strict / auto / warn (exit and, when nothing was dropped, the tightened file equal with and without fail-fast); "
                       "runs with --update-baseline all / content / structure / new under fail-fast (all results present, file written equal to the run without fail-fast). non-trivial = distinct (placement, baseline, order, fail-fast source) with at least one failing file" % k)
    ctx.cov["input_distribution"] = {"traces": dist, "library": lib["dist"], "cli_spawns": spawns, "identical_output_runs": ident_runs,
                                     "threads": sorted({t["threads"] for t in traces}), "dropped_some_result": sum(1 for t in traces if len(t["Rp"]) < len(t["R"])),
                                     "with_grandfathered": sum(1 for t in traces if any(r["status"] == "G" for r in t["obs"])),
                                     "with_byte_identical_twins": sum(1 for t in traces if "y" in t["sizes"] and "r" in t["sizes"]),
                                     "scans_with_grandfathered_naming_violation": sum(1 for t in traces if "N" in t["sizes"]),
                                     "with_grown_or_shrunk_recorded_file": sum(1 for t in traces if t["baseline"] and any(t["sizes"][j] in "gk" for j in t["baseline"])),
                                     "with_symlink_alias_under_another_rule": sum(1 for t in traces if "l" in t["sizes"] and not t["full_scan"]),
                                     "with_renamed_recorded_file(entry of a gone path carries the hash)": sum(1 for t in traces if "m" in t["sizes"]),
                                     "ratchet_without_--baseline_default_file_present": sum(1 for t in traces if t.get("nob")),
                                     "with_unreadable_entry": sum(1 for t in traces if "e" in t["sizes"] and not t["full_scan"]),
                                     "with_entries_of_deleted_files_under_ratchet": sum(1 for t in traces if t.get("ghosts") and t.get("ratchet")),
                                     "updating_runs": sum(1 for t in traces if t.get("update"))}
    ctx.cov["model_vs_impl_mismatches"] = len(lib["mismatches"]) + len(tie_bad)
    for t in traces[:3]:
        ctx.sample({"sizes": t["sizes"], "baseline": t["baseline"], "order": t["order"], "threads": t["threads"], "observed": [r["path"] + ":" + r["status"] for r in t["obs"]],
                    "exit": t["exit"], "model_exit": t["model_exit"], "ff_sub": t["ffsub"]})
    ctx.cov["trusted_base"] = TRUSTED_COMMON + ["rayon: order-preserving collect, workers only run the closure; no out-of-thin-air values for Relaxed atomics (argued in Check/FailFast.v)"]
    ctx.assumptions = ["every execution of the parallel loop satisfies ff_sub (argued from the code, validated on every observed trace)"]
    fails = [f for f in lib["oracle_failures"] if f["prop"] in ("C01", "C11")]
    for f in fails[:3]:
        ctx.violation({"kind": "property-oracle", "what": f["what"], "first_mismatch": {"case": f["case"]}})
    n = report_findings(ctx, "C11", findings)
    if not fails and not n:
        report_tie(ctx, "C11", "observed fail-fast runs of sloc-guard check within ff_sub, exit == extracted determine_exit_code", lib["mismatches"] + tie_bad, proofs_ok, lib["errs"])


def replay(ctx, path):
    return replay_file(ctx, path, "C11")
