"""C18 -- remote configuration integrity and fetch policy."""
import json
import os
import re
import shutil
import subprocess
import tempfile
from gen_config import *  # noqa

PROP_FILES = ["Config/Properties_C18.v"]
MANIFEST = dict(
    technique="Coq proof (case analysis over policy x cache x hash x server with arbitrary contents, SHA-256 an uninterpreted section variable; induction over fetch histories sharing one cache) on a Gallina port of fetch_remote_config_with_client, tied by an exhaustive run of the policy table through the re-exported function with a scripted HttpClient, sampled histories, and real kills at every hook point of the cache write",
    text="Theorems C18_integrity, C18_never_caches_mismatch, C18_offline_never_fetches, C18_unreadable_entry_is_a_miss, C18_refresh_never_reads_cache, C18_normal_respects_ttl, C18_sequence_inv, C18_failed_fetch_leaves_cache, C18_crash_with_hash_safe, C18_crash_without_hash, and for several URLs sharing one cache directory keyed on the whole URL text C18_other_urls_untouched, C18_url_answer_depends_on_own_entry_only, C18_offline_unfetched_url_misses, C18_url_histories_independent hold for every hash function, every content, every clock value and every history (unbounded). The tie to the Rust code: the full product policy(3) x cache state(27: absent, 5 ages x 4 bodies, fresh / stale x 3 unreadable entries: torn inside a multi-byte character, invalid UTF-8 bytes, a directory at the entry path) x extends_sha256(11, incl. empty / prefix / upper-case / over-long / last-char-differs pins) x server(4) under the simulated and the wall clock, sampled histories of 2-4 fetches, sampled histories over 2-4 URLs that differ only in query string / fragment / letter case (scripted client and the real HTTP leg), and a child process killed at each named point of the cache write followed by a second run; explain / stats / snapshot and the root-less explain --sources under every policy; bodies that are not UTF-8 (the served bytes are what is verified and cached).",
    note="Trusted: Coq kernel, extraction, harness sgv-config (scripted client, clock virtualisation: a cache file written under the simulated clock is re-stamped with the simulated time), sha2, the file system's rename atomicity. ReqwestClient::get is exercised against a local plain-HTTP stub (status classes, request count per run, through config show / config validate / check); TLS, redirects that do carry a Location and real time-outs are not.",
    ref="5 (C18)")

GOOD = "[content]\nmax_lines = 100\n"
OLD = "[content]\nmax_lines = 90\n"
ALT = "[content]\nmax_lines = 100000\n"
NEW = "[content]\nmax_lines = 120\n"
TRUNC = GOOD[:9]
EMPTY = ""
BODIES = {"GOOD": GOOD, "OLD": OLD, "ALT": ALT, "NEW": NEW, "TRUNC": TRUNC, "EMPTY": EMPTY}
N0 = 1_000_000
TTL = 3600
# Unreadable entries: the entry path exists (cache_exists / is_cache_within_ttl succeed) but fs::read_to_string
# fails. A cache value is None | (mtime, text) | (mtime, bytes as a latin-1 string, "G") | (mtime, "", "D").
TORN_MB = ("# politique d\u2019\u00e9quipe\n" + GOOD).encode("utf-8")
TORN_MB = TORN_MB[:TORN_MB.index(b"\xc3\xa9") + 1].decode("latin-1")     # cut after the lead byte of a 2-byte character
BAD_BYTES = (b"\xff\xfe" + GOOD.encode("utf-8")).decode("latin-1")      # bytes that are not UTF-8 at all
UNREADABLE = [("torn inside a multi-byte character", TORN_MB, "G"), ("invalid UTF-8 bytes", BAD_BYTES, "G"), ("a directory at the entry path", "", "D")]


def readable(c):
    return c is not None and len(c) == 2


def is_dir(c):
    return c is not None and len(c) == 3 and c[2] == "D"
URL = "https://example.invalid/sgv/remote.toml"

CRASH_POINTS = ["rc:before_create", "aw:start", "aw:after_mkparent", "aw:after_create_temp", "aw:after_write",
                "aw:after_flush", "aw:after_fsync", "aw:after_open_target", "aw:after_lock", "aw:after_rename", "aw:after_unlock",
                "rc:after_write"]
# model crash point of each hook name (the cache write is atomic: old entry until the rename, new entry after)
CP_MODEL = {p: ("after_rename" if p in ("aw:after_rename", "aw:after_unlock", "rc:after_write") else "before_rename") for p in CRASH_POINTS}


def pins():
    """The extends_sha256 values exercised: (label, value). The model compares the pin with H(content)
    by equality, so everything but the exact lower-case digest is a mismatch."""
    g = sha256_hex(GOOD)
    last = g[:-1] + ("0" if g[-1] != "0" else "1")
    up = g.upper()
    if up == g:
        raise CheckBroken("digest of GOOD has no letter: choose another body")
    return [("absent", None), ("correct digest", g), ("digest of the old body", sha256_hex(OLD)),
            ("empty string", ""), ("prefix-1", g[:1]), ("prefix-4", g[:4]), ("prefix-32", g[:32]), ("prefix-63", g[:63]),
            ("correct digest in upper case", up), ("correct digest plus one character", g + "0"),
            ("64 characters, last one differs", last)]


def htable():
    return ";".join("%s=%s" % (enc(b), enc(sha256_hex(b))) for b in BODIES.values())


def cache_field(c, stamp=None):
    """stamp: replaces the mtime (the wall-clock rows send the AGE of the entry)."""
    if c is None:
        return "!"
    m = c[0] if stamp is None else stamp
    if is_dir(c):
        return "D%d" % m
    if not readable(c):
        return "G%d:%s" % (m, enc(c[1]))
    return "%d:%s" % (m, enc(c[1]))


def parse_cache(s):
    if s == "!":
        return None
    if s[0] == "D":
        return (int(s[1:]), "", "D")
    if s[0] == "G":
        m, b = s[1:].split(":")
        return (int(m), dec(b), "G")
    m, b = s.split(":")
    return (int(m), dec(b))


def parse_fetch_out(line):
    """-> (outcome tuple, cache, requests)"""
    o, c, n = [x.strip() for x in line.split("|")]
    return parse_outcome(o), parse_cache(c), int(n)


def parse_outcome(o):
    f = o.split(" ")
    if f[0] == "CONTENT":
        return ("CONTENT", dec(f[1]))
    if f[0] == "MISMATCH":
        return ("MISMATCH", dec(f[1]))
    if f[0] == "MISS":
        return ("MISS",)
    if f[0] == "FAIL":
        return ("FAIL", int(f[1]))
    return ("OTHER", o)


def server_field(s):
    return "B:" + enc(s[1]) if s[0] == "B" else "F:%d" % s[1]


# ------------------------------------------------------------------ independent property oracles

def oracle_row(policy, now, cache, expected, server, out):
    """Checks of the C18 statement on one implementation answer. Returns a list of failure strings."""
    o, c2, n = out
    fails = []
    if o[0] == "OTHER":
        fails.append("unexpected answer " + o[1][:80])
    if expected is not None and o[0] == "CONTENT" and sha256_hex(o[1]) != expected:
        fails.append("integrity: effective content has SHA-256 %s but extends_sha256 = %r was accepted" % (sha256_hex(o[1]), expected))
    if expected is not None and c2 != cache and (not readable(c2) or sha256_hex(c2[1]) != expected):
        fails.append("a body whose hash differs from extends_sha256 was written to the cache")
    if o[0] == "CONTENT" and o[1] not in ([cache[1]] if readable(cache) else []) + ([server[1]] if server[0] == "B" else []):
        fails.append("content that is neither the text of the cache entry nor what the server answered")
    if policy == "offline":
        if n != 0:
            fails.append("offline policy contacted the network")
        if c2 != cache:
            fails.append("offline policy changed the cache")
        if not readable(cache) and o[0] != "MISS":
            fails.append("offline policy with a cache miss (entry absent or not readable) did not fail with the cache-miss error")
    if policy == "refresh":
        exp = ("CONTENT", server[1]) if server[0] == "B" and (expected is None or sha256_hex(server[1]) == expected) else None
        if n != 1:
            fails.append("refresh policy must fetch exactly once")
        if exp and o != exp:
            fails.append("refresh policy answer depends on the cache")
        if server[0] == "F" and o != ("FAIL", server[1]):
            fails.append("refresh policy: client error not passed through")
    if policy == "normal" and cache is not None:
        fresh = cache[0] <= now and now - cache[0] < TTL
        if not fresh and n != 1:
            fails.append("normal policy used a cache entry older than its lifetime (or from the future)")
        if fresh and not readable(cache) and n != 1:
            fails.append("normal policy did not fetch although the fresh entry cannot be read")
        if fresh and readable(cache) and expected is None and (o != ("CONTENT", cache[1]) or n != 0):
            fails.append("normal policy ignored a fresh cache entry")
        if fresh and readable(cache) and expected is not None and sha256_hex(cache[1]) == expected and (o != ("CONTENT", cache[1]) or n != 0):
            fails.append("normal policy ignored a fresh, matching cache entry")
    if o[0] != "CONTENT" and c2 != cache:
        fails.append("a failed fetch changed the cache")
    if o[0] == "CONTENT" and n == 1 and not is_dir(cache) and c2 != (now, o[1]):
        fails.append("a successful fetch did not leave its body in the cache")
    return fails


# ------------------------------------------------------------------ the table

def table_rows():
    caches = [None]
    for age in (10, 3599, 3600, 7200, -50):
        for b in (GOOD, OLD, TRUNC, EMPTY):
            caches.append((N0 - age, b))
    for age in (10, 7200):
        for _, body, kind in UNREADABLE:
            caches.append((N0 - age, body, kind))
    rows = []
    for policy in ("normal", "offline", "refresh"):
        for c in caches:
            for _, expected in pins():
                for server in (("B", GOOD), ("B", ALT), ("F", 1), ("F", 2)):
                    rows.append((policy, N0, c, expected, server))
    return rows


def row_lines(row, real=False):
    policy, now, c, expected, server = row
    ht = htable()
    m = "fetch\t%s\t%d\t%s\t%s\t%s\t%s" % (policy, now, cache_field(c), enc_opt(expected), server_field(server), ht)
    if real:
        cf = cache_field(c, stamp=None if c is None else now - c[0])
        i = "fetch\t%s\treal\t%s\t%s\t%s" % (policy, cf, enc_opt(expected), server_field(server))
    else:
        i = "fetch\t%s\t%d\t%s\t%s\t%s" % (policy, now, cache_field(c), enc_opt(expected), server_field(server))
    return m, i


def run_table(ctx, env, st, real):
    rows = table_rows()
    if real:
        # wall clock: ages away from the boundary (the clock ticks between set-up and call), no future stamps
        rows = [r for r in rows if r[2] is None or (N0 - r[2][0]) in (10, 7200)]
        rows += [(p, N0, (N0 - age, b), e, s) for p in ("normal",) for age in (3590, 3610) for b in (GOOD, OLD)
                 for e in (None, sha256_hex(GOOD), "", sha256_hex(GOOD)[:4], sha256_hex(GOOD).upper()) for s in (("B", GOOD), ("F", 1))]
    ml, il = zip(*[row_lines(r, real) for r in rows])
    iouts, ierrs = run_sharded(env["impl"], list(il), args=["run"])
    mouts, merrs = run_sharded(env["model"], list(ml))
    if merrs:
        raise CheckBroken("model driver failed: %s" % merrs[:1])
    for r, io, mo, m in zip(rows, iouts, mouts, ml):
        tag = ("table-real:" if real else "table:") + r[0]
        st["hist"][tag] = st["hist"].get(tag, 0) + 1
        if r[2] is not None and not readable(r[2]):
            tag2 = tag + ":unreadable-entry"
            st["hist"][tag2] = st["hist"].get(tag2, 0) + 1
        st["evals"] += 1
        if io in ("PANIC", "<NOANSWER>"):
            st["fails"].append({"level": "table", "row": repr(r), "impl": io, "what": "panic / no answer"})
            continue
        out = parse_fetch_out(io)
        if real and out[1] is not None:
            out = (out[0], (N0 - out[1][0],) + out[1][1:], out[2])     # age -> virtual mtime
        mout = parse_fetch_out(mo)
        if out != mout:
            st["mism"].append({"level": "table", "real_clock": real, "row": repr(r), "model_line": m, "impl": io, "model": mo})
        else:
            st["agree"] += 1
        fl = oracle_row(r[0], r[1], r[2], r[3], r[4], out)
        for f in fl:
            st["fails"].append({"level": "table", "real_clock": real, "row": repr(r), "model_line": m, "impl": io, "what": f})
        if r[2] is not None or r[3] is not None:
            st["nontrivial"].add(("real" if real else "sim") + m)
    if not real:
        for r, io in list(zip(rows, iouts))[100:102]:
            ctx.sample({"level": "table", "policy": r[0], "now": r[1], "cache": r[2], "expected_sha256": r[3], "server": r[4], "impl_and_model": io})
        # refresh never reads the cache: answers grouped by (expected, server) must not vary with the cache
        groups = {}
        for r, io in zip(rows, iouts):
            if r[0] == "refresh":
                o = parse_fetch_out(io)
                groups.setdefault((r[3], r[4]), set()).add((o[0], o[2]))
        for k, v in groups.items():
            if len(v) != 1:
                st["fails"].append({"level": "table", "what": "refresh policy answer varies with the cache state", "group": repr(k), "answers": repr(v)})


# ------------------------------------------------------------------ histories sharing one cache

def run_sequences(ctx, env, st, n):
    rng = ctx.rng
    ht = htable()
    seqs = []
    for _ in range(n):
        k = rng.randint(2, 4)
        c = rng.choice([None, None, (N0 - rng.choice([10, 3599, 3600, 9000]), rng.choice([GOOD, OLD, TRUNC, EMPTY])),
                        (N0 - rng.choice([10, 3599, 3600, 9000]), rng.choice([GOOD, OLD, TRUNC, EMPTY])),
                        (N0 - rng.choice([10, 9000]),) + rng.choice(UNREADABLE)[1:]])
        now = N0
        steps = []
        for _ in range(k):
            now += rng.choice([0, 10, 1800, 3599, 3600, 4000])
            policy = rng.choice(["normal", "normal", "normal", "offline", "refresh"] + (["offline", "offline"] if not readable(c) else []))
            expected = rng.choice([None, None, sha256_hex(GOOD), sha256_hex(GOOD), sha256_hex(ALT)] + [v for _, v in pins()[3:]])
            server = rng.choice([("B", GOOD), ("B", GOOD), ("B", ALT), ("B", NEW), ("F", 1), ("F", 2)])
            steps.append((policy, now, expected, server))
        seqs.append((c, steps))
    def stepf(s):
        return "%s;%d;%s;%s" % (s[0], s[1], enc_opt(s[2]), server_field(s[3]))
    ml = ["seq\t%s\t%s\t%s" % (cache_field(c), ht, "\t".join(stepf(s) for s in steps)) for c, steps in seqs]
    il = ["seq\t%s\t%s" % (cache_field(c), "\t".join(stepf(s) for s in steps)) for c, steps in seqs]
    iouts, ierrs = run_sharded(env["impl"], il, args=["run"])
    mouts, merrs = run_sharded(env["model"], ml)
    if merrs:
        raise CheckBroken("model driver failed: %s" % merrs[:1])
    for (c, steps), io, mo, m in zip(seqs, iouts, mouts, ml):
        st["hist"]["sequence-%d" % len(steps)] = st["hist"].get("sequence-%d" % len(steps), 0) + 1
        if c is not None and not readable(c):
            st["hist"]["sequence:unreadable-initial-entry"] = st["hist"].get("sequence:unreadable-initial-entry", 0) + 1
        st["evals"] += 1
        if io in ("PANIC", "<NOANSWER>"):
            st["fails"].append({"level": "sequence", "model_line": m, "impl": io, "what": "panic / no answer"})
            continue
        if io != mo:
            st["mism"].append({"level": "sequence", "model_line": m, "impl": io, "model": mo})
        else:
            st["agree"] += 1
        outs_s, final = [x.strip() for x in io.split("|")]
        final = parse_cache(final)
        outs = [x.strip() for x in outs_s.split(";")]
        # invariants over the history: integrity per step; every content returned is a complete body that the
        # server served or the initial entry; when every step pins one hash the final cache is initial or has it
        served = {s[3][1] for s in steps if s[3][0] == "B"} | ({c[1]} if readable(c) else set())
        cur_unreadable = c is not None and not readable(c)      # still the unreadable initial entry (a write replaces a garbled file)
        for s, o in zip(steps, outs):
            oc = parse_outcome(o.rsplit(" ", 1)[0])
            nreq = int(o.rsplit(" ", 1)[1])
            if s[0] == "offline" and nreq != 0:
                st["fails"].append({"level": "sequence", "model_line": m, "impl": io, "what": "offline policy contacted the network inside a history"})
            if s[0] == "offline" and cur_unreadable and oc[0] != "MISS":
                st["fails"].append({"level": "sequence", "model_line": m, "impl": io, "what": "offline policy over an entry that cannot be read did not fail with the cache-miss error"})
            if oc[0] == "CONTENT":
                if nreq == 1 and not is_dir(c):
                    cur_unreadable = False
                if s[2] is not None and sha256_hex(oc[1]) != s[2]:
                    st["fails"].append({"level": "sequence", "model_line": m, "impl": io,
                                        "what": "integrity violated inside a history: content with SHA-256 %s accepted under extends_sha256 = %r" % (sha256_hex(oc[1]), s[2])})
                if oc[1] not in served:
                    st["fails"].append({"level": "sequence", "model_line": m, "impl": io, "what": "content that nobody served"})
        hs = {s[2] for s in steps}
        if len(hs) == 1 and None not in hs and final != c and (not readable(final) or sha256_hex(final[1]) not in hs):
            st["fails"].append({"level": "sequence", "model_line": m, "impl": io, "what": "history with one pinned hash left a mismatching cache entry"})
        st["nontrivial"].add(m)
    for (c, steps), io in list(zip(seqs, iouts))[:2]:
        ctx.sample({"level": "sequence", "initial_cache": c, "steps": steps, "impl_and_model": io})


# ------------------------------------------------------------------ histories over SEVERAL URLs sharing one cache directory

UBASE = "https://example.invalid/sgv/remote.toml"
URL_FAMILIES = {
    # members of a family differ ONLY in the named part; every one is a different URL and has an entry of its own
    "query": [UBASE + "?ref=v1", UBASE + "?ref=v2", UBASE, UBASE + "?", UBASE + "?ref=v1&x=1", UBASE + "?token=abc", UBASE + "?token=abd"],
    "fragment": [UBASE + "#a", UBASE + "#b", UBASE, UBASE + "#"],
    "path-case": [UBASE, "https://example.invalid/sgv/Remote.toml", "https://example.invalid/SGV/remote.toml", "https://example.invalid/sgv/remote.TOML"],
    "query+fragment+case": [UBASE + "?ref=v1#a", UBASE + "?ref=v1#b", UBASE + "?ref=V1#a", "https://example.invalid/sgv/Remote.toml?ref=v1", UBASE + "?ref=v2#a"],
    "other": [UBASE, UBASE + "/", "http://example.invalid/sgv/remote.toml", "https://example.invalid:443/sgv/remote.toml", "https://example.invalid/sgv/remote%2Etoml",
              "https://example.invalid/sgv/./remote.toml"],
}


def ubody(i, k):
    """Body number k of URL number i of a case: every (URL, version) has a body of its own."""
    return "[content]\nmax_lines = %d\n" % (1000 * (i + 1) + k)


def gen_url_history(rng, family=None):
    family = family or rng.choice(sorted(URL_FAMILIES))
    urls = rng.sample(URL_FAMILIES[family], rng.randint(2, min(4, len(URL_FAMILIES[family]))))
    now = N0
    steps = []
    ver = [0] * len(urls)
    fetched = set()
    for _ in range(rng.randint(3, 8)):
        now += rng.choice([0, 1, 10, 10, 600, 1800, 3599, 3600, 4000])
        # mostly: a URL whose sibling was fetched already, under offline / normal (the policies that may read a cache)
        unf = [i for i in range(len(urls)) if i not in fetched]
        i = rng.choice(unf) if (unf and fetched and rng.random() < 0.6) else rng.randrange(len(urls))
        policy = rng.choice(["normal", "normal", "offline", "offline", "refresh"]) if fetched else rng.choice(["normal", "normal", "normal", "refresh", "offline"])
        if rng.random() < 0.15:
            ver[i] += 1                                  # the server's body of this URL changes
        r = rng.random()
        server = ("B", ubody(i, ver[i])) if r < 0.85 else ("F", rng.choice([1, 2]))
        r = rng.random()
        if r < 0.7:
            expected = None
        elif r < 0.85:
            expected = sha256_hex(ubody(i, ver[i]))
        else:
            j = rng.randrange(len(urls))
            expected = sha256_hex(ubody(j, ver[j]))      # the pin of a sibling's body
        steps.append((i, policy, now, expected, server))
        if policy != "offline" and server[0] == "B" and (expected is None or expected == sha256_hex(server[1])):
            fetched.add(i)
    return family, urls, steps


def url_history_lines(urls, steps):
    bodies = sorted({s[4][1] for s in steps if s[4][0] == "B"})
    ht = ";".join("%s=%s" % (enc(b), enc(sha256_hex(b))) for b in bodies) or "!"
    sf = ["%d;%s;%d;%s;%s" % (i, p, now, enc_opt(e), server_field(srv)) for (i, p, now, e, srv) in steps]
    us = ";".join(enc(u) for u in urls)
    return "useq\t%s\t%s\t%s" % (us, ht, "\t".join(sf)), "useq\t%s\t%s" % (us, "\t".join(sf))


def oracle_url_history(urls, steps, io):
    """The C18 statement read per URL, independent of the model: offline on a URL that has no entry of its own is a
    cache miss without a request; the content that takes effect is a body the server served FOR THE CONFIGURED URL;
    a URL without an entry is fetched under the normal policy; the client is asked for the configured URL only; the
    directory ends up with one entry per URL that was fetched successfully."""
    fails = []
    outs_s, final = [x.strip() for x in io.split("|")]
    outs = [x.strip() for x in outs_s.split(";")]
    entry = {}
    served = {}
    for k, ((i, policy, now, expected, server), o) in enumerate(zip(steps, outs)):
        f = o.rsplit(" ", 2)
        oc, nreq, asked = parse_outcome(f[0]), int(f[1]), f[2]
        where = "step %d (%s, %s)" % (k + 1, policy, urls[i])
        if server[0] == "B" and nreq > 0:
            served.setdefault(i, set()).add(server[1])
        if asked != "!" and any(a != str(i) for a in asked.split("+")):
            fails.append(where + ": the client was asked for another URL than the configured one (%s)" % asked)
        if policy == "offline":
            if nreq != 0:
                fails.append(where + ": offline policy contacted the network")
            if i not in entry and oc[0] != "MISS":
                fails.append(where + ": offline policy on a URL that was never fetched did not fail with the cache-miss error: %s" % (oc,))
        if policy == "refresh" and nreq != 1:
            fails.append(where + ": refresh policy must fetch exactly once")
        if policy == "normal" and i not in entry and nreq != 1:
            fails.append(where + ": normal policy on a URL that has no cache entry did not contact the server")
        if oc[0] == "CONTENT":
            if oc[1] not in served.get(i, set()):
                fails.append(where + ": the content that took effect (%r) is not a body the server served for this URL" % oc[1])
            if expected is not None and sha256_hex(oc[1]) != expected:
                fails.append(where + ": integrity: content with another SHA-256 than extends_sha256 accepted")
            if nreq == 1:
                entry[i] = (now, oc[1])
    want = sorted(cache_field(e) for e in entry.values())
    got = sorted(x.strip() for x in final.split("&")) if final != "!" else []
    if got != want:
        fails.append("cache directory after the history: %r, required one entry per successfully fetched URL: %r" % (got, want))
    return fails


def run_url_sequences(ctx, env, st, n):
    rng = ctx.rng
    # corpus first: the two-URL shape (fetch A; B offline; B normal within the hour; A offline) for every family
    cases = []
    for fam in sorted(URL_FAMILIES):
        a, b = URL_FAMILIES[fam][0], URL_FAMILIES[fam][1]
        cases.append((fam + ":corpus", [a, b], [(0, "normal", N0, None, ("B", ubody(0, 0))), (1, "offline", N0 + 10, None, ("B", ubody(1, 0))),
                                              (1, "normal", N0 + 20, None, ("B", ubody(1, 0))), (0, "offline", N0 + 30, None, ("F", 1)),
                                              (1, "offline", N0 + 9000, None, ("F", 1))]))
    for _ in range(n):
        cases.append(gen_url_history(rng))
    ml, il = zip(*[url_history_lines(u, s) for _, u, s in cases])
    iouts, ierrs = run_sharded(env["impl"], list(il), args=["run"])
    mouts, merrs = run_sharded(env["model"], list(ml))
    if merrs:
        raise CheckBroken("model driver failed: %s" % merrs[:1])
    for (fam, urls, steps), io, mo, m in zip(cases, iouts, mouts, ml):
        tag = "url-history:" + fam.split(":")[0]
        st["hist"][tag] = st["hist"].get(tag, 0) + 1
        st["evals"] += 1
        desc = {"level": "url-history", "family": fam, "urls": urls, "steps": steps, "model_line": m, "impl": io}
        if io in ("PANIC", "<NOANSWER>") or "|" not in io:
            st["fails"].append(dict(desc, what="panic / no answer"))
            continue
        # impl vs model: answers without the asked-URL column, entries as a sorted list
        def canon(line, strip_asked):
            a, b = [x.strip() for x in line.split("|")]
            outs = [x.strip() for x in a.split(";")]
            if strip_asked:
                outs = [o.rsplit(" ", 1)[0] for o in outs]
            return outs, (sorted(x.strip() for x in b.split("&")) if b != "!" else [])
        if canon(io, True) != canon(mo, False):
            st["mism"].append(dict(desc, model=mo))
        else:
            st["agree"] += 1
        for f in oracle_url_history(urls, steps, io):
            st["fails"].append(dict(desc, what=f))
        offline_unfetched = False
        seen = set()
        for (i, policy, now, e, srv) in steps:
            if policy == "offline" and i not in seen and seen:
                offline_unfetched = True
            if policy != "offline" and srv[0] == "B":
                seen.add(i)
        if offline_unfetched:
            st["hist"]["url-history:offline-on-unfetched-sibling"] = st["hist"].get("url-history:offline-on-unfetched-sibling", 0) + 1
        st["nontrivial"].add(m)
    for (fam, urls, steps), io in list(zip(cases, iouts))[5:7]:
        ctx.sample({"level": "url-history", "family": fam, "urls": urls, "steps": steps, "impl_and_model": io})


# ------------------------------------------------------------------ real kills inside the cache write

def fetch_root(root):
    """The project root the harness fetches under (scratch root of one harness process)."""
    return os.path.join(root, "fetch-root")


def read_state(root):
    """The cache below the harness's project root, found by scanning: None | (mtime, text) | (mtime, bytes, "G") |
    (mtime, "", "D"); more than one entry is a state of its own."""
    ents = cache_entries(fetch_root(root))
    if not ents:
        return None
    if len(ents) > 1:
        return (0, "%d entries" % len(ents), "MULTI")
    p = ents[0]
    v = fs_state(p)
    m = int(os.stat(p).st_mtime)
    if v == ("D",):
        return (m, "", "D")
    return (m, v) if isinstance(v, str) else (m, v[1], "G")


def one_fetch(env, root, line, crash_at=None):
    e = dict(ENV)
    e.pop("SGV_CRASH_AT", None)
    if crash_at:
        e["SGV_CRASH_AT"] = crash_at
    p = subprocess.run([env["impl"], "run", root], input=line + "\n", stdout=subprocess.PIPE, stderr=subprocess.PIPE, text=True, env=e, timeout=60)
    out = p.stdout.strip().split("\n")[0] if p.stdout.strip() else None
    return p.returncode, out


def run_crashes(ctx, env, st):
    ht = htable()
    scen = []
    for prior in (None, (N0 - 7200, OLD), (N0 - 10, OLD)):
        for policy in ("normal", "refresh"):
            for expected in (None, sha256_hex(GOOD)):
                scen.append((policy, N0, prior, expected, ("B", GOOD)))
    # an entry that cannot be read is overwritten like a stale one (the rename replaces it)
    scen.append(("normal", N0, (N0 - 7200, TORN_MB, "G"), None, ("B", GOOD)))
    scen.append(("normal", N0, (N0 - 10, BAD_BYTES, "G"), sha256_hex(GOOD), ("B", GOOD)))
    # rows that never reach the write (no crash expected): fresh cache hit, server error
    scen.append(("normal", N0, (N0 - 10, GOOD), None, ("B", GOOD)))
    scen.append(("normal", N0, None, None, ("F", 1)))
    points = CRASH_POINTS if ctx.tier == "thorough" else CRASH_POINTS
    reached = set()
    for row in scen:
        for cp in points:
            root = tempfile.mkdtemp(prefix="sgv-c18-")
            try:
                m, i = row_lines(row)
                rc, out = one_fetch(env, root, i, crash_at=cp)
                st["evals"] += 1
                st["spawns"] += 1
                crashed = rc < 0
                stt = read_state(root)
                prior = row[2]
                if stt is not None and (prior is None or stt[0] != prior[0]):
                    os.utime(cache_entries(fetch_root(root))[0], (row[1], row[1]))      # written by the killed run: simulated clock
                    stt = (row[1],) + stt[1:]
                tag = "crash:" + cp + (":killed" if crashed else ":not-reached")
                st["hist"][tag] = st["hist"].get(tag, 0) + 1
                if crashed:
                    reached.add(cp)
                # model
                ml = "crash\t%s\t%s" % (CP_MODEL[cp], m.split("\t", 1)[1])
                mo, _, _ = run_lines(env["model"], [ml])
                mo = mo[0] if mo else "<none>"
                desc = {"level": "crash", "row": repr(row), "kill_at": cp, "killed": crashed, "cache_after": stt, "model": mo}
                if crashed:
                    if mo == "NOCRASH":
                        st["mism"].append(dict(desc, what="the run reached the cache write but the model says it does not"))
                    else:
                        mc = parse_cache(mo.split(" ", 1)[1])
                        if mc != stt:
                            st["mism"].append(dict(desc, what="cache state after the kill differs from the model"))
                        else:
                            st["agree"] += 1
                else:
                    # the point was not reached: the run must have completed like the table row
                    if out is None:
                        st["fails"].append(dict(desc, what="no answer although the crash point was not reached"))
                    else:
                        st["agree"] += 1
                    continue
                # follow-up runs on the state the kill left behind: server unreachable, so only the cache can answer
                for (pol2, exp2) in (("normal", None), ("normal", sha256_hex(GOOD)), ("offline", None)):
                    line2 = "fetch\t%s\t%d\t=\t%s\tF:1" % (pol2, row[1] + 10, enc_opt(exp2))
                    rc2, out2 = one_fetch(env, root, line2)
                    st["spawns"] += 1
                    st["evals"] += 1
                    if out2 is None:
                        st["fails"].append(dict(desc, what="follow-up run gave no answer"))
                        continue
                    o2 = parse_fetch_out(out2)
                    m2 = "fetch\t%s\t%d\t%s\t%s\tF:1\t%s" % (pol2, row[1] + 10, cache_field(stt), enc_opt(exp2), ht)
                    mo2, _, _ = run_lines(env["model"], [m2])
                    if parse_fetch_out(mo2[0]) != o2:
                        st["mism"].append(dict(desc, what="follow-up run differs from the model", impl=out2, model2=mo2[0]))
                    else:
                        st["agree"] += 1
                    complete = {GOOD} | ({prior[1]} if readable(prior) else set())
                    if o2[0][0] == "CONTENT" and o2[0][1] not in complete:
                        d = dict(desc, follow_up={"policy": pol2, "expected": exp2, "answer": out2},
                                 what="a later run trusted a cache entry left by an interrupted write (content %r is not a complete body)" % o2[0][1])
                        st["fails"].append(d)
                    if exp2 is not None and o2[0][0] == "CONTENT" and sha256_hex(o2[0][1]) != exp2:
                        st["fails"].append(dict(desc, what="integrity violated after a crash"))
                st["nontrivial"].add("crash" + cp + repr(row))
            finally:
                shutil.rmtree(root, ignore_errors=True)
    ctx.cov["crash_points_reached"] = sorted(reached)
    ctx.sample({"level": "crash", "points_swept": points, "points_reached": sorted(reached), "scenarios": len(scen)})


# ------------------------------------------------------------------ the pin through the CLI (resolver passes it down)

def run_cli_pins(ctx, env, st):
    """leaf.toml extends a remote whose body sits in the cache; `--extends-policy offline config show`.
    The pin travels leaf -> ExtendsResolver -> fetch_remote_config. Only the exact digest (or no pin)
    may be accepted; everything else must exit 2 with a hash-mismatch diagnostic, cache untouched."""
    url = "https://example.invalid/sgv/c18-cli.toml"
    body = "[content]\nmax_lines = 123\n"
    g = sha256_hex(body)
    last = g[:-1] + ("0" if g[-1] != "0" else "1")
    cases = [("absent", None, 0), ("correct digest", g, 0), ("empty string", "", 2), ("prefix-1", g[:1], 2), ("prefix-4", g[:4], 2),
             ("prefix-32", g[:32], 2), ("prefix-63", g[:63], 2), ("correct digest in upper case", g.upper(), 2),
             ("correct digest plus one character", g + "0", 2), ("64 characters, last one differs", last, 2)]
    # fix D66: a pin that is present but not a string is a configuration error (it used to be dropped, and the remote
    # content took effect unverified); written as raw TOML
    raw = [("an integer", "12345"), ("a boolean", "true"), ("an array holding the digest", '["%s"]' % g), ("a float", "1.5"),
           ("a table", '{ sha256 = "%s" }' % g)]
    for label, pin, want in cases + [(l, ("RAW", r), 2) for l, r in raw]:
        with Sandbox("sgv-c18-cli-") as sb:
            sb.write(".sloc-guard.toml", "")
            diag = "hash mismatch"
            if isinstance(pin, tuple):
                leaf = 'extends = "%s"\nextends_sha256 = %s\n' % (url, pin[1])
                diag = "'extends_sha256' must be a string"
                label = "not a string: " + label
            else:
                leaf = 'extends = "%s"\n' % url + ('extends_sha256 = "%s"\n' % pin if pin is not None else "")
            sb.write("cfg/leaf.toml", leaf)
            cp = prime_cache(env, sb.proj, url, body)      # the entry is created by the real fetch path and found by scanning
            rc, out, err = sb.run(env["cli"], ["--color", "never", "--extends-policy", "offline", "config", "show", "--format", "json", "-c", "cfg/leaf.toml"])
            st["evals"] += 1
            st["spawns"] += 1
            st["hist"]["cli-pin:" + label] = st["hist"].get("cli-pin:" + label, 0) + 1
            what = None
            if rc != want:
                what = "extends_sha256 = %r (%s) over cached content with SHA-256 %s: exit %d, required %d (the content must not take effect unverified)" % (pin, label, g, rc, want)
            elif want == 0:
                try:
                    if json.loads(out)["content"]["max_lines"] != 123:
                        what = "remote content did not take effect"
                except (ValueError, KeyError):
                    what = "unparsable config show output"
            elif diag not in err:
                what = "exit 2 without the diagnostic %r" % diag
            if [fs_state(e) for e in cache_entries(sb.proj)] != [body]:
                what = (what or "") + " ; cache changed: %r" % [fs_state(e) for e in cache_entries(sb.proj)]
            if what:
                st["fails"].append({"level": "cli-pin", "leaf.toml": leaf, "cached_body": body, "what": what, "impl": {"rc": rc, "stderr": err[-400:]}})
            else:
                st["agree"] += 1
                st["nontrivial"].add("cli-pin:" + label)


# ------------------------------------------------------------------ the production client against a real local HTTP server

STATUSES = [200, 204, 300, 301, 304, 400, 404, 500, 503]      # 301 is sent without a Location header


class Stub:
    """HTTP/1.1 stub on 127.0.0.1:<ephemeral port>: answers every GET with self.status; 200 carries self.body,
    every other status an empty body. Counts the requests it sees."""

    def __init__(self):
        import http.server
        import threading
        stub = self
        self.status, self.body, self.requests = 200, GOOD.encode(), 0
        self.routes, self.paths = {}, []          # request target (path?query) -> body; targets seen, in order
        self.ctype = "text/plain; charset=utf-8"

        class Handler(http.server.BaseHTTPRequestHandler):
            protocol_version = "HTTP/1.1"

            def do_GET(self):
                stub.requests += 1
                stub.paths.append(self.path)
                body = stub.routes.get(self.path, stub.body) if stub.status == 200 else b""
                self.send_response(stub.status)
                if stub.status == 200:
                    self.send_header("Content-Type", stub.ctype)
                self.send_header("Content-Length", str(len(body)))
                self.end_headers()
                if body:
                    self.wfile.write(body)

            def log_message(self, *a):
                pass
        self.srv = http.server.ThreadingHTTPServer(("127.0.0.1", 0), Handler)
        self.port = self.srv.server_address[1]
        self.thread = threading.Thread(target=self.srv.serve_forever, daemon=True)
        self.thread.start()

    def close(self):
        self.srv.shutdown()
        self.srv.server_close()


def fs_state(path):
    """What sits at the entry path: None | text | ("G", bytes as latin-1) | ("D",)."""
    if os.path.isdir(path):
        return ("D",)
    if not os.path.exists(path):
        return None
    b = open(path, "rb").read()
    try:
        return b.decode("utf-8")
    except UnicodeDecodeError:
        return ("G", b.decode("latin-1"))


def model_state(c):
    """The same view of a model cache value."""
    if c is None:
        return None
    if is_dir(c):
        return ("D",)
    return c[1] if readable(c) else ("G", c[1])


HTTP_CMDS = {"show": ["config", "show", "--format", "json"],
             "validate": ["config", "validate", "-c", ".sloc-guard.toml"],
             "check": ["check", "--no-sloc-cache", "--format", "json", "."],
             # every other command that resolves the extends chain through commands::context::load_config
             "explain": ["explain", ".sloc-guard.toml", "--format", "json"],
             "stats": ["stats", "summary", "--no-sloc-cache", "--format", "json"],
             "snapshot": ["snapshot", "--no-sloc-cache"]}
# `explain --sources` builds its loader WITHOUT a project root: it has no remote cache at all (nothing read, nothing
# written). Model: Remote.fetch on the absent cache, the resulting cache dropped (RemoteUrls.fetch_noroot).
NOROOT_CMDS = {"explain-sources": ["explain", "--sources"], "explain-sources-json": ["explain", "--sources", "--format", "json"],
               "explain-sources-c": ["explain", "--sources", "-c", ".sloc-guard.toml"]}


def run_real_server(ctx, env, st):
    """ReqwestClient (the production HttpClient) through the real binary. A scenario is an initial cache entry, a
    list of runs (policy, pin, status the server answers) and the command that loads the configuration (config show,
    config validate, check: every one of them takes the global --extends-policy); compared with the model's history
    (2xx = body, anything else = client error) and with the statement: a non-2xx answer is a failed fetch (exit 2,
    diagnostic naming the status), leaves the cache as it was, a later healthy run applies the real configuration,
    the offline policy never sends a request (the stub counts them) and fails when the entry is absent or cannot be
    read, the refresh policy always sends exactly one."""
    try:
        stub = Stub()
    except OSError as e:
        raise CheckBroken("cannot open a local HTTP server: %s" % e)
    ht = htable()
    limit = {GOOD: 100, OLD: 90, EMPTY: 600}
    g = sha256_hex(GOOD)
    scen = []
    for code in STATUSES:
        scen.append((None, [("normal", None, code), ("normal", None, 200)], "show"))
    scen += [(("fresh", OLD), [("offline", None, 500)], "show"),
             (("fresh", OLD), [("refresh", None, 304), ("normal", None, 200)], "show"),
             (("stale", OLD), [("normal", None, 304), ("normal", None, 200)], "show"),
             (("stale", OLD), [("normal", None, 200), ("offline", None, 503)], "show"),
             (None, [("normal", g, 304), ("normal", g, 200), ("offline", g, 404)], "show"),
             (None, [("normal", "", 200), ("normal", g[:4], 200)], "show"),
             (None, [("normal", g, 204), ("refresh", None, 300), ("refresh", None, 200)], "show"),
             (None, [("offline", None, 200)], "show"),
             # entries that exist but cannot be read: a miss under every policy, never a reason to go online when offline
             (("fresh", TORN_MB, "G"), [("offline", None, 200), ("normal", None, 200), ("offline", None, 500)], "show"),
             (("fresh", TORN_MB, "G"), [("offline", g, 200), ("offline", None, 200)], "check"),
             (("stale", TORN_MB, "G"), [("offline", None, 200), ("refresh", None, 200)], "validate"),
             (("fresh", BAD_BYTES, "G"), [("offline", g, 200), ("normal", g, 200)], "show"),
             (("stale", BAD_BYTES, "G"), [("offline", None, 200)], "validate"),
             (("fresh", "", "D"), [("offline", None, 200), ("normal", None, 200), ("offline", None, 200)], "show"),
             (("stale", "", "D"), [("offline", g, 200)], "check"),
             # config validate / check under the global policy flag (D65: validate used to load with the normal policy)
             (None, [("offline", None, 200), ("normal", None, 200), ("offline", None, 500)], "validate"),
             (("fresh", OLD), [("refresh", None, 200), ("offline", None, 500)], "validate"),
             (("stale", OLD), [("offline", None, 500), ("normal", None, 200)], "validate"),
             (None, [("normal", g, 200), ("offline", g, 404), ("refresh", sha256_hex(OLD), 200)], "validate"),
             (None, [("offline", None, 200), ("refresh", None, 200), ("offline", None, 503)], "check"),
             # the remaining commands that resolve the chain (explain <path>, stats, snapshot)
             (None, [("offline", None, 200), ("normal", None, 200), ("offline", None, 500)], "explain"),
             (("fresh", OLD), [("refresh", None, 200), ("offline", None, 500)], "explain"),
             (None, [("offline", None, 200), ("normal", g, 200), ("offline", g, 500)], "stats"),
             (("stale", OLD), [("offline", None, 500), ("refresh", None, 200)], "stats"),
             (None, [("offline", None, 200), ("normal", None, 200), ("offline", None, 500)], "snapshot"),
             (("fresh", TORN_MB, "G"), [("offline", None, 200), ("refresh", None, 200)], "snapshot")]
    try:
        for (init, runs, cmd) in scen:
            with Sandbox("sgv-c18-http-") as sb:
                url = "http://127.0.0.1:%d/base.toml" % stub.port
                c0 = None
                if init:
                    # the entry is created by a priming run of the real fetch path, located by scanning, then given
                    # the wanted kind / content / age in place
                    sb.write(".sloc-guard.toml", "")
                    cpath = prime_cache(env, sb.proj, url, "# priming body\n")
                    kind = init[2] if len(init) > 2 else None
                    os.remove(cpath)
                    if kind == "D":
                        os.mkdir(cpath)
                    else:
                        with open(cpath, "wb") as fh:
                            fh.write(init[1].encode("latin-1" if kind == "G" else "utf-8"))
                    if init[0] == "stale":
                        t = os.stat(cpath).st_mtime - 7200
                        os.utime(cpath, (t, t))
                    c0 = (N0 - (10 if init[0] == "fresh" else 7200),) + tuple(init[1:])

                def cache_now():
                    ents = cache_entries(sb.proj)
                    if len(ents) > 1:
                        return ("MULTI", len(ents))
                    return fs_state(ents[0]) if ents else None
                steps, answers = [], []
                cur = c0
                for k, (policy, pin, code) in enumerate(runs):
                    sb.write(".sloc-guard.toml", 'extends = "%s"\n' % url + ('extends_sha256 = "%s"\n' % pin if pin is not None else ""))
                    stub.status = code
                    before_req = stub.requests
                    before = cache_now()
                    rc, out, err = sb.run(env["cli"], ["--color", "never", "--extends-policy", policy] + HTTP_CMDS[cmd],
                                          env={"NO_PROXY": "127.0.0.1", "no_proxy": "127.0.0.1", "RAYON_NUM_THREADS": "1"})
                    st["spawns"] += 1
                    st["evals"] += 1
                    tag = "http:%s:%s:%d" % (cmd, policy, code)
                    st["hist"][tag] = st["hist"].get(tag, 0) + 1
                    if isinstance(before, tuple):
                        st["hist"]["http:unreadable-entry:" + policy] = st["hist"].get("http:unreadable-entry:" + policy, 0) + 1
                    after = cache_now()
                    nreq = stub.requests - before_req
                    ml = None
                    if rc == 0 and cmd == "show":
                        try:
                            ml = json.loads(out)["content"]["max_lines"]
                        except (ValueError, KeyError):
                            ml = "?"
                    answers.append((rc, ml, nreq, after, err))
                    srv = ("B", GOOD) if code == 200 else (("B", EMPTY) if 200 <= code < 300 else ("F", 1))
                    steps.append((policy, N0 + k, pin, srv))
                    desc = {"level": "http", "command": " ".join(["--extends-policy", policy] + HTTP_CMDS[cmd]), "initial_cache": init, "runs": runs, "step": k,
                            "impl": {"rc": rc, "max_lines": ml, "requests": nreq, "cache_before": before, "cache_after": after, "stderr": err[-300:]}}
                    # the statement itself
                    if not (200 <= code < 300) and nreq > 0:
                        if rc != 2 or ("HTTP %d" % code) not in err:
                            st["fails"].append(dict(desc, what="the server answered HTTP %d (not 2xx) and the run did not fail with that diagnostic (exit %d)" % (code, rc)))
                        if after != before:
                            st["fails"].append(dict(desc, what="a failed fetch (HTTP %d) changed the cache: %r -> %r" % (code, before, after)))
                    if policy == "offline":
                        if nreq != 0:
                            st["fails"].append(dict(desc, what="offline policy contacted the server (%d request(s) seen by the stub; entry before the run: %r)" % (nreq, before)))
                        if after != before:
                            st["fails"].append(dict(desc, what="offline policy changed the cache: %r -> %r" % (before, after)))
                        if not isinstance(before, str) and (rc != 2 or "cache miss" not in err):
                            st["fails"].append(dict(desc, what="offline policy with a cache miss (entry %r) did not fail with the cache-miss error (exit %d)" % (before, rc)))
                    if policy == "refresh" and nreq != 1:
                        st["fails"].append(dict(desc, what="refresh policy sent %d requests (exactly one required: it never reads the cache)" % nreq))
                    if pin is not None and rc == 0 and isinstance(after, str) and sha256_hex(after) != pin and after != before:
                        st["fails"].append(dict(desc, what="content not matching extends_sha256 was cached"))
                    if code == 200 and nreq > 0 and pin in (None, g) and (rc != 0 or (cmd == "show" and ml != 100) or (after != GOOD and before != ("D",))):
                        st["fails"].append(dict(desc, what="a healthy fetch did not apply / cache the real configuration"))
                # the model's history
                def stepf(s):
                    return "%s;%d;%s;%s" % (s[0], s[1], enc_opt(s[2]), server_field(s[3]))
                m = "seq\t%s\t%s\t%s" % (cache_field(c0), ht, "\t".join(stepf(s) for s in steps))
                mo, _, _ = run_lines(env["model"], [m])
                outs_s, final = [x.strip() for x in mo[0].split("|")]
                ok = True
                for (rc, ml, nreq, after, err), o in zip(answers, [x.strip() for x in outs_s.split(";")]):
                    oc = parse_outcome(o.rsplit(" ", 1)[0])
                    n_model = int(o.rsplit(" ", 1)[1])
                    want_rc = 0 if oc[0] == "CONTENT" else 2
                    if rc != want_rc or nreq != n_model or (oc[0] == "CONTENT" and cmd == "show" and ml != limit.get(oc[1])):
                        ok = False
                if model_state(parse_cache(final)) != answers[-1][3]:
                    ok = False
                if ok:
                    st["agree"] += len(runs)
                else:
                    st["mism"].append({"level": "http", "command": cmd, "initial_cache": init, "runs": runs, "model_line": m, "model": mo[0],
                                       "impl": [(a[0], a[1], a[2], a[3]) for a in answers]})
                st["nontrivial"].add("http:" + repr((init, runs, cmd)))
    finally:
        stub.close()
    ctx.sample({"level": "http", "statuses_answered": STATUSES, "scenarios": len(scen), "commands": sorted(HTTP_CMDS), "example": {"initial_cache": scen[4][0], "runs": scen[4][1]}})
    ctx.cov["http_statuses_exercised"] = STATUSES


def run_real_server_urls(ctx, env, st):
    """Two extends URLs that differ only in the query string / the fragment / the letter case of the path, against the
    local HTTP server, through the real binary: A is fetched (normal policy); B, never fetched, is then used offline
    (must be a cache miss, no request) and under the normal policy within the hour (must ask the server for B and
    apply B's body, not the copy cached for A); A and B are then both served offline from their own entries."""
    try:
        stub = Stub()
    except OSError as e:
        raise CheckBroken("cannot open a local HTTP server: %s" % e)
    fams = [("query", "/base.toml?ref=v1", "/base.toml?ref=v2"), ("query", "/base.toml", "/base.toml?x=1"), ("query", "/base.toml?token=abc", "/base.toml"),
            ("path-case", "/base.toml", "/Base.toml"), ("path-case", "/cfg/base.toml", "/CFG/base.toml"),
            ("fragment", "/base.toml#a", "/base.toml#b"), ("fragment", "/base.toml", "/base.toml#top"), ("query+fragment", "/base.toml?ref=v1#a", "/base.toml?ref=v2#a")]
    limit = {GOOD: 100, OLD: 90}
    plan = [("A", "normal"), ("B", "offline"), ("B", "normal"), ("A", "offline"), ("B", "offline")]
    try:
        for k, (fam, ta, tb) in enumerate(fams):
            cmd = ["show", "show", "check", "show", "validate", "show", "show", "show"][k]
            with Sandbox("sgv-c18-urls-") as sb:
                base = "http://127.0.0.1:%d" % stub.port
                url = {"A": base + ta, "B": base + tb}
                wire_t = {"A": ta.split("#")[0], "B": tb.split("#")[0]}          # what reaches the server: no fragment
                same = wire_t["A"] == wire_t["B"]                                   # fragment only: one resource
                body = {"A": GOOD, "B": GOOD if same else OLD}
                stub.status = 200
                stub.routes = {wire_t["A"]: body["A"].encode(), wire_t["B"]: body["B"].encode()}
                fetched = set()
                steps, answers = [], []
                for j, (which, policy) in enumerate(plan):
                    sb.write(".sloc-guard.toml", 'extends = "%s"\n' % url[which])
                    n0, p0 = stub.requests, len(stub.paths)
                    ents0 = sorted(fs_state(e) for e in cache_entries(sb.proj))
                    rc, out, err = sb.run(env["cli"], ["--color", "never", "--extends-policy", policy] + HTTP_CMDS[cmd],
                                          env={"NO_PROXY": "127.0.0.1", "no_proxy": "127.0.0.1", "RAYON_NUM_THREADS": "1"})
                    st["spawns"] += 1
                    st["evals"] += 1
                    tag = "http-urls:%s:%s" % (fam, cmd)
                    st["hist"][tag] = st["hist"].get(tag, 0) + 1
                    nreq, seen = stub.requests - n0, stub.paths[p0:]
                    ml = None
                    if rc == 0 and cmd == "show":
                        try:
                            ml = json.loads(out)["content"]["max_lines"]
                        except (ValueError, KeyError):
                            ml = "?"
                    ents = sorted(fs_state(e) for e in cache_entries(sb.proj))
                    desc = {"level": "http-urls", "family": fam, "url_A": url["A"], "url_B": url["B"], "body_A": body["A"], "body_B": body["B"], "plan": plan, "step": j,
                            "configured": url[which], "command": " ".join(["--extends-policy", policy] + HTTP_CMDS[cmd]),
                            "impl": {"rc": rc, "max_lines": ml, "requests": nreq, "request_targets": seen, "cache_entries_after": ents, "stderr": err[-300:]}}
                    if policy == "offline":
                        if nreq != 0:
                            st["fails"].append(dict(desc, what="offline policy contacted the server"))
                        if which not in fetched and (rc != 2 or "cache miss" not in err):
                            st["fails"].append(dict(desc, what="offline policy on a URL that was never fetched (only its sibling %s was) did not fail with the cache-miss error: exit %d" % (url["A"], rc)))
                        if which in fetched and (rc != 0 or (cmd == "show" and ml != limit[body[which]])):
                            st["fails"].append(dict(desc, what="offline policy did not apply the cached body of the configured URL"))
                        if ents != ents0:
                            st["fails"].append(dict(desc, what="offline policy changed the cache"))
                    else:
                        if which not in fetched and nreq != 1:
                            st["fails"].append(dict(desc, what="normal policy on a URL without a cache entry of its own sent %d requests (1 required)" % nreq))
                        if any(t != wire_t[which] for t in seen):
                            st["fails"].append(dict(desc, what="the server was asked for %r, the configured URL is %r" % (seen, wire_t[which])))
                        if rc != 0 or (cmd == "show" and ml != limit[body[which]]):
                            st["fails"].append(dict(desc, what="the effective configuration is not the body of the configured URL (max_lines %r, required %r; exit %d)" % (ml, limit[body[which]], rc)))
                        if rc == 0 and nreq == 1:
                            fetched.add(which)
                    answers.append((rc, ml, nreq))
                    steps.append((0 if which == "A" else 1, policy, N0 + j, None, ("B", body[which])))
                if len(cache_entries(sb.proj)) != 2:
                    st["fails"].append(dict(desc, what="two URLs were fetched, the cache holds %d entries" % len(cache_entries(sb.proj))))
                # the model's history over two URLs
                m, _ = url_history_lines([url["A"], url["B"]], steps)
                mo, _, _ = run_lines(env["model"], [m])
                ok = True
                for (rc, ml, nreq), o in zip(answers, [x.strip() for x in mo[0].split("|")[0].split(";")]):
                    oc = parse_outcome(o.rsplit(" ", 1)[0])
                    if rc != (0 if oc[0] == "CONTENT" else 2) or nreq != int(o.rsplit(" ", 1)[1]) or (oc[0] == "CONTENT" and cmd == "show" and ml != limit.get(oc[1])):
                        ok = False
                if ok:
                    st["agree"] += len(plan)
                else:
                    st["mism"].append({"level": "http-urls", "family": fam, "url_A": url["A"], "url_B": url["B"], "model_line": m, "model": mo[0], "impl": answers})
                st["nontrivial"].add("http-urls:" + repr((fam, ta, tb)))
    finally:
        stub.close()
    ctx.sample({"level": "http-urls", "families": fams, "plan": plan})


def run_real_server_noroot(ctx, env, st):
    """The commands that resolve the chain without a project root (explain --sources), under every policy, over an
    absent / fresh / stale cache entry of the URL, server healthy or failing. Statement: offline never sends a request and
    fails on the cache miss (there is no cache to hit); refresh and normal send exactly one request (nothing can be read);
    the cache directory is left exactly as it was; a pin is honoured; --no-extends sends nothing."""
    try:
        stub = Stub()
    except OSError as e:
        raise CheckBroken("cannot open a local HTTP server: %s" % e)
    g = sha256_hex(GOOD)
    ht = htable()
    try:
        for cmd, argv in sorted(NOROOT_CMDS.items()):
            for init in (None, "fresh", "stale"):
                for policy in ("offline", "normal", "refresh"):
                    for (pin, code, noext) in ((None, 200, False), (None, 500, False), (g, 200, False), (sha256_hex(OLD), 200, False), (None, 200, True)):
                        if cmd != "explain-sources" and (init == "stale" or code == 500 or pin == sha256_hex(OLD)):
                            continue
                        with Sandbox("sgv-c18-noroot-") as sb:
                            url = "http://127.0.0.1:%d/base.toml" % stub.port
                            sb.write(".sloc-guard.toml", 'extends = "%s"\n' % url + ('extends_sha256 = "%s"\n' % pin if pin is not None else ""))
                            if init:
                                cpath = prime_cache(env, sb.proj, url, OLD)
                                if init == "stale":
                                    t = os.stat(cpath).st_mtime - 7200
                                    os.utime(cpath, (t, t))
                            before = sorted((fs_state(e), int(os.stat(e).st_mtime)) for e in cache_entries(sb.proj))
                            stub.status, stub.body, stub.routes = code, GOOD.encode(), {}
                            n0 = stub.requests
                            rc, out, err = sb.run(env["cli"], ["--color", "never", "--extends-policy", policy] + (["--no-extends"] if noext else []) + argv,
                                                  env={"NO_PROXY": "127.0.0.1", "no_proxy": "127.0.0.1", "RAYON_NUM_THREADS": "1"})
                            nreq = stub.requests - n0
                            after = sorted((fs_state(e), int(os.stat(e).st_mtime)) for e in cache_entries(sb.proj))
                            st["spawns"] += 1
                            st["evals"] += 1
                            tag = "http-noroot:%s:%s%s" % (cmd, policy, ":no-extends" if noext else "")
                            st["hist"][tag] = st["hist"].get(tag, 0) + 1
                            desc = {"level": "http-noroot", "command": " ".join(["--extends-policy", policy] + (["--no-extends"] if noext else []) + argv),
                                    ".sloc-guard.toml": 'extends = "%s"' % url + ("; extends_sha256 = %s" % pin if pin else ""), "cache_entry_before": init, "server_status": code,
                                    "impl": {"rc": rc, "requests": nreq, "cache_before": before, "cache_after": after, "stderr": err[-300:]}}
                            if after != before:
                                st["fails"].append(dict(desc, what="a command without a project root changed the remote cache: %r -> %r" % (before, after)))
                            if noext:
                                if nreq != 0 or rc != 0:
                                    st["fails"].append(dict(desc, what="--no-extends: the leaf alone is loaded, %d request(s) sent, exit %d" % (nreq, rc)))
                                else:
                                    st["agree"] += 1
                                continue
                            # the model: fetch on the absent cache
                            srv = ("B", GOOD) if code == 200 else ("F", 1)
                            m = "fetch\t%s\t%d\t!\t%s\t%s\t%s" % (policy, N0, enc_opt(pin), server_field(srv), ht)
                            mo, _, _ = run_lines(env["model"], [m])
                            o, _, n_model = parse_fetch_out(mo[0])
                            if (0 if o[0] == "CONTENT" else 2) != rc or n_model != nreq:
                                st["mism"].append(dict(desc, model=mo[0], model_line=m))
                            else:
                                st["agree"] += 1
                            if policy == "offline":
                                if nreq != 0:
                                    st["fails"].append(dict(desc, what="offline policy contacted the server (%d request(s) seen by the stub)" % nreq))
                                if rc != 2 or "cache miss" not in err:
                                    st["fails"].append(dict(desc, what="offline policy without a usable cache did not fail with the cache-miss error (exit %d)" % rc))
                            else:
                                if nreq != 1:
                                    st["fails"].append(dict(desc, what="%s policy sent %d requests (exactly one required)" % (policy, nreq)))
                                want = 0 if (code == 200 and pin in (None, g)) else 2
                                if rc != want:
                                    st["fails"].append(dict(desc, what="exit %d, required %d (server %d, pin %s)" % (rc, want, code, "matching" if pin == g else ("none" if pin is None else "of another body"))))
                                elif want == 0 and "100" not in out:
                                    st["fails"].append(dict(desc, what="the remote body (max_lines = 100) does not show in the output"))
                            st["nontrivial"].add("http-noroot:" + repr((cmd, init, policy, pin, code)))
    finally:
        stub.close()
    ctx.sample({"level": "http-noroot", "commands": sorted(NOROOT_CMDS), "policies": ["offline", "normal", "refresh"], "cache_entry": [None, "fresh", "stale"]})


def run_real_server_bytes(ctx, env, st):
    """The served BYTES (fix D170): the content that takes effect and is cached is byte for byte what the server sent, and a
    pin is accepted iff it is the SHA-256 of those bytes. Bodies that a lossy decode would alter: an invalid byte inside
    a comment, a multi-byte character cut at the end, a Latin-1 body declared as such, a valid multi-byte body (control)."""
    import hashlib
    try:
        stub = Stub()
    except OSError as e:
        raise CheckBroken("cannot open a local HTTP server: %s" % e)
    tail = b"[content]\nmax_lines = 77\n"
    bodies = [("invalid byte 0xFF in a comment", b"# caf\xff\n" + tail, "text/plain; charset=utf-8"),
              ("invalid byte, no charset declared", b"# caf\xff\n" + tail, "application/octet-stream"),
              ("multi-byte character cut at the end", tail + b"# \xe2\x82", "text/plain; charset=utf-8"),
              ("Latin-1 body declared as iso-8859-1", b"# caf\xe9\n" + tail, "text/plain; charset=iso-8859-1"),
              ("UTF-16 declared, ASCII bytes", b"# plain\n" + tail, "text/plain; charset=utf-16le"),
              ("valid multi-byte UTF-8 (control)", "# caf\u00e9 \u2713\n".encode("utf-8") + tail, "text/plain; charset=utf-8"),
              ("valid UTF-8, no content type charset (control)", "# \u00fcber\n".encode("utf-8") + tail, "text/plain")]
    try:
        for label, raw, ctype in bodies:
            lossy = raw.decode("utf-8", "replace").encode("utf-8")
            valid = True
            try:
                raw.decode("utf-8")
            except UnicodeDecodeError:
                valid = False
            pins = [("none", None), ("sha256 of the served bytes", hashlib.sha256(raw).hexdigest())]
            if lossy != raw:
                pins.append(("sha256 of the lossily decoded text (never served)", hashlib.sha256(lossy).hexdigest()))
            for cmd in ("show", "check"):
                for plabel, pin in pins:
                    with Sandbox("sgv-c18-bytes-") as sb:
                        url = "http://127.0.0.1:%d/base.toml" % stub.port
                        sb.write(".sloc-guard.toml", 'extends = "%s"\n' % url + ('extends_sha256 = "%s"\n' % pin if pin else ""))
                        stub.status, stub.body, stub.routes, stub.ctype = 200, raw, {}, ctype
                        rc, out, err = sb.run(env["cli"], ["--color", "never"] + HTTP_CMDS[cmd], env={"NO_PROXY": "127.0.0.1", "no_proxy": "127.0.0.1", "RAYON_NUM_THREADS": "1"})
                        st["spawns"] += 1
                        st["evals"] += 1
                        st["hist"]["http-bytes:" + label] = st["hist"].get("http-bytes:" + label, 0) + 1
                        cached = [open(e, "rb").read() for e in cache_entries(sb.proj) if os.path.isfile(e)]
                        desc = {"level": "http-bytes", "body": label, "served_bytes": repr(raw), "content_type": ctype, "extends_sha256": plabel, "command": " ".join(HTTP_CMDS[cmd]),
                                "impl": {"rc": rc, "cached_bytes": [repr(c) for c in cached], "stderr": err[-300:]}}
                        ok = True
                        if rc == 0 and pin is not None and hashlib.sha256(raw).hexdigest() != pin:
                            st["fails"].append(dict(desc, what="integrity: the server sent bytes with SHA-256 %s, extends_sha256 = %s was accepted" % (hashlib.sha256(raw).hexdigest(), pin)))
                            ok = False
                        if cached and cached != [raw]:
                            st["fails"].append(dict(desc, what="the cache holds content the server never sent (%r instead of the served bytes)" % cached))
                            ok = False
                        if rc != 0 and cached:
                            st["fails"].append(dict(desc, what="a rejected body was written to the cache"))
                            ok = False
                        if valid and (pin is None or pin == hashlib.sha256(raw).hexdigest()) and (rc != 0 or cached != [raw]):
                            st["fails"].append(dict(desc, what="a valid UTF-8 body with %s was not applied and cached (exit %d)" % (plabel if pin else "no pin", rc)))
                            ok = False
                        if not valid and rc == 0:
                            st["fails"].append(dict(desc, what="a body that is not UTF-8 took effect: the effective configuration is a text the server never sent"))
                            ok = False
                        if ok:
                            st["agree"] += 1
                            st["nontrivial"].add("http-bytes:" + label + plabel + cmd)
    finally:
        stub.close()
    ctx.sample({"level": "http-bytes", "bodies": [b[0] for b in bodies]})


# ------------------------------------------------------------------ vm_compute cross-check

def xcheck(ctx, env, k):
    """A sub-sample of table rows inside Coq with an injective toy H (the model is parametric in H):
    compared with the extracted driver under the same H."""
    rows = [r for r in table_rows() if r[3] in (None, sha256_hex(GOOD), sha256_hex(OLD))]
    ctx.rng.shuffle(rows)
    rows = rows[:k]
    names = list(BODIES.values())
    toy = {b: "h%d" % i for i, b in enumerate(names)}
    ht = ";".join("%s=%s" % (enc(b), enc(h)) for b, h in toy.items())

    def cstr(s):
        return "[" + ";".join(str(ord(c)) for c in s) + "]"
    hdef = "Definition toyH (b : str) : str := " + " ".join("if str_eqb b %s then %s else" % (cstr(b), cstr(h)) for b, h in toy.items()) + " []."
    pol = {"normal": "Normal", "offline": "Offline", "refresh": "Refresh"}
    exprs, mls = [], []
    for (p, now, c, e, s) in rows:
        e2 = None if e is None else toy[GOOD if e == sha256_hex(GOOD) else OLD]
        kind = "EText" if readable(c) else ("EDir" if is_dir(c) else "EGarbled")
        cc = "None" if c is None else "(Some {| c_body := %s; c_mtime := %d; c_kind := %s |})" % (cstr(c[1]), c[0], kind)
        ee = "None" if e2 is None else "(Some %s)" % cstr(e2)
        ss = "(SBody %s)" % cstr(s[1]) if s[0] == "B" else "(SFail %d)" % s[1]
        exprs.append("match fetch toyH %s %d %s %s %s with (o, c, n) => "
                     "(match o with OContent s => 1 :: s | OMismatch a => 2 :: a | OMiss => [3] | OFail k => [4; k] end) ++ [9999] ++ "
                     "(match c with None => [0] | Some e => (match c_kind e with EText => 1 | EGarbled => 2 | EDir => 3 end) :: c_mtime e :: c_body e end) ++ [9999; n] end" % (pol[p], now, cc, ee, ss))
        mls.append("fetch\t%s\t%d\t%s\t%s\t%s\t%s" % (p, now, cache_field(c), enc_opt(e2), server_field(s), ht))
    res = coq_eval("From Coq Require Import NArith List.\nFrom SG Require Import Config.Toml Config.Remote.\nImport ListNotations. Open Scope N_scope.\n" + hdef, exprs)
    mouts, _, _ = run_lines(env["model"], mls)
    bad = 0
    for r, mo in zip(res, mouts):
        nums = [int(x) for x in re.findall(r"\d+", r)]
        o, c, n = parse_fetch_out(mo)
        exp = {"CONTENT": lambda: [1] + [ord(ch) for ch in o[1]], "MISMATCH": lambda: [2] + [ord(ch) for ch in o[1]],
               "MISS": lambda: [3], "FAIL": lambda: [4, o[1]]}[o[0]]()
        exp += [9999] + ([0] if c is None else [1 if readable(c) else (3 if is_dir(c) else 2), c[0]] + [ord(ch) for ch in c[1]]) + [9999, n]
        if nums != exp:
            bad += 1
    ctx.cov["extraction_crosscheck"] = {"cases": len(rows), "disagreements": bad}
    if bad or len(res) != len(rows):
        raise CheckBroken("extracted OCaml and vm_compute disagree on %d/%d cases" % (bad, len(rows)))


# ------------------------------------------------------------------ entry points

def run(ctx):
    env = prepare_config(ctx, need_cli=True)
    proofs_ok = proofs_step(ctx, PROP_FILES)
    st = {"hist": {}, "evals": 0, "agree": 0, "mism": [], "fails": [], "known": 0, "nontrivial": set(), "spawns": 0}
    # sha2 vs hashlib, TTL constant of the model vs the crate's behaviour at the boundary (rows 3599 / 3600)
    outs, _, _ = run_lines(env["impl"], ["hash\t" + enc(b) for b in BODIES.values()], args=["run"])
    if [dec(o) for o in outs] != [sha256_hex(b) for b in BODIES.values()]:
        raise CheckBroken("compute_content_hash and hashlib.sha256 disagree")
    run_table(ctx, env, st, real=False)
    run_table(ctx, env, st, real=True)
    run_sequences(ctx, env, st, 1500 if ctx.tier == "quick" else 20000)
    run_url_sequences(ctx, env, st, 1200 if ctx.tier == "quick" else 15000)
    run_crashes(ctx, env, st)
    run_cli_pins(ctx, env, st)
    run_real_server(ctx, env, st)
    run_real_server_urls(ctx, env, st)
    run_real_server_noroot(ctx, env, st)
    run_real_server_bytes(ctx, env, st)
    ctx.cov["extends_sha256_values_exercised"] = [{"label": l, "value": v} for l, v in pins()]
    xcheck(ctx, env, 40 if ctx.tier == "quick" else 300)
    ctx.cov["evaluations"] = st["evals"]
    ctx.cov["distinct_nontrivial"] = len(st["nontrivial"])
    ctx.cov["traces_validated_against_impl"] = st["agree"]
    ctx.cov["model_vs_impl_mismatches"] = len(st["mism"])
    ctx.cov["child_process_spawns"] = st["spawns"]
    ctx.cov["exhaustive"] = True
    ctx.cov["input_distribution"] = st["hist"]
    ctx.cov["rule"] = ("exhaustive product policy(normal, offline, refresh) x cache(absent; ages 10, 3599, 3600, 7200, future x bodies matching, other, truncated, empty; "
                       "fresh / stale x entries that exist but cannot be read: a file torn inside a multi-byte character, a file of invalid UTF-8 bytes, a directory at the entry path) x "
                       "extends_sha256(11 values: absent, the correct digest, the digest of the old body, the empty string, prefixes of the correct digest of 1 / 4 / 32 / 63 hex digits, "
                       "the correct digest in upper case, the digest plus one character, 64 characters differing in the last one - the model compares the pin by equality, so all but the "
                       "exact digest are mismatches) x server(correct body, altered body, connection error, time-out) = 3564 rows under the "
                       "simulated clock (SGV_NOW) plus the rows away from the TTL boundary under the wall clock (cache file aged with set_modified); seeded histories of 2-4 fetches "
                       "sharing one cache file with an advancing clock and the same pin values; seeded histories of 3-8 fetches over 2-4 URLs of one family (URLs differing only in the query string, "
                       "the fragment, the letter case of the path, combinations, and trailing slash / scheme / port / percent-encoding) sharing one initially empty cache directory, each URL with bodies of its own "
                       "(oracle per URL: offline on a URL that was never fetched is a miss without a request, the content is a body served for the configured URL, the client is asked for the "
                       "configured URL, one entry per fetched URL) and the same two-URL shape for 8 URL pairs through the real binary against the local HTTP server; the pin through the CLI (leaf.toml with extends_sha256, cached remote, --extends-policy offline, 10 string pin values and 5 pins that are not strings); the production client (reqwest) through the real binary against a local HTTP "
                       "server on 127.0.0.1 answering each of 200, 204, 300, 301 (no Location), 304, 400, 404, 500, 503, followed by a healthy run, plus offline / refresh / pinned scenarios, unreadable entries under every policy and the commands config show / config validate / check "
                       "(requests counted by the server: offline 0, refresh exactly 1), also explain <path> / stats summary / snapshot; explain --sources (its loader has no project root, hence no cache: offline 0 requests and a cache-miss error "
                       "over an absent / fresh / stale entry, normal and refresh exactly 1 request, cache untouched, pins honoured, --no-extends 0 requests); served bodies that a lossy decode would alter (invalid byte, cut multi-byte "
                       "character, declared Latin-1 / UTF-16) with the pin of the served bytes, the pin of the decoded text, and no pin: what takes effect and is cached is byte for byte what was served; every named hook point of the cache write killed in a child process (SGV_CRASH_AT) for 16 scenarios, each "
                       "followed by three second runs with the server unreachable. Observables: returned content or error kind, requests seen by the scripted client, cache bytes "
                       "and mtime afterwards. Every row: impl vs extracted model, impl vs the python reading of the C18 statement. "
                       "non-trivial = distinct row with a cache entry or a pinned hash, every history, every (scenario, kill point) that was reached")
    ctx.cov["trusted_base"] = TRUSTED_COMMON + [
        "scripted HttpClient of the harness stands for reqwest in the table (connection error and time-out are both Err values of the trait); the status handling of ReqwestClient::get is exercised by the real-server leg, TLS and real time-outs are not",
        "clock virtualisation: SGV_NOW for the TTL test; a cache file written during a simulated-clock run is re-stamped with the simulated time by the harness",
        "sha2 (SHA-256) is an uninterpreted function H in the theorems; the run checks it against hashlib",
        "rename(2) atomicity and the ordering of file-system effects as observed after SIGABRT (no power-loss model)"]
    ctx.assumptions = ["a project root is present (every command but explain --sources passes one); without it the cache is neither read nor written: fetch on the absent cache, result not stored (RemoteUrls.fetch_noroot), exercised by the http-noroot leg",
                       "cache write errors other than a kill (disk full, permissions) are ignored by the code and not modelled"]
    # at most two replays per level, so that a defect seen at several levels is reported at each
    shown, per = [], {}
    for f in st["fails"]:
        if per.get(f.get("level"), 0) < 2 and len(shown) < 8:
            per[f.get("level")] = per.get(f.get("level"), 0) + 1
            shown.append(f)
    ctx.cov["oracle_failures_by_level"] = {}
    for f in st["fails"]:
        ctx.cov["oracle_failures_by_level"][f.get("level")] = ctx.cov["oracle_failures_by_level"].get(f.get("level"), 0) + 1
    for f in shown:
        ctx.violation(dict(f, kind="property-oracle", replay_cmd="python3 tools/vp.py check C18 --replay <this file>"))
    if not st["fails"]:
        if st["mism"]:
            ctx.violation({"kind": "correspondence-broken", "relation": "sgv-config fetch (fetch_remote_config_with_client) == extracted Config.Remote.fetch",
                           "first_mismatch": st["mism"][0], "mismatches": len(st["mism"]),
                           "note": "the model no longer describes the code, so theorems C18_* no longer transfer; no input violating C18 itself was found among %d cases" % st["evals"]},
                          no_input=True)
        elif not proofs_ok:
            ctx.violation({"kind": "proof-broken", "details": ctx.proof_broken}, no_input=True)


def replay(ctx, path):
    j = json.load(open(path))
    env = prepare_config(ctx)
    f = j.get("first_mismatch", j)
    if "model_line" in f:
        ml = f["model_line"]
        il = "\t".join(ml.split("\t")[:-1]) if ml.startswith("fetch") else "\t".join([x for k, x in enumerate(ml.split("\t")) if k != 2])
        print("impl :", run_lines(env["impl"], [il], args=["run"])[0])
        print("model:", run_lines(env["model"], [ml])[0])
    else:
        print(json.dumps(f, indent=1)[:3000])
    return 0
