"""C06 -- directory counts are exact; structure limits come from the last matching rule."""
from gen_structure import *  # noqa

PROP_FILES = ["Structure/Properties_C06.v"]
MANIFEST = dict(
    technique="Coq proof (commuting per-entry updates + induction over the tree; case analysis of the limit check) on a Gallina model of StructureScanState / StructureChecker, glob answers entering as oracle columns; tied by differential execution on real directory trees (both scanner back-ends, library pipeline and the real CLI) and on arbitrary DirStats maps",
    text="Theorems C06_counts_exact (for every tree with distinct sibling names and EVERY processing order of the walked entries the dir_stats map equals the true counts), C06_order_independent, C06_fail_iff, C06_zero_forbids, C06_unlimited_disables, C06_warn_iff, C06_last_rule_wins_with_inheritance, C06_relative_depth (components of the normalised directory path minus the scope's literal prefix, fixes/D47), C06_relative_depth_root_independent, C06_walk_depth_vs_project_depth, C06_explain_same_limits, C06_file_root_has_no_stats (a file given as scan root leaves no directory record, fixes/D130) hold without bounds; several scan roots collapse to the outermost ones (Structure/Roots.v, theorems C07_roots_*, fixes/D50) so one directory has one record. The tie to the Rust code: generated trees (width<=12, depth<=7, hidden entries, empty dirs, symlinks/FIFOs, ignored and excluded subtrees, count_exclude) x generated [structure] configurations, observed through the library pipeline (full dir_stats), `check --format json` and `explain --format json`, compared with the extracted model, with the generator's own count of the tree it built and with the Coq spec of the verdicts.",
    note="Trusted: Coq kernel, extraction, harness sgv-structure (oracle columns are computed with the real compiled globset matchers of the real configuration), python generators. Not modelled: walkdir/ignore traversal and .gitignore semantics (the ignored set enters as data and is cross-checked against the generator's reading of the few ignore forms it writes), f64 parsing of TOML, absolute scan roots other than as superfluous extra roots (the roots walked are `t` and `./t`; requests of several roots at or below t in all spellings, and resolve_scan_paths on arbitrary requests, are covered; since fixes/D07 every pattern site matches the normalised path and the check holds both spellings, `./`-spelled scopes, excludes and DirStats keys to the same answers).",
    ref="5 (C06)")

FLAVOURS = ["limits"] * 5 + ["probe"] * 2 + ["mix"] * 2 + ["placement"]


def nontrivial(c, ev):
    t = ev["tags"]
    return bool(t & {"boundary", "rule-matched"}) or any(x.startswith(("warn:", "fail:")) for x in t)


def run(ctx):
    quick = ctx.tier == "quick"
    run_structure(ctx, "C06", PROP_FILES, FLAVOURS, 2000 if quick else 12000, 5 if quick else 6, 3000 if quick else 20000, nontrivial)
    ctx.cov["rule"] = ("seeded generator: real directory trees under a sandbox (scan root spelled `t` or `./t`; scopes, excludes and DirStats keys also written with a leading `./`; width<=12, depth<=7; hidden names, empty dirs, symlinks to file/dir/nothing, FIFOs; "
                       ".gitignore files with name/extension/anchored/dir-only forms; scanner.exclude and count_exclude patterns of nine forms, among them separator-free patterns that match an entry by its path and not by its name: *gen*, t?gen*, t*.rs) x [structure] configurations "
                       "(global and per-rule limits placed within +-2 of real figures, -1/0, warn_*_at, percentage thresholds, overlapping scopes, relative_depth, 6% rejected configurations), command-line -x/--exclude patterns (35%), requests of several scan roots (22%), "
                       ".gitignore files in the project directory ABOVE the scan root (30%), count-excluded empty directories, scopes written with a trailing separator; run through the library pipeline with both back-ends, every 5th also through `sgcli check` + `explain`; a scanned file of 60 cases given as the only scan root on the real CLI (no directory result may appear, fixes/D130); plus StructureChecker::check on arbitrary DirStats maps with "
                       "figures at limit-1/limit/limit+1 and around every warn point. non-trivial = distinct case in which a directory lies within +-1 of an applicable limit, is matched by a rule, "
                       "or a limit violation/warning is produced")
    ctx.cov["trusted_base"] = TRUSTED_COMMON + [
        "oracle columns: glob answers (scope, scanner.exclude, count_exclude) are computed by sgv-structure with the real compiled matchers and handed to the model as data",
        "walkdir / ignore traversal and .gitignore semantics are not modelled: the set of yielded entries is data, cross-checked against the generator's own expectation",
        "binary64 product and ceiling through Coq.Floats.SpecFloat (no axioms); TOML float parsing trusted"]
    ctx.assumptions = ["sibling names in a directory are pairwise distinct (file-system invariant; hypothesis wf_tree of C06_counts_exact)",
                       "the walked scan root is relative, spelled `t` or `./t` (absolute roots: property C08); further requested roots (other spellings of t, directories and files below it, absolute spellings for the real CLI) must be dropped by resolve_scan_paths; disjoint walked roots are covered at the level of resolve_scan_paths only (theorem C07_roots_walks_disjoint: their walks share no path)",
                       "the scan root itself is not matched by scanner.exclude"]


def replay(ctx, path):
    return replay_structure(ctx, path)
