"""C16 -- config inheritance is a deterministic left fold and always terminates."""
import json
import os
import re
from gen_config import *  # noqa
from gen_config import _ext_of

PROP_FILES = ["Config/Properties_C16.v"]
MANIFEST = dict(
    technique="Coq proof (fuel measure MAX+1-depth, induction over the member chain, nested induction over TOML values) on a Gallina port of merge.rs + extends.rs + the value-level half of loader.rs, tied by differential execution of the extracted model against the re-exported merge functions, the real ExtendsResolver over an in-memory file system, and the real CLI (config show) on generated reference graphs in a temp file system",
    text="Theorems C16_terminates, C16_is_left_fold, C16_is_left_fold_finalized, C16_merge_{child_scalar_overrides,kind_mismatch_overrides,arrays,tables}, C16_strip_commutes, C16_no_marker_survives, C16_misplaced_marker_rejected, C16_malformed_inheritance_key_rejected, C16_alias_{renamed_to_canonical,key_gone,other_keys_kept,idempotent}, C16_cycle_or_depth_names_chain, C16_no_extends_is_leaf, C16_flatten_equivalent hold for every file system / preset table / remote fetch result and every value (unbounded). The tie to the Rust code is a seeded differential run at three levels (value operations, resolver over an in-memory FS, CLI on a real temp FS incl. symlinks, presets, offline remote cache) plus the independent python fold oracle and the chain-vs-flattened-file metamorphic run.",
    note="Trusted: Coq kernel, extraction, harness sgv-config (its load_top replicates the ten value-level lines of FileConfigLoader::load_from_path; the CLI runs cover the real loader), the toml crate (parse / serialise / typed re-parse are not modelled: covered by the metamorphic run only). Termination of the Rust recursion is observed, the theorem is about the model.",
    ref="5 (C16)")

URL_CLI = "https://example.invalid/sgv/cli-remote.toml"


# ------------------------------------------------------------------ level 1: value operations

def value_lines(ctx, n):
    rng = ctx.rng
    cases = []   # (line, tag, spec or None)
    b, c = d25_pair()
    cases.append(("merge\t%s\t%s" % (wire(b), wire(c)), "corpus-d25-merge", wire(dmerge(b, c))))
    cases.append(("validate\t" + wire(c), "corpus-d25-validate", "ERR"))
    for _ in range(n):
        r = rng.random()
        if r < 0.45:
            a, b = rand_pair(rng)
            cases.append(("merge\t%s\t%s" % (wire(a), wire(b)), "merge", wire(dmerge(a, b))))
        elif r < 0.55:
            a, b = rand_value(rng, 1, "a"), rand_value(rng, 1, "a")
            cases.append(("marr\t%s\t%s" % (wire(a), wire(b)), "merge_arrays", wire(dmerge(a, b))))
        elif r < 0.65:
            a = rng.choice([marker(rng), near_marker(rng), rand_value(rng, 2)])
            cases.append(("isreset\t" + wire(a), "is_reset_element", "1" if is_reset(a) else "0"))
        elif r < 0.75:
            a = rand_value(rng, 0, rng.choice(["t", "a"]))
            cases.append(("strip\t" + wire(a), "strip", wire(strip_markers(a))))
        elif r < 0.82:
            a = rand_value(rng, 0, rng.choice(["t", "a"]))
            cases.append(("hasany\t" + wire(a), "has_any", "1" if has_any_marker(a) else "0"))
        elif r < 0.92:
            a = rand_value(rng, 0, rng.choice(["t", "a"]))
            cases.append(("validate\t" + wire(a), "validate", "ERR" if misplaced(a) else "OK"))
        else:
            vs = [config_doc(rng) for _ in range(rng.randint(2, 5))]
            acc = vs[0]
            for v in vs[1:]:
                acc = dmerge(acc, v)
            cases.append(("fold\t" + "\t".join(wire(v) for v in vs), "fold", wire(acc)))
    return cases


def run_values(ctx, env, n, st):
    cases = value_lines(ctx, n)
    lines = [c[0] for c in cases]
    iouts, ierrs = run_sharded(env["impl"], lines, args=["run"])
    mouts, merrs = run_sharded(env["model"], lines)
    if merrs:
        raise CheckBroken("model driver failed: %s" % merrs[:1])
    for (line, tag, spec), io, mo in zip(cases, iouts, mouts):
        st["hist"][tag] = st["hist"].get(tag, 0) + 1
        st["evals"] += 1
        if io in ("PANIC", "<NOANSWER>"):
            st["fails"].append({"level": "value", "line": line, "impl": io, "what": "panic / no answer"})
            continue
        if io != mo:
            st["mism"].append({"level": "value", "line": line, "impl": io, "model": mo})
        else:
            st["agree"] += 1
        ispec = io.split(" ")[0] if tag.endswith("validate") else io
        if ispec != spec:
            st["fails"].append({"level": "value", "line": line, "impl": io, "spec": spec,
                                "what": "%s disagrees with the documented semantics" % tag})
        # non-trivial: a merge that really combines, or a marker somewhere
        f = line.split("\t")
        if tag in ("merge", "merge_arrays", "fold", "corpus-d25-merge"):
            if io != f[-1] and io != f[1]:
                st["nontrivial"].add(line)
        elif enc(RESET) in line:
            st["nontrivial"].add(line)
    if len(ctx.cov["samples"]) < 2:
        for (line, tag, spec), io in list(zip(cases, iouts))[2:4]:
            ctx.sample({"level": "value", "case": line.replace("\t", " | ")[:400], "impl_and_model": io[:300]})
    return cases, mouts


# ------------------------------------------------------------------ level 2: resolver over an in-memory FS

def run_resolve(ctx, env, n, st):
    rng = ctx.rng
    presets = env["presets"]
    worlds = []
    # corpus: the D25 witness as a two-file chain, a self loop, a 12-chain
    b, c = d25_pair()
    for (bb, cc, tag) in [(b, c, "corpus-d25-chain")]:
        w = World()
        w.presets = dict(presets)
        cc = ("t", dict(cc[1]))
        cc[1]["extends"] = ("s", "base.toml")
        add_file(w, rng, "/w/leaf.toml", "/w/leaf.toml", cc)
        add_file(w, rng, "/w/base.toml", "/w/base.toml", bb)
        worlds.append((w, "/w/leaf.toml", False, tag))
    for _ in range(n):
        r = rng.random()
        docgen = (lambda g: config_doc(g)) if r < 0.6 else (lambda g: rand_value(g, 1, "t"))
        w, leaf, tag = gen_world(rng, presets, docgen)
        no_ext = rng.random() < 0.12
        worlds.append((w, leaf, no_ext, tag + ("+noext" if no_ext else "")))
    mlines, ilines = [], []
    for (w, leaf, no_ext, tag) in worlds:
        m, i = resolve_lines(w, leaf, no_ext)
        mlines.append(m)
        ilines.append(i)
    iouts, ierrs = run_sharded(env["impl"], ilines, args=["run"])
    mouts, merrs = run_sharded(env["model"], mlines)
    if merrs:
        raise CheckBroken("model driver failed: %s" % merrs[:1])
    for (w, leaf, no_ext, tag), io, mo, ml in zip(worlds, iouts, mouts, mlines):
        st["hist"]["resolve:" + tag] = st["hist"].get("resolve:" + tag, 0) + 1
        vp_ = version_profile(w)
        if vp_:
            st["hist"]["resolve:" + vp_] = st["hist"].get("resolve:" + vp_, 0) + 1
        st["evals"] += 1
        if io in ("PANIC", "<NOANSWER>") or mo == "OUTOFFUEL":
            st["fails"].append({"level": "resolve", "case": ml, "impl": io, "model": mo, "what": "panic / no answer / model out of fuel"})
            continue
        if norm_res(io) != norm_res(mo):
            st["mism"].append({"level": "resolve", "case": ml, "impl": io, "model": mo})
        else:
            st["agree"] += 1
        sl = spec_line(spec_resolve(w, leaf, no_ext, env["maxd"]))
        if coarse(norm_res(io)) != coarse(sl) and io.startswith("ERR Reset") and marker_inside_inheritance_keys(w):
            st["hist"]["resolve:not-judged(marker inside extends value)"] = st["hist"].get("resolve:not-judged(marker inside extends value)", 0) + 1
        elif coarse(norm_res(io)) != coarse(sl):
            k = known_class(ctx, w, leaf, no_ext, io, sl)
            if k is None:
                st["fails"].append({"level": "resolve", "case": ml, "impl": io, "spec": sl,
                                    "what": "effective configuration differs from finalize(fold_left dmerge chain) / required error"})
            else:
                st["known"].append((k, ml, io, sl))
        if io.startswith("ERR Circular") or io.startswith("ERR TooDeep") or (io.startswith("OK") and len(w.files) >= 2):
            st["nontrivial"].add(ml)
    for (w, leaf, no_ext, tag), io, ml in list(zip(worlds, iouts, mlines))[1:3]:
        ctx.sample({"level": "resolve", "tag": tag, "leaf": leaf, "no_extends": no_ext,
                    "files": {p: (w.texts.get(p, "<missing>")) for p in w.files}, "impl_and_model": io[:300]})


def known_class(ctx, w, leaf, no_ext, io, sl):
    """impl vs spec disagreement -> name of a class listed in known_findings/C16.json, or None.
    No class is open: D25 and D28 are repaired (see the fixed entries)."""
    return None


# ------------------------------------------------------------------ level 3: the CLI on a real file system

def cli_world(sb, rng, presets, kind, env):
    """Create files under the sandbox, return (World as seen from cwd=proj, leaf spelling, tag, policy args)."""
    proj = os.path.realpath(sb.proj)
    other = os.path.join(os.path.realpath(sb.base), "other")
    dirs = [proj, proj + "/sub", proj + "/sub/deep", other]
    for d in dirs:
        os.makedirs(d, exist_ok=True)
    sb.write(".sloc-guard.toml", "")           # project-root marker (never loaded: -c is always given)
    nodes = {}
    links = []
    tag = kind
    docgen = versioned(rng, lambda g: config_doc(g, markers=True))
    remote = None
    if kind == "chain":
        n = rng.choice([1, 2, 3, 4, 6, 9, 10, 11, 12])
        tag = "chain-%d" % n
        names = ["%s/f%d.toml" % (rng.choice(dirs), i) for i in range(n)]
        for i, p in enumerate(names):
            v = docgen(rng)
            if i + 1 < n:
                v[1]["extends"] = ("s", relref(rng, p, names[i + 1]))
            elif rng.random() < 0.3:
                v[1]["extends"] = ("s", "preset:" + rng.choice(PRESET_NAMES))
                tag += "+preset"
            nodes[p] = v
        leaf = names[0]
    elif kind == "case":
        # acyclic chain over files whose paths differ only in letter case (file and directory names)
        pool = [proj + "/shared/Base.toml", proj + "/shared/base.toml", proj + "/shared/BASE.toml", proj + "/Shared/base.toml",
                proj + "/SHARED/Base.toml", proj + "/leaf.toml", proj + "/Leaf.toml", other + "/LEAF.toml", other + "/leaf.toml"]
        n = rng.randint(2, 6)
        names = rng.sample(pool, n)
        tag = "case-%d" % n
        for i, p in enumerate(names):
            v = docgen(rng)
            if i + 1 < n:
                v[1]["extends"] = ("s", relref(rng, p, names[i + 1]))
            elif rng.random() < 0.25:
                v[1]["extends"] = ("s", relref(rng, p, names[0]))
                tag += "+cycle"
            nodes[p] = v
        leaf = names[0]
    elif kind == "graph":
        n = rng.randint(1, 5)
        names = ["%s/g%d.toml" % (rng.choice(dirs), i) for i in range(n)]
        for p in names:
            v = docgen(rng)
            if rng.random() < 0.85:
                v[1]["extends"] = ("s", relref(rng, p, rng.choice(names)))
            nodes[p] = v
        leaf = names[0]
    elif kind == "symlink":
        real = proj + "/sub/real.toml"
        leafp = proj + "/leaf.toml"
        v = docgen(rng)
        v[1]["extends"] = ("s", rng.choice(["link.toml", "./link.toml", proj + "/link.toml", "dlink/real.toml"]))
        b = docgen(rng)
        r = rng.random()
        if r < 0.4:
            b[1]["extends"] = ("s", "../leaf.toml")          # cycle through the link: relative to the link's own directory
        elif r < 0.7:
            b[1]["extends"] = ("s", leafp)
        nodes[leafp] = v
        nodes[real] = b
        links = [(proj + "/link.toml", "sub/real.toml"), (proj + "/dlink", "sub")]
        leaf = leafp
    elif kind == "remote":
        leafp = proj + "/leaf.toml"
        v = docgen(rng)
        v[1]["extends"] = ("s", URL_CLI)
        rv = docgen(rng)
        text = toml_text(rv, rng)
        r = rng.random()
        if r < 0.4:
            v[1]["extends_sha256"] = ("s", sha256_hex(text))
        elif r < 0.55:
            v[1]["extends_sha256"] = ("s", "f" * 64)
        elif r < 0.7:
            v[1]["extends_sha256"] = rng.choice([("i", 12345), ("b", True), ("a", [("s", sha256_hex(text))])])     # D66
            tag = "remote+nonstring-pin"
        remote = (URL_CLI, text if rng.random() < 0.9 else None, rv)
        nodes[leafp] = v
        leaf = leafp
    elif kind == "badkey":
        # D66 / D68: an inheritance key that is present but not a string, in the leaf or in its base
        leafp, basep = proj + "/leaf.toml", proj + "/sub/base.toml"
        v, b = docgen(rng), docgen(rng)
        bad = rng.choice([("i", 5), ("b", True), ("a", [("s", "sub/base.toml")]), ("t", {"path": ("s", "sub/base.toml")}), ("f", fbits(0.5))])
        where = rng.choice(["leaf-extends", "leaf-pin", "base-extends", "base-pin"])
        tag = "badkey-" + where
        if where == "leaf-extends":
            v[1]["extends"] = bad
        else:
            v[1]["extends"] = ("s", relref(rng, leafp, basep))
            if where == "leaf-pin":
                v[1]["extends_sha256"] = bad
            elif where == "base-extends":
                b[1]["extends"] = bad
            else:
                b[1]["extends_sha256"] = bad
        nodes[leafp] = v
        nodes[basep] = b
        leaf = leafp
    else:  # preset
        leafp = proj + "/leaf.toml"
        v = docgen(rng)
        v[1]["extends"] = ("s", "preset:" + rng.choice(PRESET_NAMES + ["no-such"]))
        nodes[leafp] = v
        leaf = leafp
    w = World()
    w.presets = dict(presets)
    texts = {}
    for p, v in nodes.items():
        texts[p] = toml_text(v, rng)
        sb.write(p, texts[p], base="/")
    for (lnk, target) in links:
        os.symlink(target, lnk)
    if remote:
        url, text, rv = remote
        w.remotes[url] = text
        if text is not None:
            w.rvalues[url] = ("V", rv)
            prime_cache(env, sb.proj, url, text)       # the offline cache, filled through the real fetch path
    # leaf spelling relative to cwd = proj, or absolute
    spell = leaf
    if leaf.startswith(proj + "/") and rng.random() < 0.6:
        spell = leaf[len(proj) + 1:]
        if rng.random() < 0.3:
            spell = "./" + spell
    cur = spell
    seen = set()
    for _ in range(20):
        if cur in seen:
            break
        seen.add(cur)
        absolute = cur if cur.startswith("/") else os.path.join(proj, cur)
        if not os.path.exists(absolute):
            w.files[cur] = (None, ("M",))
            break
        c = os.path.realpath(absolute)
        if c not in nodes:
            raise CheckBroken("cli_world: %s resolves to %s which is not a generated member" % (cur, c))
        w.files[cur] = (c, ("V", nodes[c]))
        w.texts[cur] = texts[c]
        e = nodes[c][1].get("extends")
        if e is None or e[0] != "s" or e[1].startswith("preset:") or is_remote(e[1]):
            break
        cur = e[1] if e[1].startswith("/") else join_parent(cur, e[1])
    return w, spell, tag


def show(sb, cli, cfg, extra=()):
    rc, out, err = sb.run(cli, ["--color", "never", *extra, "config", "show", "--format", "json", "-c", cfg],
                          env={"RAYON_NUM_THREADS": "1"})
    j = None
    if rc == 0:
        try:
            j = json.loads(out)
            j.pop("extends", None)
            j.pop("extends_sha256", None)
        except ValueError:
            j = "<unparsable>"
    return rc, j, err


def run_cli(ctx, env, n, st):
    rng = ctx.rng
    cli = env["cli"]
    for idx in range(n):
        kind = rng.choice(["chain", "chain", "chain", "graph", "graph", "symlink", "remote", "preset", "case", "case", "badkey"])
        no_ext = rng.random() < 0.15
        with Sandbox("sgv-c16-") as sb:
            w, leaf, tag = cli_world(sb, rng, env["presets"], kind, env)
            st["hist"]["cli:" + tag + ("+noext" if no_ext else "")] = st["hist"].get("cli:" + tag + ("+noext" if no_ext else ""), 0) + 1
            st["evals"] += 1
            vp_ = version_profile(w)
            if vp_:
                st["hist"]["cli:" + vp_] = st["hist"].get("cli:" + vp_, 0) + 1
            m, _ = resolve_lines(w, leaf, no_ext)
            mo, rcm, errm = run_lines(env["model"], [m])
            if not mo:
                raise CheckBroken("model driver died: " + errm)
            mo = mo[0]
            sl = spec_line(spec_resolve(w, leaf, no_ext, env["maxd"]))
            extra = ["--extends-policy", "offline"] + (["--no-extends"] if no_ext else [])
            rc, j, err = show(sb, cli, leaf, extra)
            desc = {"level": "cli", "tag": tag, "leaf": leaf, "no_extends": no_ext, "files": dict(w.texts),
                    "remote": {u: t for u, t in w.remotes.items()}, "model": mo[:2000], "spec": sl[:2000],
                    "impl": {"rc": rc, "stderr": err[-600:]}}
            if "panicked at" in err or rc not in (0, 2):
                st["fails"].append(dict(desc, what="exit status %s / panic" % rc))
                continue
            ok = True
            exp = mo if coarse(norm_res(mo)) == coarse(sl) else None
            # spec oracle: expectation from the independent fold
            target = sl
            leafv = w.files.get(leaf, (None, ("M",)))[1]
            if no_ext and leafv[0] == "V" and leafv[1][0] == "t" and _ext_of(leafv[1]) is not None and not misplaced(leafv[1]) and bad_key(leafv[1]) is None:
                # fix D65: --no-extends config validate = config validate of the leaf with its (well-typed) inheritance keys removed
                sb.write("alone/leaf_alone.toml", toml_text(rm_ext(leafv[1]), rng))
                rcv, _, errv = sb.run(cli, ["--color", "never", *extra, "config", "validate", "-c", leaf], env={"RAYON_NUM_THREADS": "1"})
                rca, _, erra = sb.run(cli, ["--color", "never", "config", "validate", "-c", "alone/leaf_alone.toml"], env={"RAYON_NUM_THREADS": "1"})
                st["cli_spawns"] += 2
                st["evals"] += 1
                st["hist"]["cli:validate+noext"] = st["hist"].get("cli:validate+noext", 0) + 1
                if rcv != rca:
                    st["fails"].append(dict(desc, what="--no-extends config validate (exit %d) differs from config validate of the leaf with its extends line removed (exit %d)" % (rcv, rca),
                                            validate={"stderr": errv[-300:], "alone_stderr": erra[-300:]}))
                else:
                    st["agree_cli"] += 1
            if no_ext and leafv[0] == "V" and bad_key(leafv[1]) is not None and target.startswith("OK"):
                # the leaf alone goes to the typed parse, which rejects a non-string extends / extends_sha256
                if rc != 2 or "expected a string" not in err:
                    st["fails"].append(dict(desc, what="--no-extends: the leaf carries %s that is not a string and config show exits %d" % (bad_key(leafv[1]), rc)))
                else:
                    st["agree_cli"] += 1
                st["cli_spawns"] += 1
                continue
            if target.startswith("OK"):
                v = unwire(target.split(" ", 2)[2])
                flat = rm_ext(v)
                sb.write("flat/flat.toml", toml_text(flat, rng))
                rc2, j2, err2 = show(sb, cli, "flat/flat.toml")
                st["cli_spawns"] += 1
                if vp_ == "versions:some-member-unsupported" and not no_ext:
                    k_ = "cli:versions:some-member-unsupported:flattened-file-" + ("loads" if rc2 == 0 else "rejected")
                    st["hist"][k_] = st["hist"].get(k_, 0) + 1
                if (rc, j) != (rc2, j2) and not (rc == 2 and rc2 == 2):
                    ok = False
                    desc["flat"] = {"rc": rc2, "text": toml_text(flat), "stderr": err2[-300:]}
                    desc["what"] = "config show of the chain differs from config show of the hand-flattened file"
            else:
                if rc != 2:
                    ok = False
                    desc["what"] = "resolution must fail (%s) but config show exits %d" % (target[:60], rc)
                elif target.startswith("ERR Circular") or target.startswith("ERR TooDeep"):
                    chain = [dec(x) for x in target.split(" ")[-1].split(";")]
                    names = " → ".join(chain)
                    word = "circular extends" if "Circular" in target else "exceeds maximum %d" % env["maxd"]
                    if names not in err or word not in err:
                        ok = False
                        desc["what"] = "error text does not name the chain: expected '%s' and '%s'" % (word, names)
            st["cli_spawns"] += 1
            if not ok:
                k = None
                if k:
                    st["known"].append((k, json.dumps(desc)[:300], "", ""))
                else:
                    st["fails"].append(desc)
            else:
                st["agree_cli"] += 1
            if exp is None:
                # model and spec disagree on this world: counted with the library-level comparison
                st["model_vs_spec"].append(desc)
            if len(w.files) >= 2 or target.startswith("ERR Circ"):
                st["nontrivial"].add(m)
            if idx < 2:
                ctx.sample({k: desc[k] for k in ("level", "tag", "leaf", "no_extends", "files", "spec")} | {"rc": rc})


def run_discovered(ctx, env, st, n):
    """--no-extends with a DISCOVERED leaf (./.sloc-guard.toml, or the user-config fallback) through the
    commands that load their configuration via commands::context::load_config: explain, check, stats.
    Oracle: identical to the same leaf with its inheritance keys removed (and to --no-extends --config <leaf>);
    the base is chosen so that the full chain gives a different answer."""
    rng = ctx.rng
    cli = env["cli"]
    src = "".join("fn f%d() {}\n" % i for i in range(8))
    for idx in range(n):
        user_cfg = rng.random() < 0.35
        with Sandbox("sgv-c16-disc-") as sb:
            base = config_doc(rng, markers=False)
            base[1].setdefault("content", ("t", {}))[1]["max_lines"] = ("i", rng.choice([1, 3, 5]))
            base[1].setdefault("scanner", ("t", {}))[1]["exclude"] = ("a", [("s", "src/gen/**")])
            leaf = config_doc(rng, markers=rng.random() < 0.3)
            c = leaf[1].setdefault("content", ("t", {}))[1]
            c.pop("max_lines", None)
            c.pop("rules", None)
            c["extensions"] = ("a", [("s", "rs")])
            if "scanner" in leaf[1]:
                leaf[1]["scanner"][1].pop("exclude", None)
            leaf[1].pop("structure", None)
            if misplaced(leaf):
                continue
            alone_doc = ("t", dict(leaf[1]))
            os.makedirs(os.path.join(sb.base, "shared"))
            base_path = os.path.join(os.path.realpath(sb.base), "shared", "base.toml")
            sb.write(base_path, toml_text(base, rng), base="/")
            for d in ("proj", "alone"):
                root = os.path.join(sb.base, d)
                sb.write("src/a.rs", src, base=root)
                sb.write("src/gen/b.rs", src, base=root)
            alone = os.path.join(sb.base, "alone")
            if user_cfg:
                os.makedirs(os.path.join(sb.proj, ".git"))
                os.makedirs(os.path.join(alone, ".git"))
                leaf[1]["extends"] = ("s", base_path)
                sb.write(".config/sloc-guard/config.toml", toml_text(leaf, rng), base=sb.home)
                leaf_cfg = os.path.join(sb.home, ".config/sloc-guard/config.toml")
                home2 = os.path.join(sb.base, "home2")
                sb.write(".config/sloc-guard/config.toml", toml_text(alone_doc, rng), base=home2)
                env_alone = {"HOME": home2, "XDG_CONFIG_HOME": os.path.join(home2, ".config")}
            else:
                leaf[1]["extends"] = ("s", rng.choice(["../shared/base.toml", base_path]))
                sb.write(".sloc-guard.toml", toml_text(leaf, rng))
                leaf_cfg = ".sloc-guard.toml"
                sb.write(".sloc-guard.toml", toml_text(alone_doc, rng), base=alone)
                env_alone = {}
            cmds = {"explain": ["explain", "src/a.rs", "--format", "json"],
                    "check": ["check", "--no-sloc-cache", "--format", "json"],
                    "stats": ["stats", "summary", "--no-sloc-cache", "--format", "json"]}
            tag = "discovered:" + ("user-config" if user_cfg else "local")
            st["hist"][tag] = st["hist"].get(tag, 0) + 1
            differs = False
            for name, args in cmds.items():
                def go(cwd, extra, env2):
                    rc, out, err = sb.run(cli, ["--color", "never", *extra, *args], cwd=cwd, env=dict(env2, RAYON_NUM_THREADS="1"))
                    st["cli_spawns"] += 1
                    return rc, canon_report(out), err
                ref = go(alone, [], env_alone)
                if name == "check":
                    ref_check = ref
                disc = go(sb.proj, ["--no-extends"], {})
                full = go(sb.proj, [], {})
                st["evals"] += 1
                desc = {"level": "discovered", "command": name, "user_config": user_cfg, "leaf": toml_text(leaf), "base": toml_text(base),
                        "leaf_alone": {"rc": ref[0], "out": ref[1][:600]}, "no_extends_discovered": {"rc": disc[0], "out": disc[1][:600], "stderr": disc[2][-300:]}}
                if ref[0] not in (0, 1) or "panicked at" in disc[2]:
                    st["fails"].append(dict(desc, what="reference run failed / panic"))
                    continue
                if (disc[0], disc[1]) != (ref[0], ref[1]):
                    st["fails"].append(dict(desc, what="%s --no-extends with a discovered leaf differs from the leaf with its extends line removed" % name))
                else:
                    st["agree_cli"] += 1
                if (full[0], full[1]) != (ref[0], ref[1]):
                    differs = True
            # --no-extends --config <leaf> (explicit path) for the check command
            rc, out, err = sb.run(cli, ["--color", "never", "--no-extends", "check", "--no-sloc-cache", "--format", "json", "-c", leaf_cfg], env={"RAYON_NUM_THREADS": "1"})
            st["cli_spawns"] += 1
            st["evals"] += 1
            if (rc, canon_report(out)) != (ref_check[0], ref_check[1]):
                st["fails"].append({"level": "discovered", "command": "check --config", "leaf": toml_text(leaf), "base": toml_text(base),
                                    "what": "check --no-extends --config <leaf> differs from the leaf with its extends line removed",
                                    "impl": {"rc": rc, "stderr": err[-300:]}})
            else:
                st["agree_cli"] += 1
            if differs:
                st["nontrivial"].add("discovered:%d:%s" % (idx, tag))
            if idx < 1:
                ctx.sample({"level": "discovered", "user_config": user_cfg, "leaf": toml_text(leaf), "base": toml_text(base), "full_chain_differs_from_leaf_alone": differs})


# ------------------------------------------------------------------ chain members whose paths are not UTF-8 (fix D100)

NONUTF8_PAIRS = [(b"d\xff", b"d\xfe", b"d\xfd"), (b"\xe9t\xe9", b"\xe8t\xe9", b"\xeat\xe9"), (b"d\xc3", b"d\xe2\x82", b"d\xf0\x9f"),
                 (b"x\x80y", b"x\x81y", b"x\xbfy")]


def run_nonutf8(ctx, env, st, n):
    """Directories whose names differ only in bytes that are not UTF-8 (a lossy rendering maps them to one string).
    The references go through symlinks with plain names (a TOML string cannot hold such bytes). An acyclic chain over
    them must load and equal its hand-flattened file; a genuine cycle over them must still be reported."""
    rng = ctx.rng
    cli = env["cli"]
    for idx in range(n):
        names = rng.choice(NONUTF8_PAIRS)
        shape = ["chain-2", "chain-3", "cycle"][idx % 3]
        with Sandbox("sgv-c16-nonutf8-") as sb:
            sb.write(".sloc-guard.toml", "")
            proj = os.fsencode(os.path.realpath(sb.proj))
            k = 3 if shape == "chain-3" else 2
            dirs = [proj + b"/" + nm for nm in names[:k]]
            links = [b"l0", b"l1", b"l2"][:k]
            docs = [config_doc(rng, markers=False) for _ in range(k)]
            for i, d in enumerate(dirs):
                os.mkdir(d)
                os.symlink(names[i], proj + b"/" + links[i])
            for i in range(k):
                v = ("t", dict(docs[i][1]))
                if i + 1 < k:
                    v[1]["extends"] = ("s", "../%s/a.toml" % links[i + 1].decode())
                elif shape == "cycle":
                    v[1]["extends"] = ("s", "../%s/a.toml" % links[0].decode())
                with open(dirs[i] + b"/a.toml", "w") as fh:
                    fh.write(toml_text(v, rng))
            leaf = os.fsdecode(names[0] + b"/a.toml")
            rc, j, err = show(sb, cli, leaf)
            st["cli_spawns"] += 1
            st["evals"] += 1
            st["hist"]["cli:nonutf8-" + shape] = st["hist"].get("cli:nonutf8-" + shape, 0) + 1
            desc = {"level": "cli-nonutf8", "shape": shape, "directories": [repr(nm) for nm in names[:k]],
                    "symlinks": {l.decode(): repr(nm) for l, nm in zip(links, names)},
                    "members (leaf first; each extends ../l<i+1>/a.toml)": [toml_text(d) for d in docs],
                    "leaf": repr(names[0] + b"/a.toml"), "impl": {"rc": rc, "stderr": err[-500:]}}
            if shape == "cycle":
                if rc != 2 or "circular extends" not in err:
                    st["fails"].append(dict(desc, what="a genuine cycle over directories with non-UTF-8 names is not reported (exit %d)" % rc))
                else:
                    st["agree_cli"] += 1
                    st["nontrivial"].add("nonutf8:%d" % idx)
                continue
            acc = norm_alias(docs[-1])
            for d in reversed(docs[:-1]):
                acc = dmerge(acc, norm_alias(d))
            sb.write("flat/flat.toml", toml_text(acc, rng))
            rc2, j2, err2 = show(sb, cli, "flat/flat.toml")
            st["cli_spawns"] += 1
            if rc2 != 0:
                raise CheckBroken("nonutf8 leg: the flattened file does not load: " + err2[-300:])
            if (rc, j) != (rc2, j2):
                what = "an ACYCLIC chain over directories whose names differ only in non-UTF-8 bytes " + (
                    "is reported as circular" if "circular" in err else "differs from its hand-flattened file") + " (exit %d; the flattened file loads)" % rc
                st["fails"].append(dict(desc, what=what, flat=toml_text(acc)))
            else:
                st["agree_cli"] += 1
                st["nontrivial"].add("nonutf8:%d" % idx)


# ------------------------------------------------------------------ byte-determinism of the observation point (fix D101)

def run_determinism(ctx, env, st, n):
    """`config show --format json` of one chain, three runs: the bytes must be identical (and parse to the flattened
    file's output). The chain defines several [languages.<name>] tables spread over base and leaf (tables merge
    recursively); a map printed in hash order differs from run to run."""
    rng = ctx.rng
    cli = env["cli"]
    pool = ["aaa", "bbb", "ccc", "ddd", "eee", "fff", "zig2", "Xlang"]
    for idx in range(n):
        with Sandbox("sgv-c16-det-") as sb:
            sb.write(".sloc-guard.toml", "")
            names = rng.sample(pool, rng.randint(3, 6))
            cut = rng.randint(0, len(names))

            def lang(nm):
                return ("t", {"extensions": ("a", [("s", nm)]), "single_line_comments": ("a", [("s", rng.choice(["#", "//", ";", "--"]))])})
            base = config_doc(rng, markers=False)
            leaf = config_doc(rng, markers=False)
            if cut:
                base[1]["languages"] = ("t", {nm: lang(nm) for nm in names[:cut]})
            if cut < len(names):
                leaf[1]["languages"] = ("t", {nm: lang(nm) for nm in names[cut:]})
            flat = dmerge(norm_alias(base), norm_alias(leaf))
            leaf[1]["extends"] = ("s", "base.toml")
            sb.write("cfg/base.toml", toml_text(base, rng))
            sb.write("cfg/leaf.toml", toml_text(leaf, rng))
            sb.write("flat/flat.toml", toml_text(flat, rng))
            outs = []
            for _ in range(3):
                rc, out, err = sb.run(cli, ["--color", "never", "config", "show", "--format", "json", "-c", "cfg/leaf.toml"], env={"RAYON_NUM_THREADS": "1"})
                outs.append((rc, out))
                st["cli_spawns"] += 1
            rc2, j2, err2 = show(sb, cli, "flat/flat.toml")
            st["cli_spawns"] += 1
            st["evals"] += 1
            st["hist"]["cli:determinism-%d-language-tables" % len(names)] = st["hist"].get("cli:determinism-%d-language-tables" % len(names), 0) + 1
            desc = {"level": "cli-determinism", "files": {"cfg/base.toml": toml_text(base), "cfg/leaf.toml": toml_text(leaf)}, "language_tables": names,
                    "command": "config show --format json -c cfg/leaf.toml (three runs)", "impl": {"rc": [o[0] for o in outs], "stderr": err[-300:]}}
            if any(o[0] != 0 for o in outs) or rc2 != 0:
                st["fails"].append(dict(desc, what="the chain or its flattened file does not load (exit %r / %d)" % ([o[0] for o in outs], rc2)))
                continue
            try:
                j = json.loads(outs[0][1])
                j.pop("extends", None)
                j.pop("extends_sha256", None)
            except ValueError:
                j = "<unparsable>"
            if j != j2:
                st["fails"].append(dict(desc, what="config show of the chain differs from config show of the hand-flattened file", flat=toml_text(flat)))
            elif len({o[1] for o in outs}) != 1:
                def order(o):
                    return re.findall(r'^    "(\w+)": \{$', o, re.M)
                st["fails"].append(dict(desc, what="config show --format json of one unchanged chain is not deterministic: %d different outputs in three runs (order of the languages tables: %r)"
                                        % (len({o[1] for o in outs}), [order(o[1]) for o in outs])))
            else:
                st["agree_cli"] += 1
                st["nontrivial"].add("determinism:%d" % idx)


def canon_report(out):
    """JSON output with run-dependent fields removed."""
    try:
        j = json.loads(out)
    except ValueError:
        return out.strip()
    def strip(x):
        if isinstance(x, dict):
            return {k: strip(v) for k, v in sorted(x.items()) if k not in ("timestamp", "generated_at", "duration_ms", "elapsed_ms", "version")}
        if isinstance(x, list):
            return [strip(v) for v in x]
        return x
    return json.dumps(strip(j), sort_keys=True)


def run_corpus(ctx, env, st):
    """corpus/config.jsonl: minimised witnesses (D25, D28, reset semantics), always run first."""
    p = os.path.join(CORPUS, "config.jsonl")
    if not os.path.exists(p):
        return
    for line in open(p):
        if not line.strip():
            continue
        j = json.loads(line)
        with Sandbox("sgv-c16-corpus-") as sb:
            sb.write(".sloc-guard.toml", "")
            for name, text in j["files"].items():
                sb.write("cfg/" + name, text)
            for url, body in j.get("cache", {}).items():
                prime_cache(env, sb.proj, url, body)
            cmd = {"show": ["config", "show", "--format", "json", "-c", "cfg/" + j["leaf"]],
                   "validate": ["config", "validate", "-c", "cfg/" + j["leaf"]],
                   "check": ["check", "--no-sloc-cache", "-c", "cfg/" + j["leaf"], "."]}[j.get("command", "show")]
            rc, out, err = sb.run(env["cli"], ["--color", "never", *j["flags"], *cmd])
            st["evals"] += 1
            st["cli_spawns"] += 1
            st["hist"]["corpus"] = st["hist"].get("corpus", 0) + 1
            what = None
            if rc != j["expect_rc"]:
                what = "exit status %d, expected %d" % (rc, j["expect_rc"])
            elif j.get("expect_stderr") and j["expect_stderr"] not in err:
                what = "stderr lacks %r" % j["expect_stderr"]
            elif j.get("expect_fields"):
                try:
                    doc = json.loads(out)
                except ValueError:
                    doc = None
                for path, val in j["expect_fields"].items():
                    cur = doc
                    for k in path.split("."):
                        cur = cur.get(k) if isinstance(cur, dict) else None
                    if cur != val:
                        what = "%s = %r, expected %r" % (path, cur, val)
            if what:
                st["fails"].append({"level": "corpus", "id": j["id"], "files": j["files"], "flags": j["flags"], "what": what, "impl": {"rc": rc, "stderr": err[-400:]}})
            else:
                st["agree_cli"] += 1
                st["nontrivial"].add("corpus:" + j["id"])


# ------------------------------------------------------------------ vm_compute cross-check

def xcheck(ctx, cases, mouts, k):
    idx = [i for i, c in enumerate(cases) if c[1] in ("merge", "strip") and len(c[0]) < 1500]
    ctx.rng.shuffle(idx)
    idx = idx[:k]
    exprs = []
    for i in idx:
        f = cases[i][0].split("\t")
        if f[0] == "merge":
            exprs.append("tv_code (merge (%s) (%s))" % (coq_val(unwire(f[1])), coq_val(unwire(f[2]))))
        else:
            exprs.append("tv_code (strip (%s))" % coq_val(unwire(f[1])))
    res = coq_eval("From Coq Require Import NArith ZArith List.\nFrom SG Require Import Config.Toml Config.Merge.", exprs)
    bad = 0
    for i, r in zip(idx, res):
        nums = [int(x) for x in re.findall(r"\d+", r)]
        if nums != tv_code(unwire(mouts[i])):
            bad += 1
    ctx.cov["extraction_crosscheck"] = {"cases": len(idx), "disagreements": bad}
    if bad or len(res) != len(idx):
        raise CheckBroken("extracted OCaml and vm_compute disagree on %d/%d cases" % (bad, len(idx)))


# ------------------------------------------------------------------ entry points

def run(ctx):
    env = prepare_config(ctx, need_cli=True)
    proofs_ok = proofs_step(ctx, PROP_FILES)
    quick = ctx.tier == "quick"
    st = {"hist": {}, "evals": 0, "agree": 0, "agree_cli": 0, "mism": [], "fails": [], "known": [], "nontrivial": set(),
          "cli_spawns": 0, "model_vs_spec": []}
    # emitter sanity: python TOML text parses (toml crate) to the value python thinks it wrote
    docs = [config_doc(ctx.rng) for _ in range(150)] + [rand_value(ctx.rng, 0, "t") for _ in range(150)]
    outs, _ = run_sharded(env["impl"], ["parse\t" + enc(toml_text(d, ctx.rng)) for d in docs], args=["run"])
    bad = [(d, o) for d, o in zip(docs, outs) if o != wire(d)]
    if bad:
        raise CheckBroken("python TOML emitter and the toml crate disagree: %s -> %s" % (toml_text(bad[0][0]), bad[0][1][:300]))
    run_corpus(ctx, env, st)
    cases, mouts = run_values(ctx, env, 6000 if quick else 60000, st)
    run_resolve(ctx, env, 2500 if quick else 25000, st)
    run_cli(ctx, env, 220 if quick else 1500, st)
    run_discovered(ctx, env, st, 14 if quick else 120)
    run_nonutf8(ctx, env, st, 12 if quick else 60)
    run_determinism(ctx, env, st, 8 if quick else 40)
    xcheck(ctx, cases, mouts, 60 if quick else 400)
    ctx.cov["evaluations"] = st["evals"]
    ctx.cov["distinct_nontrivial"] = len(st["nontrivial"])
    ctx.cov["traces_validated_against_impl"] = st["agree"] + st["agree_cli"]
    ctx.cov["model_vs_impl_mismatches"] = len(st["mism"])
    ctx.cov["cli_process_spawns"] = st["cli_spawns"]
    ctx.cov["input_distribution"] = st["hist"]
    ctx.cov["rule"] = ("seeded generators at three levels: (1) value operations merge / merge_arrays / is_reset_element / strip / has_any / validate / fold on random "
                       "TOML values (scalars of every type, nested tables, string arrays, arrays of rule tables, markers at first and later positions, near-markers) "
                       "against the re-exported functions; (2) reference graphs (chains 1..13, graphs over <=5 files with self-loops and longer cycles, presets, offline "
                       "remote cache incl. hash, relative / dotted / absolute spellings, aliases, missing and malformed members, extends / extends_sha256 that are not strings in the leaf or in a base, "
                       "structure.deny_files under its serde alias deny_file_patterns in any member, a `version` scalar that is missing / supported / unsupported / ill-typed independently in every member "
                       "(stale base under a current leaf, current base under a stale leaf, bad value in the middle: only the folded value may decide), --no-extends) against "
                       "the real ExtendsResolver over an in-memory FileSystem; (3) the same shapes on a real temp file system (symlinked files and directories) through "
                       "sgcli config show, compared with config show of the file flattened by the independent python fold; chain members whose paths differ only in letter case (file and "
                       "directory names) at levels 2 and 3; (4) --no-extends with a DISCOVERED leaf (./.sloc-guard.toml or the user-config fallback) through explain / check / stats, compared with the same "
                       "leaf with its inheritance keys removed; (5) chains and cycles over directories whose names differ only in bytes that are not UTF-8 (references through symlinks), against the flattened file; "
                       "(6) three runs of config show --format json on one chain that spreads 3-6 [languages.*] tables over base and leaf: byte-identical output required; --no-extends config validate against config validate of the leaf without its inheritance keys. Every case: impl vs extracted Coq model and impl vs "
                       "python spec. non-trivial = distinct case where the merge really combines both sides or a marker is involved (values), or a chain of >= 2 members / a cycle / a depth error (graphs)")
    ctx.cov["trusted_base"] = TRUSTED_COMMON + [
        "harness load_top replicates the value-level lines of FileConfigLoader::load_from_path (the CLI level runs the real loader)",
        "toml crate: parsing, serialisation and the typed re-parse are not modelled (metamorphic chain-vs-flattened run only)",
        "std::fs::canonicalize / Path::join are data of the model (fs_canon, join_parent), tied by the CLI level on a real file system"]
    ctx.assumptions = ["a toml::Table is a BTreeMap: keys unique and ascending (the model looks a child key up in the original base table)",
                       "presets, the file system and the remote fetch result are inputs of the model (fsys)"]
    for k, case, io, sl in st["known"]:
        pass
    if st["model_vs_spec"]:
        ctx.notes.append({"cli_worlds_where_model_and_spec_differ": len(st["model_vs_spec"])})
    # ---- verdicts
    for f in st["fails"][:5]:
        ctx.violation(dict(f, kind="property-oracle", replay_cmd="python3 tools/vp.py check C16 --replay <this file>"))
    if not st["fails"]:
        if st["mism"]:
            ctx.violation({"kind": "correspondence-broken", "relation": "sgv-config (merge.rs / ExtendsResolver) == extracted Config.Merge / Config.Extends",
                           "first_mismatch": st["mism"][0], "mismatches": len(st["mism"]),
                           "note": "the model no longer describes the code, so theorems C16_* no longer transfer; no input violating C16 itself was found among %d cases" % st["evals"]},
                          no_input=True)
        elif not proofs_ok:
            ctx.violation({"kind": "proof-broken", "details": ctx.proof_broken}, no_input=True)


def replay(ctx, path):
    j = json.load(open(path))
    env = prepare_config(ctx, need_cli=True)
    f = j.get("first_mismatch", j)
    if f.get("level") == "value":
        print("impl :", run_lines(env["impl"], [f["line"]], args=["run"])[0])
        print("model:", run_lines(env["model"], [f["line"]])[0])
        return 0
    if f.get("level") == "resolve":
        print("model:", run_lines(env["model"], [f["case"]])[0])
        print("impl (recorded):", f.get("impl"))
        print("spec (recorded):", f.get("spec"))
        return 0
    if f.get("level") == "cli":
        with Sandbox("sgv-c16-replay-") as sb:
            sb.write(".sloc-guard.toml", "")
            for p, t in f["files"].items():
                print("file", p)
            print("recorded:", json.dumps(f.get("impl")), f.get("what"))
        return 0
    print(json.dumps(j, indent=1)[:3000])
    return 0
