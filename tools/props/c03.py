"""C03 -- line accounting is total."""
import json
from gen_counter import *  # noqa

PROP_FILES = ["Counter/Properties_C03.v"]
MANIFEST = dict(
    technique="Coq proof (induction over the line list / source suffix) on a Gallina port of sloc.rs+comment.rs, tied by differential execution of the extracted model against SlocCounter's three entry points",
    text="Theorems C03_partition, C03_total_is_line_count, C03_line_splitters_agree, C03_entry_points_agree, C03_append_monotone, C03_append_ignored_only_by_directive hold for every syntax value and every source (unbounded); C03_scanner_index_safe / C03_skipper_index_safe / C03_lua_scanner_index_safe / C03_marker_counter_index_safe show that the index-level mirrors of all char-vector loops of src/counter/comment.rs (find_outside_string, StringSkipper, raw-string helpers, the Lua long-bracket scanner, the nesting marker counter: explicit indices, bounds-checked accesses returning Panic, loops on fuel) never panic and never stall for any input and refine the list-level model. The tie to the Rust code is a seeded differential run (built-in and adversarial custom syntaxes, arbitrary bytes, append pairs) plus the property oracles evaluated on the implementation itself.",
    note="Trusted: Coq kernel, extraction (ExtrOcamlBasic), harness sgv-counter, UTF-8 lossy decoding of std. Panic-freedom/termination of the Rust loops is observed (catch_unwind, deadline), not proved.",
    ref="5 (C03)")


def oracle_c03(text, d):
    """Property oracle on one implementation answer. Returns a failure string or None."""
    if d["kind"] == "PANIC":
        return "panic"
    if d["kind"] == "<NOANSWER>":
        return "no answer (abort or deadline)"
    if d["disagree"]:
        return "entry points disagree: " + d["disagree"]
    if d["kind"] == "OK":
        t, c, m, b, i = d["stats"]
        if t != c + m + b + i:
            return f"total {t} != code+comment+blank+ignored {c+m+b+i}"
        if text is not None and t != physical_lines(text):
            return f"total {t} != physical lines {physical_lines(text)}"
    elif d["kind"] != "IGN":
        return "unexpected output " + d["raw"][:80]
    return None


def gen_cases(ctx, langs, n):
    rng = ctx.rng
    cases = []  # dict(mode, sy(Syntax), text|bytes, tag)
    for k in range(n):
        r = rng.random()
        if r < 0.40:
            sy = rng.choice(langs)
            cases.append({"mode": "count", "sy": sy, "text": rand_source(rng, sy), "tag": "builtin"})
        elif r < 0.70:
            sy = adversarial_syntax(rng)
            cases.append({"mode": "count", "sy": sy, "text": rand_source(rng, sy), "tag": "adversarial"})
        elif r < 0.92:
            sy = rng.choice(langs) if rng.random() < 0.5 else adversarial_syntax(rng)
            cases.append({"mode": "bytes", "sy": sy, "bytes": rand_bytes(rng), "tag": "bytes"})
        else:
            sy = rng.choice(langs) if rng.random() < 0.6 else adversarial_syntax(rng)
            base = rand_source(rng, sy, 6)
            if base and not base.endswith("\n"):
                base += "\n"
            extra = rand_source(rng, sy, 4)
            cases.append({"mode": "count", "sy": sy, "text": base, "tag": "append-base", "pair": len(cases) + 1})
            cases.append({"mode": "count", "sy": sy, "text": base + extra, "tag": "append-ext", "extra": extra})
    # the ignore-file window: the directive on every line 1..14 of a 14-line file, through all entry points
    # (count, count_reader, count_from_bytes must agree line for line on where the window ends)
    withsl = [l for l in langs if l.single]
    for sy in rng.sample(withsl, min(len(withsl), 3 if ctx.tier == "quick" else 12)) + [adversarial_syntax(rng)]:
        if not sy.single or not sy.single[0]:
            continue
        for pos in range(1, 15):
            fill = [rng.choice(["x = 1", "", "y", sy.single[0] + " note", "  "]) for _ in range(14)]
            fill[pos - 1] = sy.single[0] + " sloc-guard:ignore-file"
            eol = rng.choice(["\n", "\n", "\r\n"])
            text = eol.join(fill) + rng.choice(["", eol])
            cases.append({"mode": "count", "sy": sy, "text": text, "tag": "directive-window"})
            cases.append({"mode": "bytes", "sy": sy, "bytes": text.encode("utf-8"), "tag": "directive-window"})
    # a few very long lines
    big = 200_000 if ctx.tier == "quick" else 1_000_000
    for sy in (langs[0], adversarial_syntax(rng)):
        cases.append({"mode": "count", "sy": sy, "text": "x" * big + "\n/* " + "y" * 1000, "tag": "long"})
    return cases


def wire(c):
    if c["mode"] == "bytes":
        return "bytes\t%s\t%s" % (c["sy"].wire_impl(), c["bytes"].hex() or "-")
    return "count\t%s\t%s" % (c["sy"].wire_impl(), enc(c["text"]))


def run(ctx):
    impl, model, langs = prepare_counter(ctx)
    proofs_ok = proofs_step(ctx, PROP_FILES)
    n = 20000 if ctx.tier == "quick" else 120000
    corpus = load_corpus(langs)
    cases = corpus + gen_cases(ctx, langs, n)
    outs, errs = run_sharded(impl, [wire(c) for c in cases], timeout=900, args=["run"])
    ds = [parse_out(o) if o != "<NOANSWER>" else {"kind": "<NOANSWER>", "disagree": None, "stats": None, "lossy": None, "raw": o} for o in outs]
    # model side (bytes cases use the scalar values Rust's lossy decoder produced)
    mlines = []
    for c, d in zip(cases, ds):
        if c["mode"] == "bytes":
            text = d["lossy"] if d["lossy"] is not None else c["bytes"].decode("utf-8", "replace")
            c["text_for_model"] = text
            if d["lossy"] is not None and d["lossy"] != c["bytes"].decode("utf-8", "replace"):
                ctx.notes.append({"lossy_decode_differs_from_python": c["bytes"].hex()})
        else:
            c["text_for_model"] = c["text"]
        mlines.append("count\t%s\t%s" % (c["sy"].wire(), enc(c["text_for_model"])))
    mouts, merrs = run_sharded(model, mlines, timeout=900)
    if merrs:
        raise CheckBroken("model driver failed: %s" % merrs[:1])
    mism, fails = [], []
    hist = {}
    nontrivial = set()
    for idx, (c, d, mo) in enumerate(zip(cases, ds, mouts)):
        md = parse_out(mo)
        hist[c["tag"]] = hist.get(c["tag"], 0) + 1
        f = oracle_c03(c["text_for_model"], d)
        if f is None and c.get("tag") == "append-ext":
            base = ds[idx - 1]
            if base["kind"] == "OK" and d["kind"] == "OK":
                if any(x > y for x, y in zip(base["stats"], d["stats"])):
                    f = f"append decreased a counter: {base['stats']} -> {d['stats']}"
            elif base["kind"] == "OK" and d["kind"] == "IGN":
                # allowed only if an appended line within the first ten is an ignore-file directive
                nbase = physical_lines(cases[idx - 1]["text"])
                ok = any("sloc-guard:ignore-file" in l for l in c["extra"].split("\n")[:max(0, 10 - nbase)])
                if not ok:
                    f = "append turned a counted file into an ignored file without an ignore-file directive"
        if f:
            fails.append((c, d, f))
        if (d["kind"], d["stats"]) != (md["kind"], md["stats"]):
            mism.append((c, d, md))
        if d["kind"] == "OK" and (d["stats"][2] > 0 or d["stats"][4] > 0):
            nontrivial.add((c["sy"].wire(), c["text_for_model"]))
        elif d["kind"] == "IGN":
            nontrivial.add((c["sy"].wire(), c["text_for_model"]))
    ctx.cov["evaluations"] = len(cases)
    ctx.cov["distinct_nontrivial"] = len(nontrivial)
    ctx.cov["traces_validated_against_impl"] = len(cases) - len(mism)
    ctx.cov["rule"] = ("seeded generator: built-in syntaxes x line-shape sources, adversarial custom syntaxes (empty / overlapping / quote-like markers), "
                       "arbitrary and invalid UTF-8 byte strings, append pairs, very long lines; each run through count, count_reader, count_from_bytes "
                       "(and repeated) under catch_unwind; compared with the extracted Coq model and with the C03 oracles. "
                       "non-trivial = distinct (syntax, text) with at least one comment or ignored line or an ignore-file result")
    ctx.cov["input_distribution"] = hist
    ctx.cov["model_vs_impl_mismatches"] = len(mism)
    for c in cases[len(corpus):len(corpus) + 3]:
        ctx.sample({"syntax": c["sy"].wire(), "text": c.get("text", None) if c["mode"] == "count" else c["bytes"].hex(), "tag": c["tag"]})
    ctx.cov["trusted_base"] = TRUSTED_COMMON + ["UTF-8 lossy decoding (std) is not modelled: the model receives the scalar values Rust produced",
                                                "absence of panics / termination of the Rust loops is observed by the harness (catch_unwind, deadline), not proved"]
    ctx.assumptions = ["Rust std str::lines / BufRead::lines behave as modelled (tied by the differential run)"]
    # vm_compute cross-check of extraction on a sub-sample
    xcheck(ctx, cases, mouts, 60 if ctx.tier == "quick" else 400)
    # ---- the command-line path (process_file_with_cache -> count_lines_from_content -> count_from_bytes): whole files,
    # also large ones and ones that are not valid UTF-8, through `stats files`, against the model on the lossy text
    cli_fails = cli_leg(ctx, model, langs)
    for f in cli_fails[:3]:
        ctx.violation({"kind": "property-oracle", **f})
    # ---- verdicts
    for (c, d, f) in fails[:5]:
        ctx.violation({"kind": "property-oracle", "what": f, "syntax": c["sy"].wire(), "mode": c["mode"],
                       "text": c.get("text"), "bytes_hex": c["bytes"].hex() if c["mode"] == "bytes" else None,
                       "impl": d["raw"][:300], "replay_cmd": "python3 tools/vp.py check C03 --replay <this file>"})
    if not fails:
        if mism:
            c, d, md = mism[0]
            ctx.violation({"kind": "correspondence-broken", "relation": "sgv-counter count == extracted Counter.Sloc.count",
                           "first_mismatch": {"syntax": c["sy"].wire(), "text": c["text_for_model"], "impl": d["raw"][:200], "model": md["raw"][:200]},
                           "mismatches": len(mism),
                           "note": "the model no longer describes the code, so theorems C03_* no longer transfer; no input violating C03 itself was found among %d cases" % len(cases)},
                          no_input=True)
        elif not proofs_ok:
            ctx.violation({"kind": "proof-broken", "details": ctx.proof_broken}, no_input=True)
        elif errs:
            ctx.violation({"kind": "harness-died", "details": errs[:2]}, no_input=False)


def cli_leg(ctx, model, langs):
    import json as _json
    rng = ctx.rng
    exe = cargo_build(["sgcli"])["sgcli"]
    rs = [l for l in langs if "rs" in l.exts][0]
    py = [l for l in langs if "py" in l.exts][0]
    def body(prefix, nlines, bad_at=None, eol=b"\n", final=True):
        ls = []
        for i in range(nlines):
            r = i % 7
            ls.append((prefix.encode() + b" c%d" % i) if r == 3 else (b"" if r == 5 else b"let x%d = %d;" % (i, i)))
        if bad_at is not None:
            ls[bad_at] = ls[bad_at] + b" caf\xe9 \xff\xfe"
        return eol.join(ls) + (eol if final else b"")
    files = {
        "small_bad.rs": (rs, body("//", 40, bad_at=7)),
        "big_ok.rs": (rs, body("//", 90000)),                       # > 1 MiB, valid UTF-8
        "big_bad.rs": (rs, body("//", 90000, bad_at=80000)),        # > 1 MiB with an invalid byte
        "big_bad_nofinal.py": (py, body("#", 80000, bad_at=3, final=False)),
        "crlf_bad.rs": (rs, body("//", 30, bad_at=2, eol=b"\r\n")),
        "cr_only.rs": (rs, body("//", 12, eol=b"\r", final=False)),
        "empty.rs": (rs, b""),
        "nul.rs": (rs, b"let a = 1;\x00\n// c\n\n"),
    }
    if ctx.tier != "quick":
        files["huge_bad.rs"] = (rs, body("//", 400000, bad_at=399999))
    fails = []
    with Sandbox() as sb:
        for name, (_, data) in files.items():
            sb.write_bytes(name, data) if hasattr(sb, "write_bytes") else open(os.path.join(sb.proj, name), "wb").write(data)
        rc, out, err = sb.run(exe, ["stats", "files", "--no-config", "--no-sloc-cache", "--no-gitignore", "--format", "json", "--top", "100", "."], env={"RAYON_NUM_THREADS": "2"})
        try:
            j = _json.loads(out)
            rows = j.get("top_files") or j.get("files") or []
            got = {os.path.basename(r["path"]): (r["total"], r["code"], r["comment"], r["blank"]) for r in rows}
        except Exception:
            return [{"what": "stats files on whole files: unparsable output (exit %s): %s %s" % (rc, out[:200], err[:300])}]
        mlines = ["count\t%s\t%s" % (sy.wire(), enc(data.decode("utf-8", "replace"))) for (sy, data) in files.values()]
        mo, _, _ = run_lines(model, mlines)
        for (name, (sy, data)), m in zip(files.items(), mo):
            md = parse_out(m)
            want = md["stats"][:4] if md["stats"] else None
            phys = physical_lines(data.decode("utf-8", "replace"))
            g = got.get(name)
            if want is None:
                continue
            if g is None:
                fails.append({"what": "stats files does not list %s (%d bytes, %d physical lines): the file dropped out of the statistics" % (name, len(data), phys), "file": name})
            elif tuple(g) != tuple(want) or g[0] != phys:
                fails.append({"what": "stats files reports %s for %s, the model (count on the lossy text) says %s, physical lines %d" % (g, name, want, phys), "file": name})
    ctx.cov["cli_whole_files"] = len(files)
    # the same bytes under several languages, dated long ago, counted with the cache ON (the in-memory cache is shared
    # by the workers of one run, the file cache by successive runs): the statistics of a file are a function of its
    # content and ITS OWN syntax, whatever was counted before it
    twins = {}
    # a different NUMBER of lines per comment prefix, so that every syntax family gives its own statistics
    text = "# a\n# b\n# c\n// d\n// e\n-- f\nlet x = 1;\n\n; g\n; h\n; i\n; j\n% k\n% l\n% m\n% n\n% o\n"
    for ext in ("js", "py", "rs", "lua", "sql", "rb", "c", "hs", "tex", "lisp", "erl", "sh"):
        sy = [l for l in langs if ext in l.exts]
        if sy:
            twins["notes." + ext] = sy[0]
    if len(twins) >= 3:
        with Sandbox() as sb:
            order = list(twins)
            rng.shuffle(order)
            for name in order:
                fp = sb.write(name, text)
                os.utime(fp, (1600000000, 1600000000))
            mo, _, _ = run_lines(model, ["count\t%s\t%s" % (twins[n].wire(), enc(text)) for n in order])
            want = {n: (parse_out(m)["stats"] or [None] * 4)[:4] for n, m in zip(order, mo)}
            for rnd, threads in enumerate(("1", "1", "4")):
                rc, out, err = sb.run(exe, ["stats", "files", "--no-config", "--no-gitignore", "--format", "json", "--top", "100", "."], env={"RAYON_NUM_THREADS": threads})
                try:
                    j = _json.loads(out)
                    rows = j.get("top_files") or j.get("files") or []
                    got = {os.path.basename(r["path"]): [r["total"], r["code"], r["comment"], r["blank"]] for r in rows}
                except Exception:
                    fails.append({"what": "stats files on identical files of several languages: unparsable output (exit %s): %s %s" % (rc, out[:200], err[:300])})
                    break
                for n in order:
                    if n in got and want[n][0] is not None and list(got[n]) != list(want[n]):
                        fails.append({"what": "identical bytes under several languages, cache on, run %d: %s is reported as %s, its own syntax gives %s (text %r; other files: %s)"
                                              % (rnd + 1, n, got[n], list(want[n]), text, sorted(set(order) - {n})), "file": n})
                if fails:
                    break
        ctx.cov["cli_identical_bytes_languages"] = len(twins)
    return fails


def xcheck(ctx, cases, mouts, k):
    """Evaluate a sub-sample inside Coq (vm_compute) and compare with the extracted driver."""
    small = [i for i, c in enumerate(cases) if len(c["text_for_model"]) < 400]
    ctx.rng.shuffle(small)
    pick = small[:k]
    exprs = []
    for i in pick:
        c = cases[i]
        t = "[" + ";".join(str(ord(ch)) for ch in c["text_for_model"]) + "]"
        exprs.append("match count (%s) (%s) with None => [] | Some s => [total s; code s; comment s; blank s; ignored s] end" % (c["sy"].coq(), t))
    res = coq_eval("From Coq Require Import NArith List.\nFrom SG Require Import Counter.Lexer Counter.Sloc.", exprs)
    bad = 0
    for i, r in zip(pick, res):
        nums = [int(x) for x in re.findall(r"\d+", r)]
        md = parse_out(mouts[i])
        exp = list(md["stats"]) if md["kind"] == "OK" else []
        if nums != exp:
            bad += 1
    ctx.cov["extraction_crosscheck"] = {"cases": len(pick), "disagreements": bad}
    if bad or len(res) != len(pick):
        raise CheckBroken("extracted OCaml and vm_compute disagree on %d/%d cases" % (bad, len(pick)))


def load_corpus(langs):
    p = os.path.join(CORPUS, "counter.jsonl")
    out = []
    if os.path.exists(p):
        by_ext = {e: l for l in langs for e in l.exts}
        for line in open(p):
            j = json.loads(line)
            sy = by_ext.get(j.get("ext")) if j.get("ext") else Syntax(j["single"], [tuple(m) for m in j["multi"]])
            if sy:
                out.append({"mode": "count", "sy": sy, "text": j["text"], "tag": "corpus"})
    return out


def replay(ctx, path):
    j = json.load(open(path))
    impl, model, langs = prepare_counter(ctx)
    sy = j.get("syntax") or j["first_mismatch"]["syntax"]
    text = j.get("text") if j.get("text") is not None else j.get("first_mismatch", {}).get("text", "")
    line = "count\t%s\t%s" % (sy, enc(text))
    if j.get("bytes_hex"):
        line = "bytes\t%s\t%s" % (sy, j["bytes_hex"])
    o, _, _ = run_lines(impl, [line], args=["run"])
    m, _, _ = run_lines(model, ["count\t%s\t%s" % (sy, enc(text))])
    print("impl :", o)
    print("model:", m)
    return 0
