"""C13 -- state files survive a crash at any point of a save."""
import concurrent.futures as cf
import json
import shutil
import subprocess
from gen_state import *  # noqa

PROP_FILES = ["State/Properties_C13.v"]
MANIFEST = dict(
    technique="Coq proof over a file-system model (names -> inode -> bytes, per-inode flock) of atomic_write_with_lock_timeout as a step list; a crash is any prefix of the protocol; tied to /repo by killing the real CLI at every hook point (exhaustive) and comparing file bytes, left-over temp files, hook traces and the next commands with the model",
    text="Theorems C13_crash_safe, C13_change_point, C13_never_partial, C13_next_load_ok, C13_no_discard, C13_intact_load, C13_temp_is_private, C13_temp_content, C13_truncation_detected, C13_exclusive_temp_is_fresh, C13_exclusive_temp_refuses_shared_name (create_new: the temp name of a save is bound by that save only; C13_shared_temp_name_refuted keeps the D95 witness for a name two saves share), and for crash HISTORIES of a recycled pid (the stale temp file is part of the state; File::create truncates it) C13_save_after_any_crash_history, C13_crash_safe_after_history, C13_history_target_complete, and for a target that is a mount point C13_refused_rename hold for every prior state (absent or any bytes), every new content, every physical size and every crash point k (unbounded; D14 repaired, no known class). Tie: the SGV_TRACE of a real save equals the model's point list (C13_points_are_protocol); every point x prior in {absent, valid, valid above 1 MiB} x kind in {baseline via check --update-baseline, history via snapshot, cache via check / stats} is killed for real (plus a command that saves two files, killed in either save; plus kills followed by a shorter save of a process with the SAME pid, each invocation being pid 1 of its own PID namespace, with the stale temp file in place; plus two savers of one file, A held at a barrier inside its save while B is killed inside its own, as ordinary processes and each as pid 1 of its own PID namespace; plus saves under a file-size limit of 0 / 64 bytes, the cut write failing with EFBIG or killing the process with SIGXFSZ inside the system call; plus a .git directory appearing after the history / cache was recorded, the first command afterwards run under the size limit, with EVERY state file under the project (old and new state directory) required to be absent or a complete document; plus every kind with the state file as regular file / symbolic link / hard link / bind-mount point, un-killed with the protocol oracle `a save that changes the file's bytes has passed aw:start..aw:after_rename` and killed by strace syscall injection at write / copy_file_range on the target's path and at the rename) and the target, the temp file and the next commands (check --baseline, stats history, snapshot, check, stats summary) agree with the model and with the property oracle.",
    note="Trusted: Coq kernel, extraction, kernel rename/flock semantics (atomic rebinding; per-inode reader-writer lock dropped at process death), std::process::abort as the crash (page cache survives: the Fsync step is checked as an ordering fact only, no power loss), JSON (de)serialisation abstracted to: complete documents parse, the empty file and proper prefixes do not (C13_truncation_detected).",
    ref="5 (C13)")

PRIORS = ["absent", "valid", "large"]
NEXT = {
    "baseline": [("check-baseline", ["check", ".", "--no-sloc-cache", "--baseline", BASELINE], NOW0 + 50)],
    "history": [("stats-history", ["stats", "history"], NOW0 + 50),
                ("snapshot", ["snapshot", "--no-sloc-cache", "--force"], NOW0 + 100),
                ("stats-history", ["stats", "history"], NOW0 + 150)],
    "cache": [("check", ["check", "."], NOW0 + 50), ("stats-summary", ["stats", "summary"], NOW0 + 60)],
}
KINDS = ["baseline", "history", "cache"]


def save_cmd(kind, prior, via):
    if kind == "baseline":
        if prior == "large" or via == "new":
            return ["check", ".", "--no-sloc-cache", "--baseline", BASELINE, "--update-baseline", "new"]
        return ["check", ".", "--no-sloc-cache", "--baseline", BASELINE, "--update-baseline", "all"]
    if kind == "history":
        return ["snapshot", "--no-sloc-cache"] + (["--force"] if via == "force" else [])
    return ["stats", "summary"] if via == "stats" else ["check", "."]


def make_template(cli, kind, prior):
    """A project directory whose state file of this kind is in the prior state, plus one more
    source file than the prior state knows, so that the new document differs from the prior one."""
    sb = Sandbox(prefix="sgv-c13t-")
    new_project(sb)
    old_mtimes(sb)
    target = os.path.join(sb.proj, KIND_FILE[kind])
    if kind == "baseline":
        if prior == "valid":
            run_cli(sb, cli, ["check", ".", "--no-sloc-cache", "--update-baseline", "all"])
        elif prior == "large":
            sb.write(BASELINE, large_baseline())
    elif kind == "history":
        if prior == "valid":
            run_cli(sb, cli, ["snapshot", "--no-sloc-cache", "--force"], now=NOW0 - 200)
            run_cli(sb, cli, ["snapshot", "--no-sloc-cache", "--force"], now=NOW0 - 100)
        elif prior == "large":
            sb.write(HISTORY, large_history())
    else:
        if prior in ("valid", "large"):
            run_cli(sb, cli, ["check", "."])
            if prior == "large":
                sb.write(CACHE, large_cache(target))
    sb.write("c.rs", BIG + "fn f(){}\n")
    old_mtimes(sb)
    st, doc, size = read_state(target)
    want = "absent" if prior == "absent" else "ok"
    if st != want:
        raise CheckBroken(f"template {kind}/{prior}: state file is {st}")
    if prior == "large" and size < LARGE_MIN_BYTES:
        raise CheckBroken(f"template {kind}/large: the state file has only {size} bytes (must exceed 1 MiB by a margin)")
    return sb, doc, size


def copy_template(tsb):
    sb = Sandbox(prefix="sgv-c13-")
    shutil.rmtree(sb.proj)
    shutil.copytree(tsb.proj, sb.proj, symlinks=True)
    return sb


def norm(sb, s):
    return s.replace(sb.base, "<SB>")


def run_next(sb, cli, kind):
    out = []
    for name, args, now in NEXT[kind]:
        rc, so, se = run_cli(sb, cli, args, now=now)
        out.append((name, rc, norm(sb, so), norm(sb, se)))
    st, doc, _ = read_state(os.path.join(sb.proj, KIND_FILE[kind]))
    return out, st, entries_of(kind, doc)


def classify(kind, st, doc, prior_doc, new_doc):
    if st != "ok":
        return st
    if prior_doc is not None and doc == prior_doc:
        return "prior"
    if doc == new_doc:
        return "new"
    return "other"


def reference(cli, tsb, kind, prior, via, points):
    """Uncrashed save on a copy of the template: the new document, the hook trace of the save,
    and the reference behaviour of the next commands in the states prior / new."""
    ref = {}
    with copy_template(tsb) as sb:
        tr = os.path.join(sb.base, "trace")
        rc, so, se = run_cli(sb, cli, save_cmd(kind, prior, via), env={"SGV_TRACE": tr})
        st, doc, size = read_state(os.path.join(sb.proj, KIND_FILE[kind]))
        if st != "ok":
            raise CheckBroken(f"reference save {kind}/{prior}: {st} rc={rc} {se[-300:]}")
        traces = read_trace(tr)
        names = [n for v in traces.values() for n in v]
        ref["save_trace"] = names
        ref["aw_trace"] = [n for n in names if n.startswith("aw:")]
        ref["new_doc"], ref["new_size"], ref["save_rc"] = doc, size, rc
        ref["temp_left"] = temp_files(os.path.dirname(os.path.join(sb.proj, KIND_FILE[kind])), os.path.basename(KIND_FILE[kind]))
        ref["next_new"] = run_next(sb, cli, kind)
    with copy_template(tsb) as sb:
        ref["next_prior"] = run_next(sb, cli, kind)
    return ref


def kill_case(cli, tsb, kind, prior, via, k, points, ref, prior_doc):
    """Kill the real save at point k and observe."""
    with copy_template(tsb) as sb:
        tr = os.path.join(sb.base, "trace")
        target = os.path.join(sb.proj, KIND_FILE[kind])
        rc, so, se = run_cli(sb, cli, save_cmd(kind, prior, via), env={"SGV_TRACE": tr, "SGV_CRASH_AT": points[k]})
        traces = read_trace(tr)
        aw = [n for v in traces.values() for n in v if n.startswith("aw:")]
        st, doc, size = read_state(target)
        obs = {"rc": rc, "aw_trace": aw, "state": classify(kind, st, doc, prior_doc, ref["new_doc"]), "size": size,
               "temps": sorted(temp_files(os.path.dirname(target), os.path.basename(target)).values()),
               "entries_after_kill": entries_of(kind, doc)}
        obs["next"], obs["final_state"], obs["final_entries"] = run_next(sb, cli, kind)
        return obs


def run(ctx):
    cli, drv = prepare_state(ctx)
    proofs_ok = proofs_step(ctx, PROP_FILES)
    points = model_points(drv)
    cases = [(kind, prior, "check", k) for kind in KINDS for prior in PRIORS for k in range(len(points))]
    cases += [("cache", "valid", "stats", k) for k in range(len(points))]
    if ctx.tier == "thorough":
        for kind, prior, via in (("baseline", "valid", "new"), ("history", "valid", "force"), ("history", "absent", "force"),
                                 ("cache", "absent", "stats"), ("cache", "large", "stats")):
            cases += [(kind, prior, via, k) for k in range(len(points))]
    templates, refs = {}, {}
    mism, fails, hist = [], [], {}
    trace_ok = 0
    try:
        for key in sorted({(c[0], c[1], c[2]) for c in cases}):
            kind, prior, via = key
            tsb, prior_doc, prior_size = make_template(cli, kind, prior)
            templates[key] = (tsb, prior_doc, prior_size)
            refs[key] = reference(cli, tsb, kind, prior, via, points)
            # tie (a): the hook names of a real, complete save are the model's protocol points
            if refs[key]["aw_trace"] != points:
                mism.append({"relation": "SGV_TRACE of a complete save == State.AtomicWrite.points", "case": list(key),
                             "impl": refs[key]["aw_trace"], "model": points})
            else:
                trace_ok += 1
            if refs[key]["temp_left"]:
                fails.append({"what": "temp file left behind by a complete save", "case": list(key), "temps": refs[key]["temp_left"]})

        def one(c):
            kind, prior, via, k = c
            tsb, prior_doc, _ = templates[(kind, prior, via)]
            return kill_case(cli, tsb, kind, prior, via, k, points, refs[(kind, prior, via)], prior_doc)

        with cf.ThreadPoolExecutor(max_workers=12) as ex:
            obs = list(ex.map(one, cases))
    finally:
        for tsb, _, _ in templates.values():
            tsb.close()

    # model side
    lines = []
    for (kind, prior, via, k) in cases:
        ref = refs[(kind, prior, via)]
        lines.append("crash\t%s\t%s\t%s\t%d\t%d" % (kind, "-" if prior == "absent" else "1", "1,2", ref["new_size"], k))
    mouts = model(drv, lines)
    really_killed = set()
    for c, o, mo in zip(cases, obs, mouts):
        kind, prior, via, k = c
        ref = refs[(kind, prior, via)]
        hist[f"{kind}/{prior}"] = hist.get(f"{kind}/{prior}", 0) + 1
        m = dict(x.split("=", 1) for x in mo.split("\t"))
        mstate = {"absent": "absent", "empty": "empty", "val:1": "prior", "val:1,2": "new"}.get(m["target"], "other")
        mtemps = {"absent": [], "empty": [0], "full": [ref["new_size"]], "partial": ["partial"]}[m["temp"]]
        case = {"kind": kind, "prior": prior, "via": via, "point": points[k], "k": k}
        # the process must really have died at the point
        if o["rc"] == -6 and o["aw_trace"] == points[:k + 1]:
            really_killed.add((kind, prior, via, k))
        else:
            mism.append({"relation": "a process killed at point k has passed exactly the model's first k+1 points (rc -6)",
                         "case": case, "impl": {"rc": o["rc"], "aw_trace": o["aw_trace"]}, "model": points[:k + 1]})
        # ---- correspondence: target, temp file, next commands
        if o["state"] != mstate:
            mism.append({"relation": "target after kill == target (crash k)", "case": case, "impl": o["state"], "model": mstate})
        if o["temps"] != mtemps:
            mism.append({"relation": "left-over temp file == temp_of (crash k)", "case": case, "impl": o["temps"], "model": mtemps})
        exp_next = None
        if m["next"].startswith("proceed:") or m["next"] == "notfound":
            exp_next = ref["next_new"] if mstate == "new" else ref["next_prior"]
            if (o["next"], o["final_entries"]) != (exp_next[0], exp_next[2]):
                mism.append({"relation": "next commands after kill == the same commands on the state the model predicts", "case": case,
                             "impl": summarize(o["next"], o["final_entries"]), "model": summarize(exp_next[0], exp_next[2])})
        elif m["next"] == "parse":
            if o["next"][0][1] != 2:
                mism.append({"relation": "strict loader on an unparsable file exits 2", "case": case, "impl": summarize(o["next"], None), "model": "exit 2"})
        # ---- property oracle on the implementation
        bad = None
        unchanged = "absent" if prior == "absent" else "prior"
        if o["state"] not in (unchanged, "new"):
            bad = f"target is {o['state']} after the kill (must be {unchanged} or the complete new document)"
        else:
            want = ref["next_new"] if o["state"] == "new" else ref["next_prior"]
            if o["next"] != want[0]:
                bad = "a next command behaves differently from the same command on an intact %s file" % o["state"]
            before = o["entries_after_kill"] or []
            if kind != "baseline" and not set(before) <= set(o["final_entries"] or []):
                bad = "entries recorded before the next commands were discarded"
        if bad is None and kind == "history" and o["state"] in ("empty", "torn"):
            bad = "history unreadable"
        if bad is None and kind == "history":
            bad = history_listing(o)
        if bad:
            rec = {"kind": "property-oracle", "what": bad, "case": case, "observed": {"state": o["state"], "next": summarize(o["next"], o["final_entries"])},
                   "replay_cmd": "python3 tools/vp.py check C13 --replay <this file>"}
            if prior == "absent" and o["state"] == "empty" and points[k] in ("aw:after_open_target", "aw:after_lock") and ctx.known("K13_placeholder", bad):
                pass
            else:
                fails.append(rec)
    # ---- one command that saves TWO state files (cache, then baseline or the other way round)
    cm, cfl, ckilled, cn = combo(ctx, cli, drv, points)
    mism += cm
    fails += cfl
    hist["combo cache+baseline"] = cn
    # ---- crash histories: a killed save leaves its temp file; a later save with the SAME pid must not be damaged by it
    rm, rf, rkilled, rn, rnote = recycled_pid(ctx, cli, drv, points)
    mism += rm
    fails += rf
    hist["recycled pid after a kill"] = rn
    ctx.cov["recycled_pid"] = rnote
    # ---- targets that are links or mount points; kills injected at system calls instead of hook points
    lm, lf, lkilled, ln, lnote = links_and_syscalls(ctx, cli, drv, points)
    mism += lm
    fails += lf
    hist["link / mount-point targets, syscall kills"] = ln
    ctx.cov["links_and_syscalls"] = lnote
    # ---- two processes saving the same file: one is killed while the other stands inside its save
    tm, tf, tkilled, tn, tnote = two_process_crash(ctx, cli, drv, points)
    mism += tm
    fails += tf
    hist["two savers, one killed"] = tn
    ctx.cov["two_process_crash"] = tnote
    # ---- write faults (file-size limit: EFBIG or SIGXFSZ) inside a save; a .git directory appearing between two commands
    fm, ff, fkilled, fn_, fnote = faults_and_transitions(ctx, cli, drv, points)
    mism += fm
    fails += ff
    hist["write faults / size-limit kills / .git appears"] = fn_
    ctx.cov["faults_and_transitions"] = fnote
    ctx.cov["evaluations"] = len(cases) + cn + rn + ln + tn + fn_
    ctx.cov["distinct_nontrivial"] = len(really_killed) + ckilled + rkilled + lkilled + tkilled + fkilled
    ctx.cov["exhaustive"] = True
    ctx.cov["traces_validated_against_impl"] = trace_ok + len(really_killed)
    ctx.cov["rule"] = ("exhaustive product: every hook point of the save protocol (%d) x prior state {absent, valid, valid about 1 MB} x kind "
                       "{baseline via check --update-baseline, history via snapshot, cache via check} plus cache via stats; each case is a real "
                       "process aborted at the point (SGV_CRASH_AT), then the next commands run on what is left. non-trivial = distinct "
                       "(kind, prior, via, point) whose process really died at that point (exit by SIGABRT and hook trace equal to the model's prefix)" % len(points))
    ctx.cov["input_distribution"] = hist
    ctx.cov["model_vs_impl_mismatches"] = len(mism)
    ctx.cov["spawns"] = sum(1 + len(NEXT[c[0]]) for c in cases)
    for i in (6, 37, 68):
        c, o, mo = cases[i], obs[i], mouts[i]
        ctx.sample({"case": {"kind": c[0], "prior": c[1], "point": points[c[3]]}, "impl": {"target": o["state"], "temps": o["temps"], "next": summarize(o["next"], o["final_entries"])}, "model": mo})
    ctx.cov["trusted_base"] = TRUSTED_COMMON + [
        "kernel semantics of rename(2) (atomic rebinding) and flock(2) (per-inode reader-writer lock, dropped at process death) as modelled in State/Fs.v",
        "a crash is std::process::abort at a hook point: page cache survives, so the Fsync step is validated as an ordering fact only (no power loss)",
        "JSON documents are abstract values; complete documents parse, the empty file and proper prefixes do not"]
    ctx.assumptions = ["the hook points are the only places a crash is taken (between two points the code performs one protocol step)",
                       "no other process touches the state file during the save (C14 covers concurrency)"]
    xcheck(ctx, drv, cases, refs)
    for f in fails[:5]:
        ctx.violation(f)
    if not fails:
        if mism:
            ctx.violation({"kind": "correspondence-broken", "relation": mism[0]["relation"], "first_mismatch": mism[0], "mismatches": len(mism),
                           "note": "the model no longer describes the save protocol, so the C13 theorems do not transfer; the property oracle found no violating case among %d kills" % len(cases)},
                          no_input=True)
        elif not proofs_ok:
            ctx.violation({"kind": "proof-broken", "details": ctx.proof_broken}, no_input=True)


def history_header_ok(out, n):
    """`stats history` reports the TOTAL number of entries it loaded (how many of them it prints is a display
    default, not a matter of this property)"""
    if n == 0:
        return out.startswith("No history entries found.")
    m = re.match(r"History \((\d+) of (\d+) entries\)", out)
    return bool(m) and int(m.group(2)) == n and 1 <= int(m.group(1)) <= n


def history_listing(o):
    """Absolute oracle for the commands after a kill of a history save (independent of the reference
    runs, which use the same binary): `stats history` lists as many entries as the file on disk holds
    (whatever its size), the next snapshot is recorded and APPENDS to them."""
    before = o["entries_after_kill"] or []
    after = o["final_entries"]
    (n1, rc1, so1, _), (n2, rc2, so2, se2), (n3, rc3, so3, _) = o["next"]
    if rc1 != 0 or not history_header_ok(so1, len(before)):
        return "stats history does not list the %d entries of the history file: exit %s, `%s`" % (len(before), rc1, so1[:50].strip())
    if rc2 != 0 or "Snapshot recorded" not in so2:
        return "the next snapshot is not recorded: exit %s %s" % (rc2, (se2 or so2).strip()[:120])
    if after is None or after[:len(before)] != before or len(after) != len(before) + 1:
        return "the next snapshot did not append to the %d recorded entries: the history now has %s" % (len(before), "no readable content" if after is None else "%d entries" % len(after))
    if rc3 != 0 or not history_header_ok(so3, len(after)):
        return "stats history does not list the %d entries of the history file: exit %s, `%s`" % (len(after), rc3, so3[:50].strip())
    return None


def ns_available():
    try:
        p = subprocess.run(["unshare", "--pid", "--fork", "sh", "-c", "echo $$"], capture_output=True, text=True, timeout=20)
        return p.returncode == 0 and p.stdout.strip() == "1"
    except Exception:
        return False


def run_ns(sb, cli, args, now=NOW0, env=None):
    """One invocation in a fresh PID namespace (as in a container job): the tool is pid 1 every time."""
    return sb.run("unshare", ["--pid", "--fork", cli, "--color", "never"] + list(args), env=base_env(now, env), timeout=60)


def recycled_pid(ctx, cli, drv, points):
    """What a killed save leaves behind (the temp file .<name>.tmp.<pid>) must not damage a later
    save by a process with the same pid. Every invocation runs as pid 1 of its own PID namespace.
    (1) baseline: `check --update-baseline all` (two entries) killed at every point at which the
        temp file exists, one violation is fixed, the same command runs to completion (one entry,
        SHORTER document), `check --baseline` must load it;
    (2) history / cache: the ~1 MB temp file a killed save left is still there when a short
        document is saved by the same pid.
    Model: target (crash_from (after_crashes (fs_init prior) [(long, size, k)]) short size 9) = Some short."""
    mism, fails, killed, n = [], [], 0, 0
    if not ns_available():
        return mism, fails, 0, 0, {"skipped": "unshare --pid --fork is not usable here (needs root)"}
    temp_points = [k for k in range(len(points)) if points[k] in ("aw:after_create_temp", "aw:after_write", "aw:after_flush", "aw:after_fsync", "aw:after_open_target", "aw:after_lock")]
    save_b = ["check", ".", "--no-sloc-cache", "--baseline", BASELINE, "--update-baseline", "all"]
    next_b = ["check", ".", "--no-sloc-cache", "--baseline", BASELINE]
    jobs = []
    for prior in ("absent", "valid"):
        tsb, prior_doc, _ = make_template(cli, "baseline", prior)
        try:
            # reference: the second (shorter) save on a copy without any stale temp file
            with copy_template(tsb) as sb:
                sb.write("c.rs", SMALL)
                old_mtimes(sb)
                run_ns(sb, cli, save_b, now=NOW0 + 10)
                st, ref_doc, ref_size = read_state(os.path.join(sb.proj, BASELINE))
                ref_next = run_ns(sb, cli, next_b, now=NOW0 + 50)[0]
            if st != "ok":
                raise CheckBroken("reference of the shorter baseline save: " + st)

            def one(k):
                with copy_template(tsb) as sb:
                    tr = os.path.join(sb.base, "trace")
                    rc1, _, _ = run_ns(sb, cli, save_b, env={"SGV_CRASH_AT": points[k], "SGV_TRACE": tr})
                    died = [x for v in read_trace(tr).values() for x in v if x.startswith("aw:")] == points[:k + 1]
                    rc1 = "killed" if died and rc1 not in (0, 1, 2) else rc1
                    stale = temp_files(sb.proj, BASELINE)
                    st1, doc1, _ = read_state(os.path.join(sb.proj, BASELINE))
                    sb.write("c.rs", SMALL)
                    old_mtimes(sb)
                    rc2, _, se2 = run_ns(sb, cli, save_b, now=NOW0 + 10)
                    st2, doc2, size2 = read_state(os.path.join(sb.proj, BASELINE))
                    left = temp_files(sb.proj, BASELINE)
                    nrc, _, nse = run_ns(sb, cli, next_b, now=NOW0 + 50)
                    return {"rc1": rc1, "stale": stale, "state1": classify("baseline", st1, doc1, prior_doc, None), "rc2": rc2, "state2": st2,
                            "same": doc2 == ref_doc, "size2": size2, "left": left, "next_rc": nrc, "next_err": nse.strip()[:120], "err2": se2.strip()[:120]}

            with cf.ThreadPoolExecutor(max_workers=6) as ex:
                res = list(ex.map(one, temp_points))
            sizes = {}
            lines = ["hist\t%s\t1,2:%d:%d\t2\t%d\t9" % ("-" if prior == "absent" else "1", 100, k, ref_size) for k in temp_points]
            for k, r, mo in zip(temp_points, res, model(drv, lines)):
                n += 1
                case = {"kind": "baseline", "prior": prior, "point": points[k], "k": k, "then": "same command with one violation fixed, same pid (PID namespace)"}
                m = dict(x.split("=", 1) for x in mo.split("\t"))
                if r["rc1"] == "killed" and len(temps_of_pid(r["stale"], 1)) == 1:
                    killed += 1
                else:
                    mism.append({"relation": "the killed save (pid 1 of its namespace) leaves one temp file .<name>.tmp.1.<n>", "case": case, "impl": [r["rc1"], r["stale"]], "model": m["stale"]})
                if m["target"] != "val:2" or m["temp"] != "absent":
                    raise CheckBroken("model: a complete save after a crash history must install the new content: " + mo)
                # D95: the temp file is created exclusively under a fresh name, so the residue of the killed save is
                # neither reused nor touched (C13_temp_is_private); the later save removes its own temp file only
                if r["left"] != r["stale"]:
                    mism.append({"relation": "a save touches no temp file but its own: the residue of the killed save is unchanged, nothing else is left", "case": case,
                                 "impl": r["left"], "model": r["stale"]})
                if r["state2"] != "ok" or not r["same"] or r["next_rc"] != ref_next:
                    fails.append({"kind": "property-oracle", "what": "a save after a killed save of the same pid: baseline is %s (%d bytes, reference %d), equal to the reference: %s, temp files left: %s; next check --baseline exits %s (reference %s) %s"
                                  % (r["state2"], r["size2"], ref_size, r["same"], r["left"], r["next_rc"], ref_next, r["next_err"]), "case": case,
                                  "replay_cmd": "python3 tools/vp.py check C13 --replay <this file>"})
        finally:
            tsb.close()
    # history and cache: the stale temp file of a killed ~1 MB save is present when a short document is saved
    for kind in ("history", "cache"):
        big, _, _ = make_template(cli, kind, "large")
        small, _, _ = make_template(cli, kind, "absent")
        try:
            rel = KIND_FILE[kind]
            with copy_template(small) as sb:
                run_ns(sb, cli, save_cmd(kind, "absent", "check"), now=NOW0 + 10)
                st, ref_doc, ref_size = read_state(os.path.join(sb.proj, rel))
            for k in [x for x in temp_points if points[x] in ("aw:after_flush", "aw:after_lock")]:
                n += 1
                case = {"kind": kind, "prior": "large, then absent", "point": points[k], "k": k, "then": "short save by the same pid with the stale ~1 MB temp file present"}
                with copy_template(big) as sbig, copy_template(small) as sb:
                    tr = os.path.join(sbig.base, "trace")
                    rc1, _, _ = run_ns(sbig, cli, save_cmd(kind, "large", "check"), env={"SGV_CRASH_AT": points[k], "SGV_TRACE": tr})
                    if [x for v in read_trace(tr).values() for x in v if x.startswith("aw:")] == points[:k + 1] and rc1 not in (0, 1, 2):
                        rc1 = "killed"
                    d = os.path.dirname(os.path.join(sbig.proj, rel))
                    stale = temp_files(d, os.path.basename(rel))
                    mine = temps_of_pid(stale, 1)
                    if rc1 != "killed" or len(mine) != 1:
                        mism.append({"relation": "the killed save (pid 1 of its namespace) leaves one temp file .<name>.tmp.1.<n>", "case": case, "impl": [rc1, stale]})
                        continue
                    killed += 1
                    skey = list(mine)[0]
                    tname = "." + os.path.basename(rel) + ".tmp." + skey
                    os.makedirs(os.path.dirname(os.path.join(sb.proj, rel)), exist_ok=True)
                    # the residue under its own name and under the pid-only name of older versions
                    shutil.copy(os.path.join(d, tname), os.path.join(os.path.dirname(os.path.join(sb.proj, rel)), tname))
                    shutil.copy(os.path.join(d, tname), os.path.join(os.path.dirname(os.path.join(sb.proj, rel)), "." + os.path.basename(rel) + ".tmp.1"))
                    rc2, _, se2 = run_ns(sb, cli, save_cmd(kind, "absent", "check"), now=NOW0 + 10)
                    st2, doc2, size2 = read_state(os.path.join(sb.proj, rel))
                    left = temp_files(os.path.dirname(os.path.join(sb.proj, rel)), os.path.basename(rel))
                    nxt, fst, fent = run_next(sb, cli, kind)
                    if left != {skey: mine[skey], "1": mine[skey]}:
                        mism.append({"relation": "a save touches no temp file but its own: the residues are unchanged, nothing else is left", "case": case, "impl": left, "model": {skey: mine[skey], "1": mine[skey]}})
                    if st2 != "ok" or doc2 != ref_doc or fst != "ok":
                        fails.append({"kind": "property-oracle", "what": "a short %s save with a stale %d-byte temp file of the same pid: file is %s (%d bytes, reference %d), temp left %s, after the next commands %s"
                                      % (kind, mine[skey], st2, size2, ref_size, left, fst), "case": case})
        finally:
            big.close()
            small.close()
    return mism, fails, killed, n, {"cases": n, "killed_as_pid_1": killed, "how": "unshare --pid --fork per invocation"}


def run_limited(sb, cli, args, limit, ignore, now=NOW0, env=None):
    """The CLI with RLIMIT_FSIZE = limit bytes: a write that would extend ANY regular file beyond the limit
    is cut there; the process then gets SIGXFSZ (killed inside the write system call, wherever that is in the code),
    or, with the signal ignored, the write fails with EFBIG (an I/O fault like a full disk)."""
    argv = ["prlimit", "--fsize=%d" % limit, "--"] + ([ "sh", "-c", 'trap "" XFSZ; exec "$@"', "sh"] if ignore else []) + [cli, "--color", "never"] + list(args)
    return sb.run(argv[0], argv[1:], env=base_env(now, env), timeout=60)


def state_files(proj):
    """every file under the project (the .git directory included) that is named like a state file -> read_state"""
    out = {}
    for d, _, fs_ in os.walk(proj):
        for f in fs_:
            if f in (os.path.basename(HISTORY), os.path.basename(CACHE), BASELINE):
                out[os.path.relpath(os.path.join(d, f), proj)] = read_state(os.path.join(d, f))
    return out


def faults_and_transitions(ctx, cli, drv, points):
    """(A) A save under a file-size limit of 0 / 64 bytes, for each kind and prior absent / valid: the write to
    the temp file is cut; with SIGXFSZ the process dies inside the write (a kill at a system call, not at a hook
    point), with the signal ignored the write FAILS (EFBIG). Model: a failed step ends the protocol before the
    rename, the guard removes the temp file (as in save_refused); a kill leaves a partial temp file; the target
    is untouched either way. Oracle: target unchanged or the complete new document, next commands as on an
    intact file.
    (B) History / cache recorded without .git, then a .git directory appears (the state directory moves to
    .git/sloc-guard/): the first command afterwards (reader or writer) runs under the size limit (killed at its
    first write beyond it) or unrestricted. Oracle: EVERY state file under the project, old and new location,
    is absent or a complete document, the old files are unchanged, and the next commands list / append to what
    the active history file holds."""
    mism, fails, killed, n = [], [], 0, 0
    if shutil.which("prlimit") is None:
        return mism, fails, 0, 0, {"skipped": "prlimit not available"}
    tpl, jobs = {}, []
    for kind in KINDS:
        for prior in ("absent", "valid"):
            tsb, prior_doc, _ = make_template(cli, kind, prior)
            tpl[(kind, prior)] = (tsb, prior_doc, reference(cli, tsb, kind, prior, "check", points))
            for limit in (0, 64):
                for ignore in (True, False):
                    jobs.append(("A", kind, prior, limit, ignore, None))
    for kind, prior in (("history", "valid"), ("history", "large"), ("cache", "valid")):
        if (kind, prior) not in tpl:
            tsb, prior_doc, _ = make_template(cli, kind, prior)
            tpl[(kind, prior)] = (tsb, prior_doc, None)
        cmds = [["stats", "history"], ["snapshot", "--no-sloc-cache", "--force"], ["check", "."], ["stats", "summary"]] if kind == "history" else [["check", "."], ["stats", "summary"]]
        for cmd in cmds:
            for limit in (64, None):
                jobs.append(("B", kind, prior, limit, False, cmd))

    def one(job):
        leg, kind, prior, limit, ignore, cmd = job
        tsb, prior_doc, ref = tpl[(kind, prior)]
        with copy_template(tsb) as sb:
            target = os.path.join(sb.proj, KIND_FILE[kind])
            if leg == "A":
                rc, so, se = run_limited(sb, cli, save_cmd(kind, prior, "check"), limit, ignore)
                st, doc, size = read_state(target)
                o = {"rc": rc, "state": classify(kind, st, doc, prior_doc, ref["new_doc"]), "size": size, "err": norm(sb, se).strip()[-160:],
                     "temps": sorted(temp_files(os.path.dirname(target), os.path.basename(target)).values()), "entries_after_kill": entries_of(kind, doc)}
                o["next"], o["final_state"], o["final_entries"] = run_next(sb, cli, kind)
                return o
            os.mkdir(os.path.join(sb.proj, ".git"))
            rc, so, se = run_limited(sb, cli, cmd, limit, False) if limit is not None else run_cli(sb, cli, cmd)
            files = state_files(sb.proj)
            active = os.path.join(sb.proj, ".git", "sloc-guard", os.path.basename(HISTORY))
            ast, adoc, _ = read_state(active)
            o = {"rc": rc, "err": norm(sb, se).strip()[-160:], "files": {k: (v[0], v[2]) for k, v in files.items()},
                 "old_same": files.get(KIND_FILE[kind], ("absent", None, 0))[1] == prior_doc, "entries_after_kill": entries_of("history", adoc) if adoc else []}
            o["next"] = [(name, r, norm(sb, a), norm(sb, b)) for name, args, now in NEXT["history"] for r, a, b in [run_cli(sb, cli, args, now=now)]]
            st2, doc2, _ = read_state(active)
            o["final_state"], o["final_entries"] = st2, entries_of("history", doc2)
            return o

    try:
        with cf.ThreadPoolExecutor(max_workers=8) as ex:
            res = list(ex.map(one, jobs))
    finally:
        for tsb, _, _ in tpl.values():
            tsb.close()
    for (leg, kind, prior, limit, ignore, cmd), o in zip(jobs, res):
        n += 1
        unchanged = "absent" if prior == "absent" else "prior"
        bad = None
        if leg == "A":
            ref = tpl[(kind, prior)][2]
            case = {"kind": kind, "prior": prior, "then": "faults", "file_size_limit_bytes": limit, "command": save_cmd(kind, prior, "check"),
                    "fault": "writes beyond the limit fail with EFBIG (SIGXFSZ ignored)" if ignore else "the process is killed by SIGXFSZ inside the write beyond the limit",
                    "how": "prlimit --fsize=%d -- %s<cli> ..." % (limit, "sh -c 'trap \"\" XFSZ; exec \"$@\"' sh " if ignore else "")}
            if not ignore and o["rc"] == -25:
                killed += 1
            if o["state"] != unchanged or (ignore and o["temps"]) or (not ignore and o["rc"] != -25):
                mism.append({"relation": "a write to the temp file that fails ends the protocol before the rename (temp file removed); a kill inside the write leaves the target untouched", "case": case,
                             "impl": [o["rc"], o["state"], o["temps"], o["err"]], "model": [unchanged, [] if ignore else "partial temp"]})
            if o["state"] not in (unchanged, "new"):
                bad = "%s file is %s (%d bytes) after a save whose write to the temp file was cut at %d bytes (%s); exit %s, stderr `%s`" % (kind, o["state"], o["size"], limit, "EFBIG" if ignore else "SIGXFSZ", o["rc"], o["err"][-80:])
            else:
                want = ref["next_new"] if o["state"] == "new" else ref["next_prior"]
                if o["next"] != want[0]:
                    bad = "a next command behaves differently from the same command on an intact %s file" % o["state"]
                elif kind == "history":
                    bad = history_listing(o)
        else:
            case = {"kind": kind, "prior": prior, "then": "faults", "transition": "mkdir .git after the %s was recorded in .sloc-guard/" % kind, "command": cmd,
                    "file_size_limit_bytes": limit, "fault": "killed by SIGXFSZ at the first write beyond the limit" if limit is not None else "none"}
            if o["rc"] == -25:
                killed += 1
            broken = {k: v for k, v in o["files"].items() if v[0] != "ok"}
            if broken:
                bad = "state files that are not complete documents after `%s` (exit %s) as the first command after .git appeared: %s" % (" ".join(cmd), o["rc"], broken)
            elif not o["old_same"]:
                bad = "the %s file recorded before .git appeared was changed" % kind
            else:
                bad = history_listing(o)
        if bad:
            fails.append({"kind": "property-oracle", "what": bad, "case": case, "observed": {k: v for k, v in o.items() if k not in ("next",)} | {"next": summarize(o["next"], o["final_entries"])},
                          "replay_cmd": "python3 tools/vp.py check C13 --replay <this file>"})
    return mism, fails, killed, n, {"cases": n, "killed_by_SIGXFSZ": killed}


HOLD_KILL = [("aw:after_fsync", "aw:after_create_temp"), ("aw:after_fsync", "aw:after_fsync"), ("aw:after_create_temp", "aw:after_create_temp"),
             ("aw:after_create_temp", "aw:after_fsync"), ("aw:after_flush", "aw:after_write")]


def two_process_crash(ctx, cli, drv, points):
    """Two processes save the same state file (the same command, started one after the other):
    A is held at a barrier inside its save (temp file created / complete), B is killed inside
    ITS save, then A is released and finishes. The temp file of a save is private to it
    (C13_temp_is_private: Temp p is touched by process p only), so B's death can do nothing to
    what A renames: the target is A's complete document, the only residue is B's temp file.
    Each pair runs (a) as two ordinary processes (distinct pids) and (b) each as pid 1 of its own
    PID namespace (two containers sharing the project directory).
    History: the update lock keeps B out of the save while A is inside (B gives up after its lock
    time-out without touching anything); the oracle is the same."""
    import time as _t
    mism, fails, killed, n = [], [], 0, 0
    flav = [False] + ([True] if ns_available() else [])
    jobs = []
    tpl = {}
    for kind in KINDS:
        for prior in ("absent", "valid"):
            tsb, prior_doc, _ = make_template(cli, kind, prior)
            tpl[(kind, prior)] = (tsb, prior_doc, reference(cli, tsb, kind, prior, "check", points))
            for ns in flav:
                for hold, kill in (HOLD_KILL if kind != "history" else HOLD_KILL[:2]):
                    jobs.append((kind, prior, ns, hold, kill))

    def one(job):
        kind, prior, ns, hold, kill = job
        tsb, prior_doc, ref = tpl[(kind, prior)]
        with copy_template(tsb) as sb:
            sync = os.path.join(sb.base, "sync")
            os.makedirs(sync)
            tra, trb = os.path.join(sb.base, "trace-a"), os.path.join(sb.base, "trace-b")
            target = os.path.join(sb.proj, KIND_FILE[kind])
            argv = ([cli] if not ns else ["unshare", "--pid", "--fork", cli]) + ["--color", "never"] + save_cmd(kind, prior, "check")
            ea = dict(sb.env)
            ea.update(base_env(NOW0, {"SGV_SYNC_DIR": sync, "SGV_TAG": "A", "SGV_SYNC_POINTS": hold, "SGV_TRACE": tra}))
            pa = subprocess.Popen(argv, cwd=sb.proj, env=ea, stdout=subprocess.PIPE, stderr=subprocess.PIPE)
            at = os.path.join(sync, "A.0.%s.at" % hold)
            t0 = _t.time()
            while not os.path.exists(at) and pa.poll() is None and _t.time() - t0 < 30:
                _t.sleep(0.002)
            held = os.path.exists(at)
            rcb, _, seb = sb.run(argv[0], argv[1:], env=base_env(NOW0, {"SGV_CRASH_AT": kill, "SGV_TRACE": trb, "SGV_LOCK_TIMEOUT_MS": "300"}), timeout=60)
            awb = [x for v in read_trace(trb).values() for x in v if x.startswith("aw:")]
            mst, mdoc, _ = read_state(target)
            mid_state = classify(kind, mst, mdoc, prior_doc, ref["new_doc"])
            mid_temps = sorted(temp_files(os.path.dirname(target), os.path.basename(target)).values())
            open(os.path.join(sync, "A.0.go"), "w").close()
            try:
                soa, sea = pa.communicate(timeout=60)
            except subprocess.TimeoutExpired:
                pa.kill()
                soa, sea = pa.communicate()
            awa = [x for v in read_trace(tra).values() for x in v if x.startswith("aw:")]
            st, doc, size = read_state(target)
            o = {"held": held, "rc_a": pa.returncode, "aw_a": awa, "rc_b": rcb, "aw_b": awb, "b_killed": rcb not in (0, 1, 2) and awb == points[:points.index(kill) + 1],
                 "mid_state": mid_state, "mid_temps": mid_temps, "state": classify(kind, st, doc, prior_doc, ref["new_doc"]), "size": size,
                 "temps": sorted(temp_files(os.path.dirname(target), os.path.basename(target)).values()),
                 "entries_after_kill": entries_of(kind, doc), "err_a": sea.decode("utf-8", "replace").strip()[-200:]}
            o["next"], o["final_state"], o["final_entries"] = run_next(sb, cli, kind)
            return o

    try:
        with cf.ThreadPoolExecutor(max_workers=8) as ex:
            res = list(ex.map(one, jobs))
    finally:
        for tsb, _, _ in tpl.values():
            tsb.close()
    for (kind, prior, ns, hold, kill), o in zip(jobs, res):
        n += 1
        ref = tpl[(kind, prior)][2]
        case = {"kind": kind, "prior": prior, "A_held_at": hold, "B_killed_at": kill, "then": "two savers",
                "processes": "each pid 1 of its own PID namespace (unshare --pid --fork)" if ns else "two ordinary processes",
                "command": save_cmd(kind, prior, "check")}
        killed += 1 if o["b_killed"] else 0
        # model: B's prefix touches Temp B only; A's complete save installs the new document and removes Temp A
        want_temps = [] if not o["b_killed"] else ([0] if kill == "aw:after_create_temp" or (kill == "aw:after_write" and ref["new_size"] < 8192) else [ref["new_size"]])
        if not o["held"] or o["aw_a"] != points or o["rc_a"] != ref["save_rc"]:
            mism.append({"relation": "the held process A passes the whole protocol once released (exit as in a solo save)", "case": case,
                         "impl": [o["held"], o["rc_a"], o["aw_a"], o["err_a"]], "model": [ref["save_rc"], points]})
        elif kind != "history" and not o["b_killed"]:
            mism.append({"relation": "process B is killed at its point while A is held (no lock is held by A there)", "case": case, "impl": [o["rc_b"], o["aw_b"]]})
        elif o["state"] != "new" or o["temps"] != want_temps:
            mism.append({"relation": "target == A's document, residue == B's private temp file (Temp p is touched by p only)", "case": case,
                         "impl": [o["state"], o["temps"]], "model": ["new", want_temps]})
        bad = None
        unchanged = "absent" if prior == "absent" else "prior"
        if o["mid_state"] != unchanged:
            bad = "after B was killed (A still held before its rename) the %s file is %s" % (kind, o["mid_state"])
        elif o["state"] not in (unchanged, "new"):
            bad = "%s file is %s (%d bytes) after B was killed at %s and A, held at %s, finished its save" % (kind, o["state"], o["size"], kill, hold)
        elif o["aw_a"] == points and o["rc_a"] == ref["save_rc"] and o["state"] != "new":
            bad = "A completed its save (hook trace complete, exit %s) but the %s file is %s" % (o["rc_a"], kind, o["state"])
        else:
            want = ref["next_new"] if o["state"] == "new" else ref["next_prior"]
            if o["next"] != want[0]:
                bad = "a next command behaves differently from the same command on an intact %s file" % o["state"]
            elif kind == "history":
                bad = history_listing(o)
        if bad:
            fails.append({"kind": "property-oracle", "what": bad, "case": case,
                          "observed": {"state": o["state"], "temps": o["temps"], "A": [o["rc_a"], o["err_a"]], "B": [o["rc_b"], o["aw_b"][-1:]], "next": summarize(o["next"], o["final_entries"])},
                          "replay_cmd": "python3 tools/vp.py check C13 --replay <this file>"})
    return mism, fails, killed, n, {"cases": n, "B_killed_inside_its_save": killed, "pid_namespace_variant": len(flav) == 2}


FLAVOURS = ["regular", "symlink", "hardlink", "bindmount"]
INJECT = ["write", "copy_file_range", "rename"]


def links_and_syscalls(ctx, cli, drv, points):
    """The state file as a regular file, a symbolic link, a hard link and a bind-mount point, for each
    of the three kinds.
    (a) protocol oracle: a save that changes the bytes read through the state file's path must have
        passed the whole protocol (SGV_TRACE contains aw:start .. aw:after_rename in model order);
        the model: links are renamed over like any name; rename(2) onto a mount point is refused
        (EBUSY), the save stops after aw:after_lock with the file unchanged (C13_refused_rename).
    (b) kills at system calls (strace -P <path> -e inject=<syscall>:signal=SIGKILL) on the target's
        own path: write / copy_file_range must never touch it (only the temp file is written), a kill
        at the rename leaves it unchanged. After every run the file is the prior or the complete new
        document and the next command loads it."""
    mism, fails, killed, n = [], [], 0, 0
    have_strace = shutil.which("strace") is not None
    try:
        can_mount = subprocess.run(["unshare", "-m", "true"], capture_output=True, timeout=20).returncode == 0
    except Exception:
        can_mount = False
    note = {"strace": have_strace, "bind_mount": can_mount, "cases": 0, "killed_by_injection": 0}
    jobs = []
    for kind in KINDS:
        tsb, prior_doc, _ = make_template(cli, kind, "valid")
        rel = KIND_FILE[kind]
        with copy_template(tsb) as sb:
            run_cli(sb, cli, save_cmd(kind, "valid", "check"))
            new_doc = read_state(os.path.join(sb.proj, rel))[1]
        for fl in FLAVOURS:
            if fl == "bindmount" and not can_mount:
                continue
            jobs.append((kind, tsb, prior_doc, new_doc, fl, None))
            if have_strace:
                for sc in INJECT:
                    jobs.append((kind, tsb, prior_doc, new_doc, fl, sc))

    def one(job):
        kind, tsb, prior_doc, new_doc, fl, sc = job
        rel = KIND_FILE[kind]
        with copy_template(tsb) as sb:
            target = os.path.join(sb.proj, rel)
            real = target
            if fl in ("symlink", "hardlink"):
                real = os.path.join(sb.base, "shared", os.path.basename(rel))
                os.makedirs(os.path.dirname(real))
                shutil.move(target, real)
                (os.symlink if fl == "symlink" else os.link)(real, target)
            tr = os.path.join(sb.base, "trace")
            log = os.path.join(sb.base, "strace.log")
            argv = [cli, "--color", "never"] + save_cmd(kind, "valid", "check")
            if sc:
                # -P matches descriptor-based calls (write, copy_file_range) by the file's real path; the one
                # rename of the command (path arguments, relative) is injected without a path filter
                flt = [] if sc == "rename" else ["-P", real, "-P", target]
                argv = ["strace", "-f", "-o", log] + flt + ["-e", "trace=" + sc, "-e", "inject=%s:signal=SIGKILL" % sc] + argv
            if fl == "bindmount":
                argv = ["unshare", "-m", "sh", "-c", 'mount --bind "$0" "$0" && exec "$@"', target] + argv
            rc, so, se = sb.run(argv[0], argv[1:], env=base_env(NOW0, {"SGV_TRACE": tr}), timeout=120)
            was_killed = bool(sc) and os.path.exists(log) and "killed by SIGKILL" in open(log).read()
            aw = [x for v in read_trace(tr).values() for x in v if x.startswith("aw:")]
            st, doc, size = read_state(target)
            temps = sorted(temp_files(os.path.dirname(target), os.path.basename(target)).values())
            nxt, fst, fent = run_next(sb, cli, kind)
            return {"rc": rc, "killed": was_killed, "aw": aw, "state": classify(kind, st, doc, prior_doc, new_doc), "temps": temps,
                    "next_rcs": [x[1] for x in nxt], "final": fst, "err": se.strip()[-160:]}

    try:
        with cf.ThreadPoolExecutor(max_workers=8) as ex:
            res = list(ex.map(one, jobs))
    finally:
        for tsb in {id(j[1]): j[1] for j in jobs}.values():
            tsb.close()
    refused = dict(x.split("=", 1) for x in model(drv, ["crash\tbaseline\t1\t1,2\t100\t7"])[0].split("\t"))["target"]
    if refused != "val:1":
        raise CheckBroken("model: a refused rename must leave the prior document")
    for (kind, _, _, _, fl, sc), r in zip(jobs, res):
        n += 1
        case = {"kind": kind, "prior": "valid", "flavour": fl, "inject": sc, "then": "link/mount"}
        killed += 1 if r["killed"] else 0
        # model: which state, which trace
        if sc in ("write", "copy_file_range") or sc is None:
            want_state = "prior" if fl == "bindmount" else "new"
            want_aw = points[:8] if fl == "bindmount" else points
            if r["killed"]:
                mism.append({"relation": "the save never writes or copies onto the state file's own path (only the temp file is written, then renamed)", "case": case, "impl": "killed at " + sc})
            elif r["state"] != want_state or r["aw"] != want_aw or r["temps"]:
                mism.append({"relation": "state and hook trace of a save onto a %s target == model (%s)" % (fl, "refused rename, file unchanged" if fl == "bindmount" else "whole protocol, new document"),
                             "case": case, "impl": [r["state"], r["aw"], r["temps"], r["err"]], "model": [want_state, want_aw]})
        else:
            if not r["killed"]:
                mism.append({"relation": "the save performs a rename system call (where the injected kill takes place)", "case": case, "impl": [r["rc"], r["state"], r["err"]]})
            elif r["state"] != "prior" or r["aw"] != points[:8]:
                mism.append({"relation": "a kill at the rename system call == crash 7 (target unchanged)", "case": case, "impl": [r["state"], r["aw"]], "model": ["prior", points[:8]]})
        # property oracle
        bad = None
        if r["state"] not in ("prior", "new"):
            bad = "the %s file (%s target) is %s after the %s" % (kind, fl, r["state"], "kill at " + sc if r["killed"] else "save")
        elif r["state"] == "new" and r["aw"] != points:
            bad = "the %s file (%s target) was changed by a save that did not go through the protocol: hook trace %s" % (kind, fl, r["aw"])
        elif r["final"] != "ok" or (kind == "baseline" and 2 in r["next_rcs"]):
            bad = "the next commands cannot use the %s file (%s target): exits %s, file %s" % (kind, fl, r["next_rcs"], r["final"])
        if bad:
            fails.append({"kind": "property-oracle", "what": bad, "case": case, "observed": r, "replay_cmd": "python3 tools/vp.py check C13 --replay <this file>"})
    note["cases"], note["killed_by_injection"] = n, killed
    return mism, fails, killed, n, note


COMBO_CMD = ["check", ".", "--baseline", BASELINE, "--update-baseline", "all"]


def combo(ctx, cli, drv, points):
    """`check --baseline B --update-baseline all` with the cache enabled performs two saves in one
    process. Kill at every point of the first and of the second save (SGV_CRASH_AT=<point>#j),
    for both files absent and both valid; each file must be unchanged or completely new, and
    which one has changed must agree with the model (first save complete before the second starts)."""
    mism, fails, killed, n = [], [], 0, 0
    files = {"cache": CACHE, "baseline": BASELINE}
    for prior in ("absent", "valid"):
        tsb = Sandbox(prefix="sgv-c13t-")
        try:
            new_project(tsb)
            old_mtimes(tsb)
            if prior == "valid":
                run_cli(tsb, cli, COMBO_CMD)
            tsb.write("c.rs", BIG + "fn f(){}\n")
            old_mtimes(tsb)
            prior_docs = {k: read_state(os.path.join(tsb.proj, f))[1] for k, f in files.items()}
            with copy_template(tsb) as sb:
                tr = os.path.join(sb.base, "trace")
                run_cli(sb, cli, COMBO_CMD, env={"SGV_TRACE": tr})
                new_docs = {k: read_state(os.path.join(sb.proj, f))[1] for k, f in files.items()}
                aw = [x for v in read_trace(tr).values() for x in v if x.startswith("aw:")]
                ref_next = run_cli(sb, cli, ["check", ".", "--baseline", BASELINE], now=NOW0 + 50)[0]
            if aw != points + points:
                mism.append({"relation": "a command saving two files passes the protocol points twice", "impl": aw, "model": points + points})
                continue
            # which file is saved first: kill right after the first rename
            with copy_template(tsb) as sb:
                run_cli(sb, cli, COMBO_CMD, env={"SGV_CRASH_AT": "aw:after_rename#1"})
                first = [k for k, f in files.items() if read_state(os.path.join(sb.proj, f))[1] == new_docs[k] and new_docs[k] != prior_docs[k]]
            if len(first) != 1:
                mism.append({"relation": "exactly one file is new after the first rename", "impl": first})
                continue
            order = [first[0]] + [k for k in files if k != first[0]]

            def one(jk):
                j, k = jk
                with copy_template(tsb) as sb:
                    rc, so, se = run_cli(sb, cli, COMBO_CMD, env={"SGV_CRASH_AT": "%s#%d" % (points[k], j)})
                    st = {}
                    for kind, f in files.items():
                        s_, doc, _ = read_state(os.path.join(sb.proj, f))
                        st[kind] = classify(kind, s_, doc, prior_docs[kind], new_docs[kind])
                    nrc, nso, nse = run_cli(sb, cli, ["check", ".", "--baseline", BASELINE], now=NOW0 + 50)
                    after = {kind: read_state(os.path.join(sb.proj, f))[0] for kind, f in files.items()}
                    return rc, st, nrc, nse, after

            jks = [(j, k) for j in (1, 2) for k in range(len(points))]
            with cf.ThreadPoolExecutor(max_workers=10) as ex:
                res = list(ex.map(one, jks))
            lines = []
            for (j, k) in jks:
                p = "-" if prior == "absent" else "1"
                lines.append("crash\tcache\t%s\t1,2\t100\t%d" % (p, k if j == 1 else 10))
                lines.append("crash\tcache\t%s\t1,2\t100\t%d" % (p, 0 if j == 1 else k))
            mo = model(drv, lines)
            tok = {"absent": "absent", "empty": "empty", "val:1": "prior", "val:1,2": "new"}
            for idx, ((j, k), (rc, st, nrc, nse, after)) in enumerate(zip(jks, res)):
                n += 1
                case = {"kind": "cache+baseline", "prior": prior, "point": points[k], "hit": j, "k": k, "order": order}
                if rc == -6:
                    killed += 1
                else:
                    mism.append({"relation": "the process dies at the j-th hit of the point", "case": case, "impl": rc})
                want = {order[0]: tok.get(dict(x.split("=", 1) for x in mo[2 * idx].split("\t"))["target"], "other"),
                        order[1]: tok.get(dict(x.split("=", 1) for x in mo[2 * idx + 1].split("\t"))["target"], "other")}
                if st != want:
                    mism.append({"relation": "both files after a kill during the first / second save == model", "case": case, "impl": st, "model": want})
                unchanged = "absent" if prior == "absent" else "prior"
                bad = [kind for kind, v in st.items() if v not in (unchanged, "new")]
                # exit 2 of the next check is legitimate only when the baseline is (still) absent: Baseline file not found
                if bad or (nrc == 2) != (st["baseline"] == "absent") or any(v in ("empty", "torn") for v in after.values()):
                    fails.append({"kind": "property-oracle", "what": "after a kill during a two-file save: %s; next check exit %s %s" % (st, nrc, nse.strip()[:100]), "case": case})
        finally:
            tsb.close()
    return mism, fails, killed, n


def summarize(nxt, entries):
    return {"cmds": [(n, rc, (so.strip().splitlines() or [""])[0][:80], (se.strip().splitlines() or [""])[0][:120]) for n, rc, so, se in nxt],
            "final_entries": (entries if entries is None or len(entries) < 8 else "%d entries" % len(entries))}


def xcheck(ctx, drv, cases, refs):
    """Extraction against vm_compute: the crash function on every (prior, size class, k)."""
    exprs, lines = [], []
    for prior in ("None", "Some (ser [1])"):
        for sz in (100, 20000):
            for k in range(11):
                exprs.append("let f := crash (%s) (ser [1;2]) %d %d in "
                             "(match target f with None => [7] | Some b => 8 :: b end) ++ [99] ++ (match temp_of f with None => [7] | Some b => 8 :: b end) ++ [99] ++ "
                             "[match load_kind Baseline f with Proceed _ => 1 | ProceedDiscarding => 2 | ExitNotFound => 3 | ExitParse => 4 end; "
                             "match load_kind History f with Proceed _ => 1 | ProceedDiscarding => 2 | ExitNotFound => 3 | ExitParse => 4 end]" % (prior, sz, k))
                lines.append("crashraw\t%s\t1,2\t%d\t%d" % ("-" if prior == "None" else "1", sz, k))
    res = coq_eval("From Coq Require Import NArith List.\nFrom SG Require Import State.Fs State.AtomicWrite.", exprs)
    mouts = model(drv, lines)
    bad = 0
    for r, mo in zip(res, mouts):
        if [int(x) for x in re.findall(r"\d+", r)] != [int(x) for x in mo.split(",")]:
            bad += 1
    ctx.cov["extraction_crosscheck"] = {"cases": len(exprs), "disagreements": bad}
    if bad or len(res) != len(exprs):
        raise CheckBroken("extracted OCaml and vm_compute disagree on %d/%d crash cases" % (bad, len(exprs)))


def replay(ctx, path):
    j = json.load(open(path))
    cli, drv = prepare_state(ctx)
    points = model_points(drv)
    c = j.get("case") or j.get("first_mismatch", {}).get("case")
    if not isinstance(c, dict):
        print("replay file names no single case:", json.dumps(j)[:400])
        return 0
    if "then" in c or c.get("kind") == "cache+baseline":
        print("case :", c)
        f = (links_and_syscalls(ctx, cli, drv, points) if c.get("then") == "link/mount" else two_process_crash(ctx, cli, drv, points) if c.get("then") == "two savers" else faults_and_transitions(ctx, cli, drv, points) if c.get("then") == "faults" else recycled_pid(ctx, cli, drv, points) if "then" in c else combo(ctx, cli, drv, points))
        print("mismatches:", json.dumps(f[0])[:1500])
        print("oracle    :", json.dumps(f[1])[:3000])
        return 0
    kind, prior, via, k = c["kind"], c["prior"], c.get("via", "check"), c["k"]
    tsb, prior_doc, _ = make_template(cli, kind, prior)
    try:
        ref = reference(cli, tsb, kind, prior, via, points)
        o = kill_case(cli, tsb, kind, prior, via, k, points, ref, prior_doc)
    finally:
        tsb.close()
    mo = model(drv, ["crash\t%s\t%s\t1,2\t%d\t%d" % (kind, "-" if prior == "absent" else "1", ref["new_size"], k)])[0]
    print("case :", c)
    print("impl : target", o["state"], "temps", o["temps"], "rc", o["rc"])
    print("       next", json.dumps(summarize(o["next"], o["final_entries"])))
    print("model:", mo)
    return 0
