"""C09 -- baseline round trip and non-masking."""
import json
from check_tail import *  # noqa

PROP_FILES = ["Check/Properties_C09.v"]
MANIFEST = dict(
    technique="Coq proof (induction over arbitrary result lists and operation histories, fold_left invariants) on a Gallina model of "
              "check_baseline_ops.rs and runner.rs:330-392, tied by library-level differential execution of the extracted model against the "
              "re-exported functions and by replaying edit/update/check histories on the real CLI over a small universe",
    text="Theorems C09_roundtrip, C09_unrecorded_always_fails, C09_new_never_drops, C09_modes_preserve_other_kind, C09_update_idempotent, C09_grandfathering_by_key_only (an entry belongs to its path: recorded hash and line count never decide), "
         "C09_history_inv, C09_update_run_not_truncated / C09_update_under_fail_fast_same_file (an updating run ignores fail-fast), C09_path_without_key_always_fails / "
         "C09_baseline_keys_stay_valid(_history) (paths that are not valid UTF-8 have no key) hold for every result list, baseline, flag set and operation history (unbounded); the one class the code "
         "violates (a backslash in a file name is a separator for the key: K09_backslash_name) carries C09_key_injective_refuted and C09_key_injective_modulo_known. The tie is a seeded differential run of apply_baseline_comparison / "
         "update_baseline_from_results / check_baseline_ratchet / tighten_baseline / determine_exit_code against the extracted model, plus "
         "CLI history replay (all histories of length <= 3 over a 30-operation alphabet in thorough, sampled to length 10) comparing reported "
         "statuses, exit status and the baseline file with check_step, and the C09 oracles evaluated on the observations.",
    note="Trusted: Coq kernel, extraction, harness sgv-check, the python evaluator of the 5-file universe (cross-checked against a plain run in "
         "every state), serde_json (de)serialisation of the baseline, SHA-256 as an oracle column. The scan / threshold / structure stages "
         "that produce the pre-baseline results are C05-C07's subject and enter here as data.",
    ref="5 (C09)")


def gen_histories(ctx):
    rng = ctx.rng
    if ctx.tier == "quick":
        hs = [rand_history(rng, 10) for _ in range(170)]
        gr = [grown_history(rng) for _ in range(40)] + [ratchet_update_history(rng) for _ in range(40)]
        ex = list(exhaustive_histories(2, start_states=("oo---o",)))      # ./b.rs and ./B.rs both over the limit
        rng.shuffle(ex)
        return hs + gr + ex[:120], {"sampled_len<=10": len(hs), "recorded_file_grew_then_fail_fast / ratchet_and_update_in_one_run": len(gr), "exhaustive_len<=2_subsample": 120}
    ex = list(exhaustive_histories(3, start_states=("oo---o",)))
    hs = [rand_history(rng, 10) for _ in range(1500)]
    gr = [grown_history(rng) for _ in range(300)] + [ratchet_update_history(rng) for _ in range(300)]
    return ex + hs + gr, {"exhaustive_len<=3": len(ex), "sampled_len<=10": len(hs), "recorded_file_grew_then_fail_fast / ratchet_and_update_in_one_run": len(gr)}


def run(ctx):
    bins, model = prepare_check(ctx)
    proofs_ok = proofs_step(ctx, PROP_FILES)
    lib = lib_phase(ctx, bins, model, 8000 if ctx.tier == "quick" else 80000)
    corpus = load_corpus_histories()
    hists, dist = gen_histories(ctx)
    allh = [c["history"] for c in corpus] + hists
    depth = [bool(c.get("depth0")) for c in corpus] + [i % 5 == 4 for i in range(len(hists))]
    hp = history_phase(ctx, bins, model, allh, depth_flags=depth)
    ee = error_entry_phase(ctx, bins, model, ctx.tier == "quick")
    nu = nonutf8_phase(ctx, bins, model)
    bs = backslash_phase(ctx, bins, model)
    cb = custom_baseline_phase(ctx, bins, model)
    mv = moved_file_phase(ctx, bins, model, ctx.tier == "quick")
    xcheck_model(ctx, model, 40 if ctx.tier == "quick" else 300)
    ctx.cov["evaluations"] = lib["cases"] + hp["steps"] + ee["traces"] + nu["steps"] + bs["steps"] + cb["steps"] + mv["traces"]
    ctx.cov["distinct_nontrivial"] = hp["nontrivial"]
    ctx.cov["traces_validated_against_impl"] = hp["steps"] + ee["traces"] + nu["steps"] + bs["steps"] - len(hp["mismatches"]) - len(ee["mismatches"]) - len(nu["mismatches"]) - len(bs["mismatches"])
    ctx.cov["rule"] = ("library level: seeded result lists (49 path spellings incl. backslashes, empty, non-ASCII, pairs differing in letter case only, two paths that are not valid UTF-8 with one lossy form and that lossy form as a key; all categories and statuses) x baselines through "
                       "apply / update (4 modes, with and without an existing baseline) / ratchet / tighten / exit, implementation vs extracted model and vs one-line specs; "
                       "CLI level: histories of edits, --update-baseline <mode> (with/without --baseline, with/without fail-fast by flag or config) and checks (flags, [baseline] ratchet, [check] fail_fast, --files) over 6 files "
                       "(./b.rs and ./B.rs differ in letter case only) / 3 directories with sizes under/warn/over, with the tool's own state files (.sloc-guard/, the default baseline file, a temporary file of a killed save) lying in the root,  observables statuses + exit + baseline file vs check_step; --files lists with an unreadable entry (I/O error) before "
                       "recorded / unrecorded violations in every order under fail-fast; non-UTF-8 file names sharing a lossy form (update, check, legacy file with the lossy key); a file name containing a backslash (known finding); a renamed recorded file (the entry of the vanished path carries the hash and line count of an unrecorded failing file: entries belong to paths) in --files runs and scans with and without fail-fast; ratchet warn / strict / auto (flag or config) x --update-baseline new / content / structure in ONE run with resolved content and structure entries (only auto may remove, new / the other kind keep theirs); a custom-named baseline file written into a root directory at its max_files limit (known finding) next to the default name and a file outside the tree (must round-trip). "
                       "non-trivial = histories with at least one update, one edit and a non-empty baseline on disk at some step")
    ctx.cov["input_distribution"] = {"library": lib["dist"], "histories": dict(dist, corpus=len(corpus)), "cli_steps": hp["steps"], "cli_spawns": hp["spawns"],
                                     "fail_fast_steps": hp["ff_traces"], "files_left_by_killed_updates": hp["killed_update_residues"], "library_nontrivial": lib["nontrivial"],
                                     "fail_fast_traces_with_unreadable_entry": ee["traces"], "steps_with_non_utf8_paths": nu["steps"], "steps_backslash_name": bs["steps"], "traces_renamed_recorded_file(entry of a gone path carries the hash of an unrecorded file)": mv["traces"], "steps_custom_baseline_file(in the tree / default name / outside)": cb["steps"]}
    ctx.cov["model_vs_impl_mismatches"] = len(lib["mismatches"]) + len(hp["mismatches"]) + len(ee["mismatches"]) + len(nu["mismatches"]) + len(bs["mismatches"])
    for s in lib["sample"][:1] + hp["sample"][:2]:
        ctx.sample(s)
    ctx.cov["trusted_base"] = TRUSTED_COMMON + ["python evaluator of the 5-file universe (compared with a plain `check --format json` run in every visited state)",
                                                "serde_json round trip of the baseline file; SHA-256 of file contents enters the model as data"]
    ctx.assumptions = ["the pre-baseline result list is produced by the scan/threshold/structure stages (C05-C07); C09 starts from it",
                       "a baseline file holds Unicode strings (JSON): no key contains a unit that stands for a raw byte; a path that is not valid UTF-8 has no key (fix D55)",
                       "baseline keys are relative to the working directory of the run; one baseline file is used from one working directory",
                       "the baseline file is not an entry the scan counts: it has the default name, lies outside the scanned tree or is excluded by [scanner] exclude "
                       "(a custom-named file inside the tree is counted: known finding K09_custom_baseline_in_tree, D86)"]
    # ---- verdicts
    fails = [f for f in lib["oracle_failures"] if f["prop"] == "C09"]
    for f in fails[:3]:
        ctx.violation({"kind": "property-oracle", "what": f["what"], "first_mismatch": {"case": f["case"]}})
    n = report_findings(ctx, "C09", hp["findings"] + ee["findings"] + nu["findings"] + bs["findings"] + cb["findings"] + mv["findings"])
    if not fails and not n:
        tie = lib["mismatches"] + hp["mismatches"] + hp["structural"] + ee["mismatches"] + nu["mismatches"] + bs["mismatches"] + cb["mismatches"] + mv["mismatches"]
        report_tie(ctx, "C09", "sgv-check / sloc-guard check == extracted Check.Baseline (apply, update, check_step)", tie, proofs_ok, lib["errs"])


def replay(ctx, path):
    return replay_file(ctx, path, "C09")
