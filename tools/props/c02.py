"""C02 -- line classification agrees with lexical ground truth, incl. ignore directives."""
import json
from gen_c02 import *  # noqa

PROP_FILES = ["Counter/Properties_C02.v"]
MANIFEST = dict(
    technique="Coq proof: simulation between the tool's line state machine and a piece grammar with classes known by construction (scanner lemmas over string-literal segments, block-comment lemmas, directive lemmas, induction over the program), on the Gallina port of sloc.rs+comment.rs; tie = differential run of the extracted model plus grammar-generated programs judged against their constructed truth on SlocCounter itself",
    text="C02_ground_truth / C02_counts: for every syntax with well-formed markers (all built-ins, recomputed from the crate's registry on every run) and every program assembled from valid pieces (blank, pure line comment with arbitrary text, code with string literals of arbitrary content, code + line comment with arbitrary text, single- and multi-line block comments of non-nesting static or line-start syntaxes, ignore-next N and ignore-start/end regions over whole pieces) every line gets the class it has by construction and the five counters are the tally; named sub-theorems for strings, trailing comments, block interior/closer, the three directives and directive text in code. The unchanged tree violates the full statement on four classes (quote before a block closer, closer overlapping the opener, Python multi-line docstrings, triple quote inside an ordinary string): each has a refutation witness proved by vm_compute and is a KNOWN-FINDING; the grammar's side conditions are exactly the complement of those classes. Nesting block comments (depth returns to zero exactly at the matching closer), Lua long-bracket openers (level n selects closer n) and one-line triple-quote blocks have line-level theorems of their own (C02_nested_*, C02_lua_block_open, C02_selfclosing_block_line); they are not constructors of the whole-program grammar, so programs containing them are covered end-to-end by the correspondence run.",
    note="Trusted: Coq kernel, extraction, harness sgv-counter; the piece grammar is the definition of lexical truth (char literals holding a quote, template strings, heredocs are outside it). D1/D3 were repaired (fix d23d81a); D2, D26, D4, D27, D45, D46 are listed in known_findings/C02.json.",
    ref="5 (C02)")

KNOWN = ["K02_quote_in_block", "K02_closer_overlaps_opener", "K02_py_multiline_docstring", "K02_py_triple_in_string",
         "K02_nested_opener_in_tail_comment", "K02_linestart_closer_midline"]


def src(L):
    return "".join(l + "\n" for l in L)


def gen_cases(ctx, langs, n):
    rng = ctx.rng
    cases = []
    for _ in range(n):
        sy = weighted_lang(rng, langs)
        L, truth, tags = Gen(rng, sy).program()
        cases.append({"sy": sy, "L": L, "truth": truth, "tags": sorted(tags), "tag": "generated"})
    return cases


def exhaustive_cases(ctx, langs, maxlen):
    """all line sequences up to maxlen over a per-language alphabet of line shapes with known class"""
    import itertools
    out = []
    for sy in langs:
        g = Gen(ctx.rng, sy)
        f = g.f
        shapes = [("", "B"), ("x = 1;", "C"), ('s = "a";', "C")]
        if f["single"]:
            p = f["single"][0]
            shapes += [(p + " c", "M"), ("y; " + p + " c", "C")]
            for (a, b) in f["static"][:1]:
                shapes += [(p + " see " + a + " x", "M"), ('t = "' + a + '";', "C"), (a + " c " + b, "M")]
        seen = set()
        shapes = [s for s in shapes if not (s[0] in seen or seen.add(s[0]))]
        for k in range(0, maxlen + 1):
            for combo in itertools.product(shapes, repeat=k):
                out.append({"sy": sy, "L": [c[0] for c in combo], "truth": [c[1] for c in combo], "tags": [], "tag": "exhaustive"})
    return out


def witness_cases(ctx, langs):
    by_ext = {e: l for l in langs for e in l.exts}
    out = []
    for k in ctx.kf.get("findings", []):
        if k["property"] == "C02" and k["witness"]["ext"] in by_ext:
            w = k["witness"]
            out.append({"sy": by_ext[w["ext"]], "L": w["lines"], "truth": list(w["truth"]), "tags": [k["class"]], "tag": "known-witness", "witness_of": k["class"]})
    return out


def run(ctx):
    impl, model, langs = prepare_counter(ctx)
    proofs_ok = proofs_step(ctx, PROP_FILES) if os.path.exists(os.path.join(COQ, PROP_FILES[0])) else True
    n = 6000 if ctx.tier == "quick" else 80000
    cases = witness_cases(ctx, langs) + load_corpus(langs) + exhaustive_cases(ctx, langs, 3 if ctx.tier == "quick" else 4) + gen_cases(ctx, langs, n)
    reqs = ["classes\t%s\t%s" % (c["sy"].wire(), enc(src(c["L"]))) for c in cases]
    outs, errs = run_sharded(impl, reqs, timeout=900, args=["run"])
    mouts, merrs = run_sharded(model, reqs, timeout=900)
    if merrs:
        raise CheckBroken("model driver failed: %s" % merrs[:1])
    mism, fails = [], []
    hist, nontrivial, klass_hits = {}, set(), {}
    # a listed finding suppresses only while its own witness still reproduces on the real code
    active = set()
    for c, o in zip(cases, outs):
        if c.get("witness_of") and o.startswith("CLS ") and o[4:] != "".join(c["truth"]):
            active.add(c["witness_of"])
    ctx.cov["known_classes_active"] = sorted(active)
    for c, o, m in zip(cases, outs, mouts):
        hist[c["tag"]] = hist.get(c["tag"], 0) + 1
        d = parse_out(o) if o != "<NOANSWER>" else {"kind": "<NOANSWER>", "raw": o}
        md = parse_out(m)
        if d.get("classes") != md.get("classes") or d["kind"] != md["kind"]:
            mism.append((c, d["raw"][:300], md["raw"][:300]))
        if d["kind"] != "CLS":
            fails.append((c, "panic / no answer", d["raw"][:100]))
            continue
        got = d["classes"]
        want = "".join(c["truth"]) if c["truth"] != "IGN" else None
        ok = (want is not None and got == want) or (want is None and got.endswith("F"))
        if want is not None and any(t in "MI" for t in want):
            nontrivial.add((c["sy"].name, tuple(c["L"])))
        if not ok:
            if c["tags"] and all(t in active for t in c["tags"]):
                for t in c["tags"]:
                    klass_hits[t] = klass_hits.get(t, 0) + 1
                    ctx.known(t, "")
            else:
                fails.append((c, "classes differ from ground truth: expected %s got %s" % (want or "ignored file", got), d["raw"][:100]))
    ctx.cov["evaluations"] = len(cases)
    ctx.cov["distinct_nontrivial"] = len(nontrivial)
    ctx.cov["traces_validated_against_impl"] = len(cases) - len(mism)
    ctx.cov["rule"] = ("programs assembled from lexical pieces whose class is known by construction (blank, code with string literals and escapes, line comment, "
                       "code + line comment, static / nested / Lua long-bracket / line-start / triple-quote blocks, ignore-next N, ignore-start/end, ignore-file, "
                       "directive text in code); exhaustive line sequences up to a small length over a per-language alphabet of shapes plus seeded sampling; "
                       "per-line classes of the implementation (from prefix counts) compared with the truth and with the extracted model; "
                       "non-trivial = distinct program with at least one comment or ignored line")
    ctx.cov["input_distribution"] = hist
    ctx.cov["known_class_tagged_programs"] = sum(1 for c in cases if c["tags"])
    ctx.cov["model_vs_impl_mismatches"] = len(mism)
    for c in cases[-3:]:
        ctx.sample({"lang": c["sy"].name, "lines": c["L"], "truth": c["truth"], "tags": c["tags"]})
    ctx.cov["trusted_base"] = TRUSTED_COMMON
    ctx.assumptions = ["the piece grammar defines the lexical ground truth; real lexical rules beyond it (char literals holding a quote, template strings, heredocs) are outside the theorem and exercised only as model = impl"]
    for (c, f, raw) in fails[:5]:
        ctx.violation({"kind": "property-oracle", "what": f, "lang": c["sy"].name, "syntax": c["sy"].wire(), "lines": c["L"], "truth": c["truth"], "impl": raw})
    if not fails:
        if mism:
            c, a, b = mism[0]
            ctx.violation({"kind": "correspondence-broken", "relation": "sgv-counter classes == extracted Counter.Sloc.classes_of",
                           "first_mismatch": {"lang": c["sy"].name, "syntax": c["sy"].wire(), "lines": c["L"], "impl": a, "model": b}, "mismatches": len(mism)}, no_input=True)
        elif not proofs_ok:
            ctx.violation({"kind": "proof-broken", "details": ctx.proof_broken}, no_input=True)
        elif errs:
            ctx.violation({"kind": "harness-died", "details": errs[:2]})


def load_corpus(langs):
    p = os.path.join(CORPUS, "c02.jsonl")
    out = []
    if os.path.exists(p):
        by_ext = {e: l for l in langs for e in l.exts}
        for line in open(p):
            j = json.loads(line)
            if j["ext"] in by_ext:
                out.append({"sy": by_ext[j["ext"]], "L": j["lines"], "truth": j["truth"], "tags": j.get("tags", []), "tag": "corpus-min"})
    return out


def replay(ctx, path):
    j = json.load(open(path))
    if "first_mismatch" in j:
        j = j["first_mismatch"]
    impl, model, langs = prepare_counter(ctx)
    req = ["classes\t%s\t%s" % (j["syntax"], enc(src(j["lines"])))]
    print("truth:", j.get("truth"))
    print("impl :", run_lines(impl, req, args=["run"])[0])
    print("model:", run_lines(model, req)[0])
    return 0
