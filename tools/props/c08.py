"""C08 -- verdicts do not depend on how paths are spelled."""
import json
from vlib import *  # noqa

PROP_FILES = ["Paths/Properties_C08.v"]
MANIFEST = dict(
    technique="Coq proof that path normalisation collapses every spelling of the scan root (any string whose components name the root: none, `.`, `./`, `sub`, `sub/`, `sub//`, `./sub/.`, `.\\sub`, absolute, absolute with stray separators) onto the project-relative path, hence any verdict that reads paths only through normalisation is spelling-invariant; tie = the normaliser model run against the real normalize_for_matching, plus a metamorphic CLI run (same project, configuration and baseline under every pair of spellings)",
    text="Theorems C08_norm_collapses_relative / C08_norm_collapses_absolute (for every entry and EVERY string spelling a root that contains it -- stray, repeated and trailing separators, backslashes and dot components included -- normalising the walked path yields the project-relative path), C08_key_fixed_point, C08_invariant_through_norm (any site function of the normalised path gives the same answer under all spellings) and C08_baseline_key_invariant hold for all paths (unbounded). The check then establishes on the real code that every pattern family (scanner.exclude, content.exclude, content.rules, structure rule limits, placement scopes, sibling scopes, count_exclude) and the baseline keys behave as functions of the normalised path: generated projects with root-anchored and **/-prefixed patterns are run under every spelling, with and without a baseline written under another spelling, and the per-path statuses / limits / counts are compared.",
    note="Trusted: Coq kernel, extraction, harness sgv-paths; globset itself is not modelled (the theorem is over an arbitrary match function of the normalised path).",
    ref="5 (C08)")


def write_project(sb, rng):
    """A small project with root-anchored structure. Returns metadata."""
    files = {}
    def add(rel, n):
        files[rel] = "".join("x%d = %d\n" % (i, i) for i in range(n))
    big, small = rng.randint(12, 16), rng.randint(1, 4)
    add("main.rs", small)
    add("src/a.rs", big)
    add("src/b.rs", small)
    add("src/c.rs", rng.choice([small, big]))
    add("src/d.rs", small)
    add("src/gen/g1.rs", big)
    add("src/gen/g2.rs", small)
    add("src/gen/blob.bin", 1)
    add("src/util/u.rs", rng.choice([small, big]))
    add("vendor/v1.rs", big)
    add("vendor/deep/v2.rs", big)
    add("tests/t_a.rs", rng.choice([small, big]))
    add("docs/readme.md", 3)
    # sibling directories whose NAMES begin with another root's name: separate roots, never nested
    add("src-gen/big.rs", big)
    add("src-gen/ok.rs", small)
    add("src2/other.rs", rng.choice([small, big]))
    add("src/util/deep/more/z.rs", small)      # directories two and three levels below src/util (relative depth rules)
    add("tmpwork/w.rs", small)                  # a directory a global name list can forbid, also when it is the scan root
    add("src/proj/p.rs", big)                   # a directory INSIDE the project that has the name of the project directory itself
    for rel, body in files.items():
        sb.write(rel, body)
    return files


def make_config(rng, anchored):
    """anchored=True: patterns written relative to the project root (src/**); False: **/-prefixed."""
    def pat(p):
        return p if anchored else "**/" + p
    lim = 10
    fam = {
        "scanner_exclude": rng.random() < 0.6,
        "content_exclude": rng.random() < 0.6,
        "content_rule": rng.random() < 0.7,
        "structure_limit": rng.random() < 0.7,
        "placement": rng.random() < 0.6,
        "sibling": rng.random() < 0.4,
        "count_exclude": rng.random() < 0.5,
    }
    fam["gitignore"] = rng.random() < 0.6
    t = ['version = "2"', "[scanner]", "gitignore = %s" % ("true" if fam["gitignore"] else "false")]
    sc_ex = [".git/**"]
    if fam["scanner_exclude"]:
        # a subtree pattern, or a bare multi-component directory (pruned as a directory by the structure-aware walker)
        sc_ex.append(rng.choice([pat("vendor/**"), pat("vendor/**"), "src/gen" if anchored else "**/src/gen"]))
    fam["root_named_exclude"] = rng.random() < 0.4
    if fam["root_named_exclude"]:
        # a pattern that names a directory called like the project directory itself (sandbox: .../proj): relative to the
        # project root it can only refer to proj/ INSIDE the project, never to the root, however the root is spelled
        sc_ex.append(rng.choice(["proj/**", "proj/**", "**/proj/**", "proj"]))
    t.append("exclude = [%s]" % ", ".join(json.dumps(x) for x in sc_ex))
    t += ["[content]", 'extensions = ["rs"]', "max_lines = %d" % lim]
    if fam["content_exclude"]:
        t.append("exclude = [%s]" % json.dumps(pat("src/gen/**")))
    if fam["content_rule"]:
        # a rule with its own warn point: files of 12-16 lines under src/util are WARNED under every spelling
        t += ["[[content.rules]]", "pattern = %s" % json.dumps(pat("src/util/**")), "max_lines = 100", "warn_at = 5",
              "[[content.rules]]", "pattern = %s" % json.dumps(pat("tests/**")), "max_lines = 2"]
    fam["reldepth"] = rng.random() < 0.5
    fam["deny_dirs"] = rng.random() < 0.5
    t += ["[structure]", "max_files = 20"]
    if fam["deny_dirs"]:
        t.append('deny_dirs = ["tmp*"]')
    if fam["reldepth"]:
        # depth measured from the scope's fixed prefix (src): src/util/deep is 2 below it under EVERY spelling
        t += ["[[structure.rules]]", "scope = %s" % json.dumps(pat("src/**")), "max_depth = 1", "relative_depth = true"]
    if fam["count_exclude"]:
        t.append("count_exclude = [%s]" % json.dumps(pat("src/d.rs")))
    if fam["structure_limit"]:
        t += ["[[structure.rules]]", "scope = %s" % json.dumps(pat("src")), "max_files = 2"]
        t += ["[[structure.rules]]", "scope = %s" % json.dumps(pat("src/gen/**") if rng.random() < 0.5 else pat("src/gen")), "max_files = 1"]
    if fam["placement"]:
        t += ["[[structure.rules]]", "scope = %s" % json.dumps(pat("src/gen")), 'deny_extensions = [".bin"]']
    if fam["sibling"]:
        t += ["[[structure.rules]]", "scope = %s" % json.dumps(pat("tests")), 'siblings = [{ match = "t_*.rs", require = "{stem}.snap" }]']
    return "\n".join(t) + "\n", fam


SPELLINGS = ["noarg", "dot", "dotslash", "abs", "dotslashslash", "absslash"]
SUB_SPELLINGS = ["rel", "dotrel", "abssub", "relslash", "dotrelslash", "abssubslash", "relslashdot", "relslashslash", "absslashslashsub"]


def args_for(sp, proj, sub="src"):
    return {"noarg": [], "dot": ["."], "dotslash": ["./"], "abs": [proj], "dotslashslash": [".//"], "absslash": [proj + "/"],
            "rel": [sub], "dotrel": ["./" + sub], "abssub": [os.path.join(proj, sub)],
            "relslash": [sub + "/"], "dotrelslash": ["./" + sub + "/"], "abssubslash": [os.path.join(proj, sub) + "/"],
            "relslashdot": [sub + "/."], "relslashslash": [sub + "//"], "absslashslashsub": [proj + "//" + sub]}[sp]


def canon_path(p, proj):
    p = p.replace("\\", "/")
    proj = proj.replace("\\", "/")
    if p.startswith(proj + "/"):
        p = p[len(proj) + 1:]
    elif p == proj:
        p = "."
    # the project-relative form: components without empty and dot pieces
    comps = [c for c in p.split("/") if c not in ("", ".")]
    return ("/" if p.startswith("/") else "") + "/".join(comps) or "."


def run_check(sb, exe, sp, extra=(), sub="src", roots=None):
    targets = roots if roots is not None else args_for(sp, sb.proj, sub)
    rc, out, err = sb.run(exe, ["check", *targets, "--format", "json", "--color", "never", "--no-sloc-cache", *extra],
                          env={"RAYON_NUM_THREADS": "2", "PWD": sb.home})
    res = {}
    try:
        j = json.loads(out)
        for r in j.get("results", []):
            key = (canon_path(r.get("path", ""), sb.proj), json.dumps(r.get("violation_category"), sort_keys=True))
            res.setdefault(key, []).append((r.get("status"), r.get("sloc"), r.get("limit")))
        for k in res:
            res[k].sort(key=str)
    except Exception:
        res = {"<unparsable>": out[:200] + err[:200]}
    return rc, res


def compare(a, b, common_only=False, under=None):
    """differences between two result maps (on common paths when common_only)."""
    diffs = []
    keys = set(a) | set(b)
    for k in sorted(keys, key=str):
        if under is not None and isinstance(k, tuple) and not (k[0] == under or k[0].startswith(under + "/")):
            continue
        if common_only and (k not in a or k not in b):
            # a path reported under one spelling only: still a difference when it lies under the common root
            pass
        if a.get(k) != b.get(k):
            diffs.append((k, a.get(k), b.get(k)))
    return diffs


def run(ctx):
    bins = cargo_build(["sgcli", "sgv-paths"])
    exe = bins["sgcli"]
    proofs_ok = proofs_step(ctx, PROP_FILES, extra_targets=["Extract/ExtractPaths.vo"])
    norm_mism = norm_correspondence(ctx, bins["sgv-paths"])
    n = 24 if ctx.tier == "quick" else 200
    fails, hist, nontrivial = [], {}, set()
    evals = 0
    for k in range(n):
        with Sandbox() as sb:
            if k % 6 == 5:
                # the project lives below a directory whose NAME contains a backslash (legal on POSIX): the current
                # directory and the absolute spelling carry it, the project-relative paths do not
                sb.proj = os.path.join(sb.base, "team\\shared x", "proj")
                os.makedirs(sb.proj)
                hist["backslash_in_ancestor_name"] = hist.get("backslash_in_ancestor_name", 0) + 1
            files = write_project(sb, ctx.rng)
            anchored = ctx.rng.random() < 0.75
            cfg, fam = make_config(ctx.rng, anchored)
            sb.write(".sloc-guard.toml", cfg)
            if fam["gitignore"]:
                # an ignore file ABOVE the sub-directory roots: it must be honoured under every spelling
                sb.write(".gitignore", "\n".join(ctx.rng.sample(["src/c.rs", "src/gen/", "/src/util/", "*.bin", "tests/"], 2)) + "\n")
            base_rc, base = run_check(sb, exe, "noarg")
            evals += 1
            if "<unparsable>" in base:
                fails.append(("noarg run failed", cfg, base))
                continue
            for f, on in fam.items():
                if on:
                    hist[f] = hist.get(f, 0) + 1
            hist["anchored" if anchored else "starstar"] = hist.get("anchored" if anchored else "starstar", 0) + 1
            if any(v and v[0][0] != "passed" for v in base.values()):
                nontrivial.add(cfg + str(sorted(files.items())))
            # whole-project spellings
            for sp in SPELLINGS[1:]:
                rc, res = run_check(sb, exe, sp)
                evals += 1
                d = compare(base, res)
                if d or rc != base_rc:
                    fails.append(("spelling %s differs from no-argument run" % sp, cfg, {"exit": (base_rc, rc), "diff": d[:6]}))
            # sub-directory spellings: statuses of common paths must agree with the whole-project run
            sub_ref = None
            for sp in SUB_SPELLINGS:
                rc, res = run_check(sb, exe, sp)
                evals += 1
                d = [x for x in compare(base, res, under="src") if x[2] is not None or x[1] is not None]
                # paths under src must have the same status as in the whole run
                d = [x for x in d if x[0][0] == "src" or x[0][0].startswith("src/")]
                if d:
                    fails.append(("sub-directory spelling %s: common paths differ from the whole-project run" % sp, cfg, {"diff": d[:6]}))
            # several roots at once, in both orders and under several spellings: every path below one of the
            # roots has the status it has in the whole-project run (a root is never "nested" in a sibling whose
            # name merely starts with the same characters)
            for names in (["src", "src-gen"], ["src-gen", "src"], ["src", "src2", "src-gen"], ["src2", "src"]):
                style = ctx.rng.choice(["plain", "dot", "abs", "slash"])
                roots = [{"plain": n, "dot": "./" + n, "abs": os.path.join(sb.proj, n), "slash": n + "/"}[style] for n in names]
                rc, res = run_check(sb, exe, None, roots=roots)
                evals += 1
                def below(k):
                    return isinstance(k, tuple) and any(k[0] == n or k[0].startswith(n + "/") for n in names)
                d = [(k, base.get(k), res.get(k)) for k in sorted(set(base) | set(res), key=str) if below(k) and base.get(k) != res.get(k)]
                if d:
                    fails.append(("roots %s: paths below the roots differ from the whole-project run" % roots, cfg, {"diff": d[:6]}))
                hist["multi_root"] = hist.get("multi_root", 0) + 1
            # a second sub-directory root, one that the global name list may forbid: it is judged like any other entry
            for style in ("plain", "dot", "abs", "slash"):
                root = {"plain": "tmpwork", "dot": "./tmpwork", "abs": os.path.join(sb.proj, "tmpwork"), "slash": "tmpwork/"}[style]
                rc, res = run_check(sb, exe, None, roots=[root])
                evals += 1
                d = [(k, base.get(k), res.get(k)) for k in sorted(set(base) | set(res), key=str)
                     if isinstance(k, tuple) and (k[0] == "tmpwork" or k[0].startswith("tmpwork/")) and base.get(k) != res.get(k)]
                if d:
                    fails.append(("root %s: paths below it differ from the whole-project run" % root, cfg, {"diff": d[:6]}))
            # baseline written under one spelling, honoured under the others
            wsp = ctx.rng.choice(SPELLINGS)
            bl = os.path.join(sb.base, "baseline.json")
            sb.run(exe, ["check", *args_for(wsp, sb.proj), "--color", "never", "--no-sloc-cache", "--baseline", bl, "--update-baseline", "all", "-q"], env={"RAYON_NUM_THREADS": "2"})
            evals += 1
            ref = None
            for sp in SPELLINGS:
                rc, res = run_check(sb, exe, sp, extra=["--baseline", bl])
                evals += 1
                if ref is None:
                    ref = (rc, res, sp)
                else:
                    d = compare(ref[1], res)
                    if d or rc != ref[0]:
                        fails.append(("baseline written under %s: run under %s differs from run under %s" % (wsp, sp, ref[2]), cfg, {"exit": (ref[0], rc), "diff": d[:6]}))
                # with the baseline of the same state nothing recorded may still be failing
            # fail-fast with that baseline: a grandfathered failure listed BEFORE a new violation must not stop the run,
            # however the two targets are spelled (one worker, targets in the given order)
            try:
                recorded = sorted(k for k, v in json.load(open(bl)).get("files", {}).items() if isinstance(v, dict) and v.get("type", "content") == "content" and k.endswith(".rs"))
            except (OSError, ValueError):
                recorded = []
            if recorded:
                old = ctx.rng.choice(recorded)
                sb.write("src/zz_new.rs", "".join("n%d = %d\n" % (i, i) for i in range(30)))
                outcomes = {}
                for style in ("plain", "dot", "abs", "dotslashslash"):
                    sp_ = {"plain": lambda q: q, "dot": lambda q: "./" + q, "abs": lambda q: os.path.join(sb.proj, q), "dotslashslash": lambda q: ".//" + q}[style]
                    for ff in ([], ["--fail-fast"]):
                        rc, out, err = sb.run(exe, ["check", sp_(old), sp_("src/zz_new.rs"), "--format", "json", "--color", "never", "--no-sloc-cache", "--baseline", bl, *ff],
                                              env={"RAYON_NUM_THREADS": "1"})
                        evals += 1
                        try:
                            stt = {canon_path(r.get("path", ""), sb.proj): r.get("status") for r in json.loads(out).get("results", []) if r.get("violation_category") in (None, "content")}
                        except ValueError:
                            stt = {"<unparsable>": (out + err)[:200]}
                        outcomes[(style, bool(ff))] = (rc, stt.get("src/zz_new.rs"))
                ref_o = outcomes[("plain", False)]
                bad = {"%s%s" % (k_[0], " --fail-fast" if k_[1] else ""): v for k_, v in outcomes.items() if v != ref_o}
                if bad:
                    fails.append(("baseline + fail-fast: targets [%s, src/zz_new.rs] (grandfathered first) give (exit, status of the new file) %s under the bare spelling without fail-fast, but %s" % (old, ref_o, bad),
                                  cfg, {"baseline_written_under": wsp, "outcomes": {str(k_): v for k_, v in outcomes.items()}}))
                hist["failfast_baseline_spellings"] = hist.get("failfast_baseline_spellings", 0) + 1
                os.remove(os.path.join(sb.proj, "src/zz_new.rs"))
            # the same baseline with its keys re-spelled (older releases, hand edits, a run from another working
            # directory wrote ./x, absolute and doubled-separator keys): still honoured under every spelling
            try:
                bj = json.load(open(bl))
                def respell(k):
                    r = ctx.rng.random()
                    if k in (".", ""):
                        return k
                    return k if r < 0.2 else ("./" + k if r < 0.45 else (sb.proj + "/" + k if r < 0.75 else (k.replace("/", "//", 1) if r < 0.9 else k.replace("/", "\\"))))
                if bj.get("files"):
                    bj["files"] = {respell(k): v for k, v in bj["files"].items()}
                    bl2 = os.path.join(sb.base, "baseline2.json")
                    json.dump(bj, open(bl2, "w"))
                    for sp in ctx.rng.sample(SPELLINGS + SUB_SPELLINGS, 3):
                        rc1, res1 = run_check(sb, exe, sp, extra=["--baseline", bl])
                        rc2, res2 = run_check(sb, exe, sp, extra=["--baseline", bl2])
                        evals += 2
                        d = compare(res1, res2)
                        if d or rc1 != rc2:
                            fails.append(("baseline with re-spelled keys %s is not honoured under %s as the tool-written one is" % (sorted(bj["files"])[:3], sp), cfg, {"exit": (rc1, rc2), "diff": d[:6]}))
                    hist["respelled_baseline"] = hist.get("respelled_baseline", 0) + 1
            except (OSError, ValueError):
                pass
            if k < 2:
                ctx.sample({"config": cfg, "files": {f: c.count("\n") for f, c in files.items()}, "noarg_results": {str(a): b for a, b in list(base.items())[:8]}})
    ctx.cov["evaluations"] = evals
    ctx.cov["distinct_nontrivial"] = len(nontrivial)
    ctx.cov["traces_validated_against_impl"] = ctx.cov.get("norm_cases", 0) - norm_mism
    ctx.cov["rule"] = ("generated projects (src, src/gen, src/util, vendor, tests, docs) x configurations with root-anchored or **/-prefixed patterns in every family "
                       "(scanner.exclude, content.exclude, content.rules, structure limit scopes, placement scopes, sibling scopes, count_exclude); each run under the "
                       "spellings none / . / ./ / .// / absolute / absolute+slash and src / ./src / src/ / ./src/ / src/. / src// / absolute src (with and without trailing or doubled separators), plus a baseline written under a random spelling and read under all; "
                       "results compared after mapping paths to project-relative form; non-trivial = distinct project+configuration with at least one non-passed result")
    ctx.cov["input_distribution"] = hist
    ctx.cov["trusted_base"] = TRUSTED_COMMON + ["globset matching is not modelled: the theorems quantify over an arbitrary match function of the normalised path"]
    ctx.assumptions = ["the command is run from the project root (patterns are documented as relative to it)"]
    if ctx.cov.get("norm_not_idempotent"):
        fails.append(("normalize_for_matching is not idempotent: a key written by one run is not found by the next", "", ctx.cov["norm_not_idempotent"]))
    for (what, cfg, detail) in fails[:5]:
        ctx.violation({"kind": "property-oracle", "what": what, "config": cfg, "detail": detail})
    if not fails:
        if norm_mism:
            ctx.violation({"kind": "correspondence-broken", "relation": "sgv-paths norm == extracted Paths.Model.norm", "mismatches": norm_mism,
                           "first": ctx.cov.get("norm_first_mismatch")}, no_input=True)
        elif not proofs_ok:
            ctx.violation({"kind": "proof-broken", "details": ctx.proof_broken}, no_input=True)


def norm_correspondence(ctx, impl):
    """model of normalize_for_matching vs the real one on generated path strings."""
    model = ocaml_build("paths_drv", ["paths_ex"])
    rng = ctx.rng
    tmp = tempfile.mkdtemp(prefix="sgv-cwd-")
    cwd = os.path.join(os.path.realpath(tmp), "proj")
    comps = ["src", "a.rs", ".", "..", "", "gen", ".hidden", "x y", "é", "a\\b", "vendor", "...", ".x"]
    cases = []
    for _ in range(3000 if ctx.tier == "quick" else 40000):
        k = rng.randint(0, 4)
        body = "/".join(rng.choice(comps) for _ in range(k))
        pre = rng.choice(["", "./", ".\\", "././", cwd + "/", cwd, cwd + "\\", "/other/", cwd[:-1], cwd + "2/", ".", "./.", ".//",
                          cwd + "//", cwd + "/./", "/", "//", "\\", cwd.replace("/", "//") + "/",
                          cwd.replace("/", "\\") + "\\", cwd.replace("/", "\\"), cwd.replace("/", "\\", 2) + "/"])
        suf = rng.choice(["", "", "", "/", "//", "/.", "\\", "/./", "\\."])
        cases.append(pre + body + suf)
    cases += [".", "./", "", "./.", cwd, cwd + "/", cwd + "/src/a.rs", "./src/a.rs", "src/a.rs", ".\\src\\a.rs",
              "src/", "src//", "src/.", "./src/", ".//src", cwd + "//src/", "/", "//", "\\", "a\\", "..", "../x/", "a/../b"]
    enc = lambda s: ",".join(str(ord(c)) for c in s) if s else "-"
    lines = ["norm\t%s\t%s" % (enc(cwd), enc(c)) for c in cases]
    io, _, _ = run_lines(impl, lines)
    mo, _, _ = run_lines(model, lines)
    mism = 0
    for c, a, b in zip(cases, io, mo):
        if a != b:
            mism += 1
            ctx.cov.setdefault("norm_first_mismatch", {"path": c, "impl": a, "model": b})
    # what the normaliser returns is a fixed point (C08_norm_idempotent): a key is found again when looked up
    dec = lambda t: "" if t in ("", "-") else "".join(chr(int(x)) for x in t.split(","))
    io2, _, _ = run_lines(impl, ["norm\t%s\t%s" % (enc(cwd), a if a else "-") for a in io])
    nonidem = [(c, dec(a), dec(b)) for c, a, b in zip(cases, io, io2) if a != b]
    ctx.cov["norm_idempotence_failures"] = len(nonidem)
    if nonidem:
        ctx.cov["norm_not_idempotent"] = {"path": nonidem[0][0], "once": nonidem[0][1], "twice": nonidem[0][2]}
    shutil.rmtree(tmp, ignore_errors=True)
    if len(io) != len(cases) or len(mo) != len(cases):
        raise CheckBroken("paths drivers died: %d %d %d" % (len(cases), len(io), len(mo)))
    ctx.cov["norm_cases"] = len(cases)
    ctx.cov["norm_mismatches"] = mism
    return mism


def replay(ctx, path):
    j = json.load(open(path))
    bins = cargo_build(["sgcli"])
    print(json.dumps(j, indent=1)[:3000])
    return 0
