"""Process controller for the verif-hooks barriers (SGV_SYNC_DIR / SGV_TAG / SGV_SYNC_POINTS).

A controlled process announces every sync point it reaches with  <dir>/<tag>.<seq>.<name>.at  and
waits for  <dir>/<tag>.<seq>.go . The controller executes a *plan*: a list of events
(pid, kind, where) computed by the Coq model (State/Concurrency.v, function `event`):
  adv      release pid (spawn it on its first event) and wait until it rests at `where` (a point name or `exit`)
  timeout  the same, but the model says the step is a lock attempt that times out (takes >= the lock time-out)
  poll     the model says pid stands before a lock held by a paused process: the real process stays at its barrier
  stuck    pid has finished; nothing to do
Every step is checked against the plan; the first divergence ends the run."""
import os
import subprocess
import time


class Proc:
    def __init__(self, pid, argv, env, cwd):
        self.pid, self.argv, self.env, self.cwd = pid, argv, env, cwd
        self.p = None
        self.seq = 0            # index of the next barrier file to expect
        self.at = None          # name of the point it rests at
        self.waits = []         # (event kind, where, seconds)
        self.rc = None
        self.out = self.err = ""
        self.t_spawn = None
        self.t_exit = None


class Controller:
    def __init__(self, sync_dir, deadline_s=20.0):
        self.dir = sync_dir
        os.makedirs(sync_dir, exist_ok=True)
        self.procs = {}
        self.deadline_s = deadline_s
        self.paused_s = {}      # pid -> seconds spent resting at barriers (controller-imposed)

    def add(self, pid, argv, env, cwd):
        self.procs[pid] = Proc(pid, argv, env, cwd)

    def _spawn(self, pr, points):
        e = dict(pr.env)
        e.update({"SGV_SYNC_DIR": self.dir, "SGV_TAG": "p%d" % pr.pid, "SGV_SYNC_POINTS": ",".join(points)})
        pr.t_spawn = time.time()
        pr.p = subprocess.Popen(pr.argv, cwd=pr.cwd, env=e, stdout=subprocess.PIPE, stderr=subprocess.PIPE)

    def _release(self, pr):
        open(os.path.join(self.dir, "p%d.%d.go" % (pr.pid, pr.seq - 1)), "w").close()

    def _wait(self, pr):
        """Wait until pr announces its next barrier or exits. Returns the point name or 'exit' (None on deadline)."""
        prefix = "p%d.%d." % (pr.pid, pr.seq)
        t0 = time.time()
        while True:
            for f in os.listdir(self.dir):
                if f.startswith(prefix) and f.endswith(".at"):
                    pr.seq += 1
                    return f[len(prefix):-3]
            if pr.p.poll() is not None:
                # a barrier file may have been written just before the exit was seen
                for f in os.listdir(self.dir):
                    if f.startswith(prefix) and f.endswith(".at"):
                        pr.seq += 1
                        return f[len(prefix):-3]
                so, se = pr.p.communicate()
                pr.rc, pr.out, pr.err = pr.p.returncode, so.decode("utf-8", "replace"), se.decode("utf-8", "replace")
                pr.t_exit = time.time()
                return "exit"
            if time.time() - t0 > self.deadline_s:
                return None
            time.sleep(0.0005)

    def run_plan(self, plan, points, after_event=None):
        """plan: list of (pid, kind, where). Returns None when the run followed the plan, else a
        description of the first divergence (with the index of the plan event)."""
        div = None
        rest_since = {}
        self.points = points
        for idx, (pid, kind, where) in enumerate(plan):
            pr = self.procs[pid]
            if kind in ("poll", "stuck"):
                if kind == "stuck" and pr.p is not None and pr.rc is None and pr.at != "exit":
                    div = {"pid": pid, "what": "model says finished, process still running", "at": pr.at, "index": idx, "done": False}
                    break
                continue
            if pr.at == "exit":
                div = {"pid": pid, "what": "model advances a process that has already exited", "rc": pr.rc, "index": idx, "done": False}
                break
            t0 = time.time()
            first = pr.p is None
            if first:
                self._spawn(pr, points)
            else:
                self.paused_s[pid] = self.paused_s.get(pid, 0.0) + (t0 - rest_since.get(pid, t0))
                self._release(pr)
            got = self._wait(pr)
            dt = time.time() - t0
            rest_since[pid] = time.time()
            pr.waits.append(("spawn" if first else kind, where, round(dt, 4)))
            pr.at = got
            if after_event:
                after_event()
            if got != where:
                div = {"pid": pid, "what": "process rests at %s, model at %s" % (got, where), "event": kind, "seconds": round(dt, 3),
                       "stderr": pr.err[-300:] if got == "exit" else "", "index": idx, "done": True}
                break
        return div

    def run_raw(self, pids, after_event=None, drain=True):
        """Model-free continuation (used after a divergence): every entry releases that process and
        waits until it rests at its next sync point or exits -- a lock attempt that finds the lock
        held ends by itself with the (short) lock time-out. Then every process is run to its end,
        in pid order."""
        def one(pid):
            pr = self.procs[pid]
            if pr.at == "exit":
                return
            t0 = time.time()
            first = pr.p is None
            if first:
                self._spawn(pr, self.points)
            else:
                self._release(pr)
            got = self._wait(pr)
            pr.waits.append(("raw-spawn" if first else "raw", got, round(time.time() - t0, 4)))
            pr.at = got if got is not None else pr.at
            if after_event:
                after_event()
            return got
        for pid in pids:
            one(pid)
        if drain:
            for pid in sorted(self.procs):
                n = 0
                while self.procs[pid].at != "exit" and n < 40:
                    if one(pid) is None:
                        break
                    n += 1

    def finish(self):
        """Release everything that still waits and reap (used after a divergence, too)."""
        t_end = time.time() + 15
        while time.time() < t_end:
            alive = False
            for pr in self.procs.values():
                if pr.p is None or pr.rc is not None:
                    continue
                if pr.p.poll() is None:
                    alive = True
                    for f in os.listdir(self.dir):
                        if f.startswith("p%d." % pr.pid) and f.endswith(".at"):
                            go = os.path.join(self.dir, f.split(".")[0] + "." + f.split(".")[1] + ".go")
                            if not os.path.exists(go):
                                open(go, "w").close()
                else:
                    so, se = pr.p.communicate()
                    pr.rc, pr.out, pr.err = pr.p.returncode, so.decode("utf-8", "replace"), se.decode("utf-8", "replace")
                    pr.t_exit = time.time()
            if not alive:
                break
            time.sleep(0.002)
        for pr in self.procs.values():
            if pr.p is not None and pr.rc is None:
                pr.p.kill()
                so, se = pr.p.communicate()
                pr.rc, pr.out, pr.err = -9, so.decode("utf-8", "replace"), se.decode("utf-8", "replace")


def interleavings(counts):
    """All sequences over the pids in `counts` (pid -> number of occurrences)."""
    pids = sorted(counts)

    def rec(rem, acc):
        if all(v == 0 for v in rem.values()):
            yield list(acc)
            return
        for p in pids:
            if rem[p] > 0:
                rem[p] -= 1
                acc.append(p)
                yield from rec(rem, acc)
                acc.pop()
                rem[p] += 1
    yield from rec(dict(counts), [])
