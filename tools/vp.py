#!/usr/bin/env python3
"""Entry point: vp.py setup | vp.py check <ID> [--tier quick|thorough] [--replay FILE]"""
import argparse
import importlib
import os
import sys
import traceback

sys.path.insert(0, os.path.dirname(os.path.abspath(__file__)))
import vlib  # noqa: E402


def setup():
    print("[setup] harness (debug)", flush=True)
    import glob
    bins = [os.path.basename(p)[:-3] for p in glob.glob(os.path.join(vlib.HARNESS, "src", "bin", "*.rs"))]
    try:
        vlib.cargo_build(bins)
    except vlib.CheckBroken as e:
        print("[setup] WARNING: building all harness bins at once failed; building one by one\n", str(e)[-800:])
        for b in bins:
            try:
                vlib.cargo_build([b])
            except vlib.CheckBroken as e2:
                print("[setup] WARNING: harness bin", b, "does not build:", str(e2)[-400:])
    print("[setup] generated tables (Gen_*.v) from the built crate", flush=True)
    import gentables
    gentables.generate_all()
    print("[setup] coq: full .vo build", flush=True)
    ok, log = vlib.coq_make(keep_going=True)
    print(log[-1500:])
    if not ok:
        # keep going: every check rebuilds and re-checks the files it depends on and reports on its own
        print("[setup] WARNING: some Coq files did not build; the checks that depend on them will report it")
    rel = [b for b in bins if b in ("sgcli", "sgv-trend")]
    if rel:
        print("[setup] harness (release, overflow behaviour):", rel, flush=True)
        vlib.cargo_build(rel, release=True)
    print("[setup] ocaml drivers", flush=True)
    for name, mods in vlib_drivers().items():
        try:
            vlib.ocaml_build(name, mods)
        except Exception as e:  # a check that needs it rebuilds it and reports
            print("[setup] WARNING: ocaml driver", name, "not built:", str(e)[:300])
    print("[setup] done")
    return 0


def vlib_drivers():
    d = {}
    if os.path.exists(os.path.join(vlib.OCAML, "counter_drv.ml")):
        d["counter_drv"] = ["counter_ex"]
    for f in sorted(os.listdir(vlib.OCAML)):
        if f.endswith("_drv.ml") and f != "counter_drv.ml":
            base = f[:-7]
            d[f[:-3]] = [base + "_ex"]
    return d


def main():
    ap = argparse.ArgumentParser()
    sub = ap.add_subparsers(dest="cmd", required=True)
    sub.add_parser("setup")
    c = sub.add_parser("check")
    c.add_argument("prop")
    c.add_argument("--tier", default=os.environ.get("VERIF_TIER", "quick"))
    c.add_argument("--replay", default=None)
    a = ap.parse_args()
    if a.cmd == "setup":
        sys.exit(setup())
    # one check (or one seeded-change run) at a time per machine: every check rebuilds from /repo's
    # working tree, so a concurrently applied seeded change would leak into this run
    lockf = None
    if not os.environ.get("SGV_LOCK_HELD"):
        import fcntl
        lockf = open("/tmp/sgv-repo.lock", "w")
        fcntl.flock(lockf, fcntl.LOCK_EX)
    seed = int(os.environ.get("VERIF_SEED", "1"))
    tier = a.tier if a.tier in ("quick", "thorough") else "quick"
    mod = importlib.import_module("props." + a.prop.lower())
    ctx = vlib.Ctx(a.prop, tier, seed)
    try:
        if a.replay:
            rc = mod.replay(ctx, a.replay)
        else:
            mod.run(ctx)
            rc = ctx.finish()
    except vlib.CheckBroken as e:
        print("CHECK-BROKEN:", e, flush=True)
        sys.exit(3)
    except Exception:
        traceback.print_exc()
        sys.exit(3)
    print(f"[{a.prop}] tier={tier} seed={seed} obligations={ctx.cov['obligations']} discharged={ctx.cov['discharged']} "
          f"evaluations={ctx.cov['evaluations']} violations={len(ctx.violations)} wall={round(__import__('time').time()-ctx.t0,1)}s", flush=True)
    sys.exit(rc)


if __name__ == "__main__":
    main()
