#!/usr/bin/env python3
"""Run every seeded change under /verif/seeded against its own property's quick check and the neighbouring
checks (one at a time, each applied to /repo by seedtest.py and reverted), and write seeded/RESULTS.json plus a
markdown table (seeded/RESULTS.md).  Not a registered check: a development tool for measuring detection.
usage: seedall.py [<id-prefix> | re:<regex> ...]"""
import glob, json, os, re, subprocess, sys, time
EXTRA = {"C01": ["C05", "C06", "C08"], "C02": ["C03", "C04"], "C03": ["C02", "C04"], "C04": ["C02", "C03"], "C08": ["C01"],
         "C09": ["C10", "C11"], "C10": ["C09"], "C11": ["C09"], "C13": ["C14"], "C14": ["C13"]}
os.chdir("/verif")
want = sys.argv[1:]
res_path = "seeded/RESULTS.json"
results = json.load(open(res_path)) if os.path.exists(res_path) else {}
for d in sorted(glob.glob("seeded/C*-m*")):
    sid = os.path.basename(d)
    if want and not any(re.fullmatch(w[3:], sid) if w.startswith("re:") else sid.startswith(w) for w in want):
        continue
    meta = json.load(open(d + "/meta.json")) if os.path.exists(d + "/meta.json") else {}
    if "obsolete" in (meta.get("caught_by") or {}):
        continue
    prop = sid.split("-")[0]
    ids = [prop] + ([] if os.environ.get("SEEDALL_OWN") else EXTRA.get(prop, []))
    t0 = time.time()
    p = subprocess.run(["python3", "tools/seedtest.py", d + "/patch.diff"] + ids, capture_output=True, text=True)
    out = p.stdout + p.stderr
    r, cur = {}, None
    for line in out.splitlines():
        m = re.match(r"== (C\d\d): exit (\d+)", line)
        if m:
            cur = m.group(1)
            r[cur] = {"exit": int(m.group(2)), "input": 0, "corr": 0}
        elif line.startswith("VIOLATION") and cur:
            r[cur]["corr" if line.rstrip().endswith("no-failing-input-found") else "input"] += 1
        elif line.startswith("REFUSING") or line.startswith("error:") or "CHECK-BROKEN" in line:
            r.setdefault("_problems", []).append(line[:200])
    print(sid, json.dumps(r), flush=True)
    results = json.load(open(res_path)) if os.path.exists(res_path) else {}   # another instance may have written
    merged = dict((results.get(sid) or {}).get("checks") or {})      # keep the last result of checks not run this time
    merged.pop("_problems", None)
    merged.update(r)
    results[sid] = {"checks": merged, "wall": round(time.time() - t0)}
    json.dump(results, open(res_path, "w"), indent=1, sort_keys=True)


def verdict(c):
    if c["exit"] == 0:
        return "missed"
    if c["input"]:
        return "input"
    if c["corr"]:
        return "corr"
    return "exit %d" % c["exit"]


rows = ["| change | what it does | own check | neighbouring checks |", "|---|---|---|---|"]
results = json.load(open(res_path))
for sid in sorted(set(results) | {os.path.basename(d) for d in glob.glob("seeded/C*-m*")}):
    meta = json.load(open(f"seeded/{sid}/meta.json"))
    if "obsolete" in (meta.get("caught_by") or {}):
        rows.append(f"| {sid} | {meta.get('change', '')} | obsolete (see meta.json) | |")
        continue
    if sid not in results:
        continue
    ch = results[sid]["checks"]
    prop = sid.split("-")[0]
    own = verdict(ch[prop]) if prop in ch else "?"
    oth = ", ".join(f"{k}: {verdict(v)}" for k, v in sorted(ch.items()) if k != prop and not k.startswith("_"))
    rows.append(f"| {sid} | {meta.get('change', '')} | {own} | {oth} |")
open("seeded/RESULTS.md", "w").write("\n".join(rows) + "\n")
print("ALLDONE")
