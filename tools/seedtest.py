#!/usr/bin/env python3
"""Apply a seeded mutation to /repo, run the given checks, revert exactly the files the patch touched.
usage: seedtest.py <patch> <ID> [<ID> ...] [--tier quick]"""
import subprocess, sys, re, os, fcntl
_lock = open("/tmp/sgv-repo.lock", "w")
fcntl.flock(_lock, fcntl.LOCK_EX)          # held while the change is applied; checks are told not to re-lock
os.environ["SGV_LOCK_HELD"] = "1"
os.environ["SGV_NO_EVIDENCE"] = "1"        # evidence files describe the unchanged tree only
patch = os.path.abspath(sys.argv[1])
ids = [a for a in sys.argv[2:] if not a.startswith("--")]
files = re.findall(r"^\+\+\+ b/(\S+)", open(patch).read(), re.M)
if not files:
    print("REFUSING: no `+++ b/<file>` header found in the patch (write it with `git diff`, not `git show -R`)"); sys.exit(2)
dirty = subprocess.run(["git", "-C", "/repo", "status", "--porcelain", "--"] + files, capture_output=True, text=True).stdout.strip()
if dirty:
    print("REFUSING: files touched by the patch have uncommitted changes:\n" + dirty); sys.exit(2)
subprocess.run(["git", "-C", "/repo", "apply", patch], check=True)
try:
    for i in ids:
        p = subprocess.run(["python3", "/verif/tools/vp.py", "check", i, "--tier", "quick"], capture_output=True, text=True, cwd="/verif")
        lines = [l for l in p.stdout.splitlines() if l.startswith("VIOLATION") or l.startswith("[" + i) or l.startswith("CHECK-BROKEN")]
        print(f"== {i}: exit {p.returncode}")
        print("\n".join(lines[:6]))
finally:
    subprocess.run(["git", "-C", "/repo", "checkout", "--"] + files, check=True)
    print("reverted", files)
