"""Shared machinery for the sloc-guard verification checks (see DESIGN.md section 2)."""
import hashlib
import json
import os
import random
import re
import shutil
import subprocess
import sys
import tempfile
import time

ROOT = os.path.dirname(os.path.dirname(os.path.abspath(__file__)))
COQ = os.path.join(ROOT, "coq")
OCAML = os.path.join(ROOT, "ocaml")
HARNESS = os.path.join(ROOT, "harness")
TARGET = os.path.join(HARNESS, "target")
EVID = os.path.join(ROOT, "evidence")
REPLAYS = os.path.join(ROOT, "replays")
CORPUS = os.path.join(ROOT, "corpus")
REPO = "/repo"

ENV = dict(os.environ)
ENV.update({"CARGO_NET_OFFLINE": "true", "NO_COLOR": "1", "LC_ALL": "C.UTF-8"})

FORBIDDEN = re.compile(
    r"\b(Admitted|admit|Axiom|Axioms|Parameter|Parameters|Conjecture|Abort All|give_up)\b"
    r"|Unset\s+Guard|bypass_check|type-in-type|impredicative-set|Admit Obligations|Unset\s+Universe\s+Checking|Unset\s+Positivity")

# Axioms a property theorem may depend on (standard-library axioms only, named in DESIGN.md section 6)
AXIOM_ALLOW = {
    "default": set(),
    "flocq": {"ClassicalDedekindReals.sig_forall_dec", "ClassicalDedekindReals.sig_not_dec",
              "FunctionalExtensionality.functional_extensionality_dep", "Classical_Prop.classic"},
}


class CheckBroken(Exception):
    """The machinery itself could not run (build failure of the harness etc.)."""


def sh(cmd, timeout=600, cwd=None, env=None, inp=None, check=False):
    e = dict(ENV)
    if env:
        e.update(env)
    p = subprocess.run(cmd, shell=isinstance(cmd, str), cwd=cwd, env=e, input=inp,
                       stdout=subprocess.PIPE, stderr=subprocess.STDOUT, timeout=timeout, text=True)
    if check and p.returncode != 0:
        raise CheckBroken(f"command failed ({p.returncode}): {cmd}\n{p.stdout[-4000:]}")
    return p.returncode, p.stdout


# --------------------------------------------------------------------------- builds

def cargo_build(bins, release=False):
    """Incremental offline build of harness binaries against /repo's working tree."""
    args = ["cargo", "build", "--offline", "--quiet"]
    if release:
        args.append("--release")
    for b in bins:
        args += ["--bin", b]
    rc, out = sh(args, timeout=1500, cwd=HARNESS)
    if rc != 0:
        raise CheckBroken("cargo build failed (does /repo still compile?):\n" + out[-6000:])
    prof = "release" if release else "debug"
    # private copies: a concurrent cargo build (another check, a rebuilt /repo) re-links the files in the
    # shared target directory while this run is still using them
    out = {}
    for b in bins:
        src = os.path.join(TARGET, prof, b)
        dst = os.path.join(_private_bin_dir(), prof + "-" + b)
        shutil.copy2(src, dst)
        out[b] = dst
    return out


_PRIV = []


def _private_bin_dir():
    if not _PRIV:
        import atexit
        d = tempfile.mkdtemp(prefix="sgv-bin-")
        _PRIV.append(d)
        atexit.register(lambda: shutil.rmtree(d, ignore_errors=True))
    return _PRIV[0]


def coq_project():
    """_CoqProject is derived from the tree: every .v under coq/ (Gen/ files included)."""
    vs = []
    for d, _, fs in os.walk(COQ):
        for f in fs:
            if f.endswith(".v") and not f.startswith("."):
                vs.append(os.path.relpath(os.path.join(d, f), COQ))
    txt = "-Q . SG\n" + "\n".join(sorted(vs)) + "\n"
    write_if_changed(os.path.join(COQ, "_CoqProject"), txt)


def coq_makefile():
    coq_project()
    mk = os.path.join(COQ, "Makefile")
    cp = os.path.join(COQ, "_CoqProject")
    if (not os.path.exists(mk)) or os.path.getmtime(mk) < os.path.getmtime(cp):
        sh(["coq_makefile", "-f", "_CoqProject", "-o", "Makefile"], cwd=COQ, check=True)


def coq_make(targets=None, timeout=1500, keep_going=False):
    """Full .vo build of the given targets (default: everything). Returns (ok, log)."""
    coq_makefile()
    os.makedirs(os.path.join(OCAML, "gen"), exist_ok=True)
    os.makedirs(os.path.join(COQ, "Gen"), exist_ok=True)
    args = ["make", "-j16"] + (["-k"] if keep_going else []) + (targets or [])
    rc, out = sh(args, timeout=timeout, cwd=COQ)
    return rc == 0, out


def write_if_changed(path, content):
    old = None
    if os.path.exists(path):
        with open(path) as f:
            old = f.read()
    if old != content:
        os.makedirs(os.path.dirname(path), exist_ok=True)
        with open(path, "w") as f:
            f.write(content)
        return True
    return False


def ocaml_build(name, gen_modules):
    """Build ocaml/bin/<name> from ocaml/gen/<m>.ml(i) (extracted) and ocaml/<name>.ml."""
    os.makedirs(os.path.join(OCAML, "bin"), exist_ok=True)
    exe = os.path.join(OCAML, "bin", name)
    srcs = []
    for m in gen_modules:
        srcs += [f"gen/{m}.mli", f"gen/{m}.ml"]
    srcs.append(f"{name}.ml")
    newest = max(os.path.getmtime(os.path.join(OCAML, s)) for s in srcs)
    if os.path.exists(exe) and os.path.getmtime(exe) >= newest:
        return exe
    bdir = os.path.join(OCAML, "_b_" + name)
    shutil.rmtree(bdir, ignore_errors=True)
    os.makedirs(bdir)
    for s in srcs:
        shutil.copy(os.path.join(OCAML, s), bdir)
    files = [os.path.basename(s) for s in srcs]
    rc, out = sh(["ocamlfind", "ocamlopt", "-O2", "-w", "-a"] + files + ["-o", exe], cwd=bdir, timeout=600)
    shutil.rmtree(bdir, ignore_errors=True)
    if rc != 0:
        raise CheckBroken("ocaml build failed:\n" + out[-4000:])
    return exe


# --------------------------------------------------------------------------- proof obligations

def strip_comments(src):
    out, depth, i = [], 0, 0
    while i < len(src):
        if src.startswith("(*", i):
            depth += 1
            i += 2
        elif src.startswith("*)", i) and depth > 0:
            depth -= 1
            i += 2
        else:
            if depth == 0:
                out.append(src[i])
            i += 1
    return "".join(out)


def grep_forbidden():
    """Scan the whole coq/ tree for Admitted/Axiom/... and Variable/Hypothesis outside sections."""
    bad = []
    for d, _, fs in os.walk(COQ):
        for f in fs:
            if not f.endswith(".v"):
                continue
            p = os.path.join(d, f)
            src = strip_comments(open(p).read())
            for m in FORBIDDEN.finditer(src):
                bad.append(f"{os.path.relpath(p, COQ)}: {m.group(0)}")
            depth = 0
            for line in src.splitlines():
                t = line.strip()
                if re.match(r"Section\s+\w+", t):
                    depth += 1
                elif re.match(r"End\s+\w+", t) and depth > 0:
                    depth -= 1
                elif depth == 0 and re.match(r"(Variables?|Hypothes[ie]s|Context)\b", t):
                    bad.append(f"{os.path.relpath(p, COQ)}: {t[:60]} outside a Section")
    return bad


def check_obligations(prop_file, allow="default", rebuild_timeout=900):
    """Re-check Properties_<id>.v from scratch: every Theorem must be accepted by coqc and its
    Print Assumptions must be closed or inside the allow-list. Returns a dict."""
    rel = prop_file
    path = os.path.join(COQ, rel)
    src = strip_comments(open(path).read())
    names = re.findall(r"^\s*(?:Theorem|Lemma|Example|Corollary)\s+(\w+)", src, re.M)
    printed = re.findall(r"Print Assumptions\s+(\w+)\s*\.", src)
    res = {"file": rel, "theorems": names, "obligations": len(names), "discharged": 0,
           "axioms": {}, "problems": [], "log_tail": ""}
    for n in names:
        if n not in printed:
            res["problems"].append(f"{n}: no Print Assumptions")
    vo = path[:-2] + ".vo"
    for ext in (".vo", ".vos", ".vok", ".glob"):
        try:
            os.remove(path[:-2] + ext)
        except FileNotFoundError:
            pass
    ok, log = coq_make([rel[:-2] + ".vo"], timeout=rebuild_timeout)
    res["log_tail"] = log[-3000:]
    res["checker_cmd"] = f"cd {COQ} && make -j16 {rel[:-2]}.vo  (coqc 8.16.1, full .vo build; Print Assumptions under every theorem)"
    if not ok or not os.path.exists(vo):
        res["problems"].append("coqc rejected " + rel)
        m = re.search(r'File "\./([^"]+)", line (\d+)', log)
        res["failed_at"] = (m.group(1) + ":" + m.group(2)) if m else "?"
        return res
    # parse Print Assumptions output: blocks in order of `printed`
    blocks = re.split(r"(?=Closed under the global context|Axioms:)", log)
    blocks = [b for b in blocks if b.startswith("Closed under") or b.startswith("Axioms:")]
    allowed = AXIOM_ALLOW[allow]
    for i, n in enumerate(printed):
        if i >= len(blocks):
            res["problems"].append(f"{n}: Print Assumptions output missing")
            continue
        b = blocks[i]
        if b.startswith("Closed under"):
            ax = []
        else:
            ax = [a for a in re.findall(r"^([A-Za-z_][\w.']*)\s*:", b, re.M) if a != "Axioms"]
        res["axioms"][n] = ax
        extra = [a for a in ax if a not in allowed and a.split(".")[-1] not in {x.split(".")[-1] for x in allowed}]
        if extra:
            res["problems"].append(f"{n}: depends on axioms outside the allow-list: {extra}")
        elif n in names:
            res["discharged"] += 1
    return res


# --------------------------------------------------------------------------- running tools

def _big_stack():
    import resource
    try:
        resource.setrlimit(resource.RLIMIT_STACK, (resource.RLIM_INFINITY, resource.RLIM_INFINITY))
    except Exception:
        pass


def run_lines(exe, lines, timeout=600, args=(), env=None):
    """Feed lines to a filter process; returns list of output lines (may be shorter on crash)."""
    inp = "\n".join(lines) + "\n"
    e = dict(ENV)
    if env:
        e.update(env)
    try:
        p = subprocess.run([exe, *args], input=inp, stdout=subprocess.PIPE, stderr=subprocess.PIPE,
                           timeout=timeout, text=True, env=e, preexec_fn=_big_stack)
        out = p.stdout.split("\n")
        if out and out[-1] == "":
            out.pop()
        return out, p.returncode, p.stderr[-2000:]
    except subprocess.TimeoutExpired as ex:
        so = ex.stdout or b""
        if isinstance(so, bytes):
            so = so.decode("utf-8", "replace")
        out = so.split("\n")
        if out and out[-1] == "":
            out.pop()
        return out, -9, "timeout"


def run_sharded(exe, lines, shards=16, timeout=600, args=()):
    """run_lines over several processes (order preserved)."""
    import concurrent.futures as cf
    n = len(lines)
    if n == 0:
        return [], []
    shards = max(1, min(shards, (n + 199) // 200))
    size = (n + shards - 1) // shards
    chunks = [lines[i:i + size] for i in range(0, n, size)]
    outs, errs = [], []
    with cf.ThreadPoolExecutor(max_workers=len(chunks)) as ex:
        for ch, (o, rc, err) in zip(chunks, ex.map(lambda c: run_lines(exe, c, timeout, args), chunks)):
            if len(o) < len(ch):
                errs.append({"rc": rc, "stderr": err, "first_unanswered": ch[len(o)][:2000]})
                o = o + ["<NOANSWER>"] * (len(ch) - len(o))
            outs.extend(o)
    return outs, errs


def coq_eval(defs_import, exprs, timeout=600):
    """Evaluate Gallina expressions inside coqc with vm_compute. `exprs` is a list of terms of type
    `str` (list N) -- each printed on its own marker line. Returns list of python strings."""
    # each expr must reduce to a list N; we print them via Eval and parse back
    d = tempfile.mkdtemp(prefix="sgv-coq-")
    try:
        src = [defs_import, "Import ListNotations.", "Open Scope N_scope."]
        for i, e in enumerate(exprs):
            src.append(f"Definition r{i} := Eval vm_compute in ({e}).")
            src.append(f'Print r{i}.')
        p = os.path.join(d, "cases.v")
        open(p, "w").write("\n".join(src) + "\n")
        rc, out = sh(["coqc", "-noglob", "-Q", COQ, "SG", p], timeout=timeout, cwd=d)
        if rc != 0:
            raise CheckBroken("coqc cases.v failed:\n" + out[-3000:])
        res = re.findall(r"r\d+ =\s*(.*?)\s*:\s", out, re.S)
        return [re.sub(r"\s+", " ", r) for r in res]
    finally:
        shutil.rmtree(d, ignore_errors=True)


# --------------------------------------------------------------------------- sandboxes for CLI runs

def clean_env(home):
    e = {"HOME": home, "XDG_CONFIG_HOME": os.path.join(home, ".config"), "GIT_CONFIG_GLOBAL": os.path.join(home, ".gitconfig"),
         "GIT_CONFIG_NOSYSTEM": "1", "NO_COLOR": "1", "PATH": ENV.get("PATH", "/usr/bin:/bin"),
         "GIT_AUTHOR_NAME": "v", "GIT_AUTHOR_EMAIL": "v@example.invalid", "GIT_COMMITTER_NAME": "v",
         "GIT_COMMITTER_EMAIL": "v@example.invalid", "LC_ALL": "C.UTF-8", "TZ": "UTC"}
    return e


class Sandbox:
    """Throw-away project directory outside any git work tree / config ancestor."""

    def __init__(self, prefix="sgv-"):
        base = os.environ.get("SGV_TMP", "/tmp")
        self.base = tempfile.mkdtemp(prefix=prefix, dir=base)
        self.home = os.path.join(self.base, "home")
        self.proj = os.path.join(self.base, "proj")
        os.makedirs(self.home)
        os.makedirs(self.proj)
        self.env = clean_env(self.home)

    def write(self, rel, data, base=None):
        p = os.path.join(base or self.proj, rel)
        os.makedirs(os.path.dirname(p), exist_ok=True)
        mode = "wb" if isinstance(data, bytes) else "w"
        with open(p, mode) as f:
            f.write(data)
        return p

    def run(self, exe, args, cwd=None, env=None, timeout=60, stdin=None):
        e = dict(self.env)
        if env:
            e.update(env)
        try:
            p = subprocess.run([exe, *args], cwd=cwd or self.proj, env=e, stdout=subprocess.PIPE,
                               stderr=subprocess.PIPE, timeout=timeout, input=stdin)
            return p.returncode, p.stdout.decode("utf-8", "replace"), p.stderr.decode("utf-8", "replace")
        except subprocess.TimeoutExpired:
            return -9, "", "TIMEOUT"

    def close(self):
        shutil.rmtree(self.base, ignore_errors=True)

    def __enter__(self):
        return self

    def __exit__(self, *a):
        self.close()


# --------------------------------------------------------------------------- check context / evidence

class Ctx:
    def __init__(self, prop, tier, seed):
        self.prop, self.tier, self.seed = prop, tier, seed
        self.t0 = time.time()
        self.rng = random.Random(seed * 1000003 + sum(map(ord, prop)))
        self.cov = {"evaluations": 0, "distinct_nontrivial": 0, "rule": "", "samples": [],
                    "obligations": 0, "discharged": 0, "checker_cmd": "", "trusted_base": [],
                    "traces_validated_against_impl": 0}
        self.assumptions = []
        self.violations = []      # list of (replay_path, no_input)
        self.known_hits = {}      # class -> count
        self.notes = []
        self.kf = load_known_findings()

    # ---- reporting
    def violation(self, replay_obj, no_input=False, tag=None):
        os.makedirs(REPLAYS, exist_ok=True)
        name = f"{self.prop}-{self.tier}-{self.seed}-{len(self.violations)}" + (f"-{tag}" if tag else "") + ".json"
        path = os.path.join(REPLAYS, name)
        replay_obj = dict(replay_obj)
        replay_obj.setdefault("property", self.prop)
        replay_obj.setdefault("seed", self.seed)
        replay_obj.setdefault("tier", self.tier)
        with open(path, "w") as f:
            json.dump(replay_obj, f, indent=1, default=str)
        self.violations.append((path, no_input))
        print(f"VIOLATION property={self.prop} replay={path}" + (" no-failing-input-found" if no_input else ""), flush=True)

    def known(self, klass, what):
        """A disagreement with the spec that falls in a listed known-finding class."""
        ent = [k for k in self.kf.get("findings", []) if k["property"] == self.prop and k["class"] == klass]
        if not ent:
            return False
        self.known_hits[klass] = self.known_hits.get(klass, 0) + 1
        return True

    def finish(self):
        for klass, n in sorted(self.known_hits.items()):
            ent = [k for k in self.kf["findings"] if k["property"] == self.prop and k["class"] == klass][0]
            print(f"KNOWN-FINDING: property={self.prop} {klass}: {ent['what']} ({n} case(s) this run)", flush=True)
        ev = {"property_id": self.prop, "tier": self.tier, "seed": self.seed, "level": "proof",
              "coverage": self.cov, "assumptions": self.assumptions, "wall_s": round(time.time() - self.t0, 2),
              "violations": len(self.violations)}
        if self.notes:
            ev["coverage"]["notes"] = self.notes
        ev["coverage"]["known_finding_hits"] = self.known_hits
        # a run against a deliberately changed /repo (tools/seedtest.py) must not replace the evidence of the real tree
        if not os.environ.get("SGV_NO_EVIDENCE"):
            os.makedirs(EVID, exist_ok=True)
            with open(os.path.join(EVID, f"{self.prop}.json"), "w") as f:
                json.dump(ev, f, indent=1, default=str)
        return 1 if self.violations else 0

    def sample(self, obj, cap=6):
        if len(self.cov["samples"]) < cap:
            self.cov["samples"].append(obj)


def load_known_findings():
    """known_findings.json (committed, never written at run time) = union of known_findings/*.json"""
    out = {"findings": [], "fixed": []}
    d = os.path.join(ROOT, "known_findings")
    if os.path.isdir(d):
        for f in sorted(os.listdir(d)):
            if f.endswith(".json"):
                j = json.load(open(os.path.join(d, f)))
                out["findings"] += j.get("findings", [])
                out["fixed"] += j.get("fixed", [])
    return out


def proofs_step(ctx, prop_files, allow="default", extra_targets=None):
    """Step 3 of DESIGN 2.2. Returns True when every obligation is discharged."""
    bad = grep_forbidden()
    allok = True
    if bad:
        ctx.notes.append({"forbidden_constructs": bad})
        allok = False
    if extra_targets:
        ok, log = coq_make(extra_targets)
        if not ok:
            ctx.notes.append({"make_failed": log[-2000:]})
            allok = False
    cmds = []
    broken = []
    for pf in prop_files:
        r = check_obligations(pf, allow)
        ctx.cov["obligations"] += r["obligations"]
        ctx.cov["discharged"] += r["discharged"]
        cmds.append(r["checker_cmd"])
        ctx.cov.setdefault("theorems", []).extend(r["theorems"])
        ax = {k: v for k, v in r["axioms"].items() if v}
        if ax:
            ctx.cov.setdefault("axioms_used", {}).update(ax)
        if r["problems"]:
            allok = False
            broken.append({"file": pf, "problems": r["problems"], "failed_at": r.get("failed_at"), "log_tail": r["log_tail"][-1500:]})
    ctx.cov["checker_cmd"] = " ; ".join(cmds)
    if bad:
        broken.append({"forbidden_constructs": bad})
    ctx.proof_broken = broken
    return allok and not broken


TRUSTED_COMMON = [
    "Coq 8.16.1 kernel (coqc full .vo build; vm_compute for witnesses and cases.v; no native_compute)",
    "no axioms declared; Print Assumptions of every property theorem is checked against a by-name allow-list on every run",
    "hand-written Gallina model tied to /repo by a differential correspondence run (harness sgv-* built from /repo's working tree with feature verif-hooks)",
    "extraction: ExtrOcamlBasic only (bool, option, unit, list, prod, sumbool natives; no Extract Constant); OCaml 4.13.1 driver; cross-checked against vm_compute on a sub-sample",
    "python generators / canonicalisation in /verif/tools",
]
