#!/usr/bin/env python3
"""Regenerates MANIFEST.json from the table below (kept in one place so it stays valid)."""
import json, os
ROOT = os.path.dirname(os.path.dirname(os.path.abspath(__file__)))
import importlib, sys
sys.path.insert(0, os.path.join(ROOT, "tools"))
CHECKS = {}
# only properties listed in tools/claimed.txt are claimed (a check is listed once it passes on the unchanged tree)
CLAIMED = set(open(os.path.join(ROOT, 'tools', 'claimed.txt')).read().split())
for f in sorted(os.listdir(os.path.join(ROOT, "tools", "props"))):
    if f.startswith("c") and f.endswith(".py"):
        m = importlib.import_module("props." + f[:-3])
        if getattr(m, "MANIFEST", None) and f[:-3].upper() in CLAIMED:
            CHECKS[f[:-3].upper()] = m.MANIFEST
NOT_YET = {}
ALL = ["C%02d" % i for i in range(1, 21)]

def main():
    man = {
      "version": 1,
      "setup_cmd": "python3 tools/vp.py setup",
      "hooks": {
        "guard": "cargo feature verif-hooks",
        "enable": "harness/Cargo.toml depends on sloc-guard = { path = \"/repo\", features = [\"verif-hooks\"] }; built with cargo build --offline in /verif/harness",
        "baseline_off_cmd": "cd /repo && cargo test --workspace --no-fail-fast --offline",
        "source_commits": ["e3eae0f", "248be4d", "3618de3", "95d13bd"],
        "add_only": True
      },
      "engines": [
        {"name": "coq", "path": "coq", "serves_properties": sorted(CHECKS), "kind_free_text": "Coq 8.16.1 development: Gallina models + theorems, one Properties_Cxx.v per property"},
        {"name": "sgv", "path": "harness", "serves_properties": sorted(CHECKS), "kind_free_text": "Rust harness crate linking /repo (feature verif-hooks): implementation side of the correspondence check"},
        {"name": "ocaml", "path": "ocaml", "serves_properties": sorted(CHECKS), "kind_free_text": "drivers around the extracted models (model side of the correspondence check)"},
        {"name": "vp.py", "path": "tools", "serves_properties": sorted(CHECKS), "kind_free_text": "check orchestration, generators, oracles, evidence"}
      ],
      "checks": [],
      "not_applicable": [],
      "notes": "All checks: python3 tools/vp.py check <ID> --tier quick|thorough; seed from VERIF_SEED. See DESIGN.md."
    }
    for pid in ALL:
        if pid in CHECKS:
            c = CHECKS[pid]
            man["checks"].append({
              "property_id": pid,
              "quick_cmd": f"python3 tools/vp.py check {pid} --tier quick",
              "thorough_cmd": f"python3 tools/vp.py check {pid} --tier thorough",
              "evidence_file": f"evidence/{pid}.json",
              "replay_cmd_template": f"python3 tools/vp.py check {pid} --replay {{path}}",
              "engine": "coq",
              "level_claimed": {"category": "proof", "text": c["text"], "design_ref": c["ref"]},
              "level_note": c["note"],
              "technique": c["technique"],
            })
        else:
            man["not_applicable"].append({"property_id": pid, "reason": NOT_YET.get(pid, "check not built yet (work in progress; planned per DESIGN.md section 5)")})
    json.dump(man, open(os.path.join(ROOT, "MANIFEST.json"), "w"), indent=1)
    import vlib
    json.dump(vlib.load_known_findings(), open(os.path.join(ROOT, "known_findings.json"), "w"), indent=1)

if __name__ == "__main__":
    main()
