"""Generators and protocol helpers for the configuration gate (C17).

Documents are python dicts rendered to TOML by `render` (values may be `Raw` literals so that wrong
types, nan/inf and integers beyond i64 can be written). The typed view the Coq model consumes is NOT
computed here: the harness `sgv-gate` deserialises each document with the real `toml` crate and dumps
the typed Config (glob / regex compilation bits from the real crates) in the wire format that
`ocaml/gate_drv.ml` and `wire_to_coq` read."""
import copy
import json
import os
import re
import struct
import tomllib
from vlib import *  # noqa


def enc(s):
    return ",".join(str(ord(c)) for c in s) if s else "-"


def dec(s):
    return "" if s in ("", "-") else "".join(chr(int(t)) for t in s.split(","))


def unhex(s):
    return "" if s in ("", "-") else bytes.fromhex(s).decode("utf-8", "replace")


class Raw:
    """A literal written into the TOML text as is."""

    def __init__(self, text):
        self.text = text

    def __repr__(self):
        return "Raw(%s)" % self.text

    def __eq__(self, o):
        return isinstance(o, Raw) and o.text == self.text

    def __hash__(self):
        return hash(self.text)


def tstr(s):
    out = ['"']
    for ch in s:
        o = ord(ch)
        if ch == '"':
            out.append('\\"')
        elif ch == "\\":
            out.append("\\\\")
        elif o < 0x20 or o == 0x7F:
            out.append("\\u%04X" % o)
        else:
            out.append(ch)
    out.append('"')
    return "".join(out)


def tval(v):
    if isinstance(v, Raw):
        return v.text
    if isinstance(v, bool):
        return "true" if v else "false"
    if isinstance(v, int):
        return str(v)
    if isinstance(v, float):
        if v != v:
            return "nan"
        if v in (float("inf"), float("-inf")):
            return "inf" if v > 0 else "-inf"
        r = repr(v)
        return r if ("." in r or "e" in r or "E" in r) else r + ".0"
    if isinstance(v, str):
        return tstr(v)
    if isinstance(v, list):
        return "[" + ", ".join(tval(x) for x in v) + "]"
    if isinstance(v, dict):
        return "{ " + ", ".join("%s = %s" % (tkey(k), tval(x)) for k, x in v.items()) + " }"
    raise TypeError(v)


def tkey(k):
    return k if re.fullmatch(r"[A-Za-z0-9_-]+", k) else tstr(k)


def render(doc):
    """dict -> TOML text. Sections: top-level dict values; `rules` lists of dicts become [[sec.rules]]."""
    lines = []
    for k, v in doc.items():
        if not isinstance(v, dict):
            lines.append("%s = %s" % (tkey(k), tval(v)))

    def table(prefix, t):
        lines.append("")
        lines.append("[%s]" % prefix)
        later = []
        for k, v in t.items():
            if isinstance(v, dict) and k in ("report",):
                later.append(("T", k, v))
            elif k == "rules" and isinstance(v, list) and v and all(isinstance(x, dict) for x in v):
                later.append(("A", k, v))
            else:
                lines.append("%s = %s" % (tkey(k), tval(v)))
        for kind, k, v in later:
            if kind == "T":
                table(prefix + "." + tkey(k), v)
            else:
                for item in v:
                    lines.append("")
                    lines.append("[[%s.%s]]" % (prefix, tkey(k)))
                    for kk, vv in item.items():
                        lines.append("%s = %s" % (tkey(kk), tval(vv)))

    for k, v in doc.items():
        if isinstance(v, dict):
            table(tkey(k), v)
    return "\n".join(lines) + "\n"


# --------------------------------------------------------------------------- base documents

def base_docs():
    rich = {
        "version": "2",
        "scanner": {"gitignore": True, "exclude": [".git/**", "**/target/**", "vendor/**"]},
        "content": {
            "extensions": ["rs", "py"], "max_lines": 500, "warn_threshold": 0.8, "warn_at": 450,
            "skip_comments": True, "skip_blank": True, "exclude": ["**/*_gen.rs"],
            "rules": [
                {"pattern": "src/generated/**", "max_lines": 2000, "warn_threshold": 0.95, "reason": "generated"},
                {"pattern": "**/*_test.rs", "max_lines": 800, "warn_at": 700, "expires": "2031-06-01"},
            ],
        },
        "structure": {
            "max_files": 30, "max_dirs": 10, "max_depth": 8, "warn_threshold": 0.8,
            "warn_files_at": 25, "warn_dirs_at": 8, "warn_files_threshold": 0.7, "warn_dirs_threshold": 0.6,
            "count_exclude": ["*.md", ".gitkeep"],
            "deny_extensions": [".exe"], "deny_patterns": ["*.bak", "tmp/"], "deny_files": ["*.tmp"], "deny_dirs": ["node_modules"],
            "rules": [
                {"scope": "src/components/**", "max_files": 50, "max_dirs": 5, "max_depth": 4, "warn_threshold": 0.9,
                 "warn_files_at": 40, "warn_dirs_at": 3, "warn_files_threshold": 0.5, "warn_dirs_threshold": 0.5,
                 "allow_extensions": [".tsx", ".ts"], "allow_patterns": ["*.css"], "allow_files": ["README.md"],
                 "allow_dirs": ["utils"], "file_naming_pattern": "^[A-Za-z][A-Za-z0-9_.]*$",
                 "siblings": [{"match": "*.tsx", "require": "{stem}.test.tsx"},
                              {"group": ["{stem}.tsx", "{stem}.module.css"], "severity": "warn"}],
                 "reason": "components", "expires": "2032-12-31"},
                {"scope": "tests/**", "max_files": -1, "max_dirs": -1, "relative_depth": True, "max_depth": 3,
                 "deny_extensions": [".dll"], "deny_patterns": ["*.orig"], "deny_files": ["secrets.*"], "deny_dirs": ["__pycache__"]},
            ],
        },
        "baseline": {"ratchet": "warn"},
        "trend": {"max_entries": 100, "max_age_days": 90, "min_interval_secs": 3600, "min_code_delta": 10},
        "stats": {"report": {"exclude": ["trend"], "top_count": 20, "breakdown_by": "lang", "depth": 2, "trend_since": "7d"}},
        "check": {"warnings_as_errors": False, "fail_fast": False},
    }
    content_only = {
        "version": "2",
        "content": {"max_lines": 300, "warn_threshold": 0.9,
                    "rules": [{"pattern": "src/**", "max_lines": 400, "warn_at": 399, "warn_threshold": 0.5, "expires": "2030-01-31"}]},
    }
    allow_global = {
        "structure": {"allow_extensions": [".rs", ".toml"], "allow_files": ["README.md", "LICENSE"], "allow_dirs": ["src", "tests"],
                      "count_exclude": ["*.lock"]},
    }
    deny_global = {
        "structure": {"deny_extensions": [".so"], "deny_patterns": ["*.bak", "build/"], "deny_files": ["Thumbs.db"], "deny_dirs": ["tmp*"]},
    }
    dormant = {"structure": {"count_exclude": ["*.md"]}, "trend": {"max_age_days": 30}}
    return {"empty": {}, "rich": rich, "content": content_only, "allow": allow_global, "deny": deny_global, "dormant": dormant}


# --------------------------------------------------------------------------- value classes

I63 = 2 ** 63
I64 = 2 ** 64

THRESHOLDS = [0.0, 1.0, Raw("-0.0"), 0.5, 0.9, Raw("1.0000000000000002"), Raw("0.9999999999999999"), Raw("-1e-300"), Raw("5e-324"), 7.5, -0.1,
              1.5, Raw("nan"), Raw("+nan"), Raw("-nan"), Raw("inf"), Raw("-inf"), Raw("+inf"), Raw("1e400"), 0, 1, 2, -1, "0.5", True, [0.5],
              Raw("1e-1"), Raw("1_0.0"), Raw("0x1"), Raw("1e0")]
USIZES = [0, 1, 2, 399, 400, 449, 450, 451, 500, 501, 600, 2 ** 31, 2 ** 32, 2 ** 53, I63 - 1, Raw(str(I63)), Raw(str(I64 - 1)), Raw(str(I64)),
          -1, Raw(str(-I63)), 1.5, "600", True, Raw("nan"), Raw("0x10"), Raw("1_000"), [1]]
I64S = [-2, -1, 0, 1, 2, 3, 5, 8, 10, 24, 25, 26, 30, 31, 50, -5, I63 - 1, -I63, Raw(str(I63)), Raw(str(-I63 - 1)), Raw(str(I64)), 1.0, "3",
        True, Raw("-0"), Raw("+7"), Raw("inf")]
GLOBS_OK = ["src/**", "**/*.rs", "*.md", "a?c", "[ab]*.rs", "{a,b}/**", "**", "README.md", "a/**/b", "[!a]x", "lit[*]", "x/"]
GLOBS_BAD = ["[a", "a{b", "a**", "**a", "{a,{b}", "[z-a]", "a\\", "a/**b", "}{", "[]"]
GLOBS_TYPE = [5, True, [5], Raw("{ a = 1 }")]
REGEX_OK = ["^[A-Z][a-zA-Z0-9]*\\.tsx$", ".*", "", "^a$", "[a-z]+", "(?i)readme", "\\d{1,3}"]
REGEX_BAD = ["([", "*a", "a{2,1}", "\\p{Foo}", "(?P<n", "[z-a]", "(?<!a)b", "\\1", "a)"]
VERSIONS = ["2", "1", "3", "", "2.0", " 2", "2 ", "02", "２", 2, 2.0, True, ["2"]]
DATES = ["2025-06-01", "2031-06-01", "2025-6-1", "+2025-06-01", "2025-+6-01", "2025-13-01", "2025-00-10", "2025-02-31", "2025-12-32",
         "2025-12-00", "soon", "", "2025-06", "2025-06-01-01", "65535-12-31", "65536-01-01", "2025-256-01", "2025-12-256", "２０２５-06-01",
         "2025-06-01 ", " 2025-06-01", "2025/06/01", "0-1-1", "-2025-06-01", "2025--06", "+-1-1", "+", "1-1-+", 20250601, Raw("2025-06-01"), True,
         "0000-01-01", "99999-01-01", "2025-012-01", "2025-0012-01", "2024-02-29", "2025-02-29", "1900-02-29", "2000-02-29", "2025-04-31",
         "2025-06-30", "2025-11-31", "2025-09-31", "2025-1-01", "2025-01-1", "025-01-01", "2025-01-01x", "2O25-01-01"]
DURATIONS = ["7d", "1w", "12h", "5m", "300s", "0d", "d", "30", "30x", "", "  7d  ", "7D", "2Weeks", "18446744073709551615s",
             "18446744073709551616s", "30500568904943w", "30500568904944w", "213503982334601d", "213503982334602d", "40000000000000w",
             "5124095576030431h", "5124095576030432h", "307445734561825860m", "307445734561825861m", "4wK", "7 d", "７d", "-7d", "+7d",
             "7.5d", "7dd", "1sec", "1seconds", "3mins", "2hrs", "1 w", " 7d ", "00007d", "1_0d", "9999999999999999999999d", 7, True,
             "7d\n", "7ıd", "1WK"]
SECTIONS = [["summary"], ["Summary", "FILES"], ["bogus"], ["breaKdown"], [], ["trend", ""], ["summary", 5], "summary", ["trİnd"]]
BREAKDOWNS = ["lang", "language", "dir", "directory", "DIR", "Lang", "x", "", "K", 5, ["lang"]]
RATCHETS = ["warn", "auto", "strict", "Warn", "bogus", "", 1, True]
BOOLS = [True, False, "yes", 1, 0, Raw("True")]
SIBLINGS = [
    [{"match": "*.tsx", "require": "{stem}.test.tsx"}],
    [{"match": "*.tsx", "require": ["{stem}.test.tsx", "{stem}.css"]}],
    [{"group": ["{stem}.a", "{stem}.b"]}],
    [{"match": "", "require": "{stem}.x"}],
    [{"match": "*.a", "require": ""}],
    [{"match": "*.a", "require": []}],
    [{"match": "*.a", "require": ["{stem}.x", ""]}],
    [{"match": "*.a", "require": "fixed.txt"}],
    [{"match": "*.a", "require": ["{stem}.x", "nostem"]}],
    [{"match": "[a", "require": "{stem}.x"}],
    [{"match": "a{b", "require": "{stem}.x"}, {"group": ["{stem}"]}],
    [{"group": ["{stem}.a"]}],
    [{"group": []}],
    [{"group": ["{stem}.a", ""]}],
    [{"group": ["{stem}.a", "b"]}],
    [{"group": ["{stem}.a", "{stem}.b"], "severity": "fatal"}],
    [{"match": "*.a", "require": "{stem}.b", "group": ["{stem}.a", "{stem}.b"]}],
    [{"match": "*.a"}],
    [{"require": "{stem}.b"}],
    [{}],
    [{"match": "*.a", "require": "{stem}.b"}, {"group": ["{stem}.a", "{STEM}.b"]}],
    [{"match": 5, "require": "{stem}.b"}],
    "x",
    [{"match": "*.a", "require": "{stem}.b", "severity": "warn"}, {"match": "*.b", "require": "{ stem }.c"}],
]


def glob_values(rng):
    r = rng.random()
    if r < 0.45:
        return [rng.choice(GLOBS_OK) for _ in range(rng.randint(0, 3))]
    if r < 0.9:
        l = [rng.choice(GLOBS_OK) for _ in range(rng.randint(0, 2))]
        l.insert(rng.randint(0, len(l)), rng.choice(GLOBS_BAD))
        if rng.random() < 0.2:
            l.append(rng.choice(GLOBS_BAD) + "/")
        return l
    return rng.choice([[rng.choice(GLOBS_TYPE)], rng.choice(GLOBS_TYPE), "notalist"])


def glob_value(rng):
    r = rng.random()
    return rng.choice(GLOBS_OK) if r < 0.4 else rng.choice(GLOBS_BAD) if r < 0.9 else rng.choice(GLOBS_TYPE)


# field schema: (path pattern, kind). `R` in a path = index of an existing rule.
SCHEMA = [
    (("version",), "version"),
    (("scanner", "exclude"), "globs"), (("scanner", "gitignore"), "bool"),
    (("content", "max_lines"), "usize"), (("content", "warn_threshold"), "thr"), (("content", "warn_at"), "usize"),
    (("content", "exclude"), "globs"), (("content", "extensions"), "strs"),
    (("content", "rules", "R", "pattern"), "glob"), (("content", "rules", "R", "max_lines"), "usize"),
    (("content", "rules", "R", "warn_threshold"), "thr"), (("content", "rules", "R", "warn_at"), "usize"),
    (("content", "rules", "R", "expires"), "date"),
    (("structure", "max_files"), "i64"), (("structure", "max_dirs"), "i64"), (("structure", "max_depth"), "i64"),
    (("structure", "warn_threshold"), "thr"), (("structure", "warn_files_threshold"), "thr"), (("structure", "warn_dirs_threshold"), "thr"),
    (("structure", "warn_files_at"), "i64"), (("structure", "warn_dirs_at"), "i64"),
    (("structure", "count_exclude"), "globs"), (("structure", "deny_patterns"), "globs"), (("structure", "deny_files"), "globs"),
    (("structure", "deny_dirs"), "globs"), (("structure", "allow_files"), "globs"), (("structure", "allow_dirs"), "globs"),
    (("structure", "deny_extensions"), "exts"), (("structure", "allow_extensions"), "exts"),
    (("structure", "rules", "R", "scope"), "glob"),
    (("structure", "rules", "R", "max_files"), "i64"), (("structure", "rules", "R", "max_dirs"), "i64"), (("structure", "rules", "R", "max_depth"), "i64"),
    (("structure", "rules", "R", "warn_threshold"), "thr"), (("structure", "rules", "R", "warn_files_threshold"), "thr"),
    (("structure", "rules", "R", "warn_dirs_threshold"), "thr"),
    (("structure", "rules", "R", "warn_files_at"), "i64"), (("structure", "rules", "R", "warn_dirs_at"), "i64"),
    (("structure", "rules", "R", "allow_patterns"), "globs"), (("structure", "rules", "R", "allow_files"), "globs"),
    (("structure", "rules", "R", "allow_dirs"), "globs"), (("structure", "rules", "R", "deny_patterns"), "globs"),
    (("structure", "rules", "R", "deny_files"), "globs"), (("structure", "rules", "R", "deny_dirs"), "globs"),
    (("structure", "rules", "R", "allow_extensions"), "exts"), (("structure", "rules", "R", "deny_extensions"), "exts"),
    (("structure", "rules", "R", "file_naming_pattern"), "regex"), (("structure", "rules", "R", "siblings"), "siblings"),
    (("structure", "rules", "R", "expires"), "date"), (("structure", "rules", "R", "relative_depth"), "bool"),
    (("trend", "max_entries"), "usize"), (("trend", "max_age_days"), "age"), (("trend", "min_interval_secs"), "usize"),
    (("trend", "min_code_delta"), "usize"), (("trend", "auto_snapshot_on_check"), "bool"),
    (("stats", "report", "exclude"), "sections"), (("stats", "report", "breakdown_by"), "breakdown"),
    (("stats", "report", "trend_since"), "duration"), (("stats", "report", "top_count"), "usize"), (("stats", "report", "depth"), "usize"),
    (("baseline", "ratchet"), "ratchet"),
    (("check", "warnings_as_errors"), "bool"), (("check", "fail_fast"), "bool"),
]
AGES = [0, 1, 90, 213503982334601, 213503982334602, 999999999999999999, I63 - 1, Raw(str(I63)), Raw(str(I64 - 1)), -1, "90", 1.5]


def pick_value(rng, kind):
    if kind == "thr":
        return rng.choice(THRESHOLDS)
    if kind == "usize":
        return rng.choice(USIZES)
    if kind == "i64":
        return rng.choice(I64S)
    if kind == "age":
        return rng.choice(AGES)
    if kind == "globs":
        return glob_values(rng)
    if kind == "glob":
        return glob_value(rng)
    if kind == "regex":
        r = rng.random()
        return rng.choice(REGEX_OK) if r < 0.4 else rng.choice(REGEX_BAD) if r < 0.9 else rng.choice([5, True, ["a"]])
    if kind == "version":
        return rng.choice(VERSIONS)
    if kind == "date":
        return rng.choice(DATES)
    if kind == "duration":
        return rng.choice(DURATIONS)
    if kind == "sections":
        return rng.choice(SECTIONS)
    if kind == "breakdown":
        return rng.choice(BREAKDOWNS)
    if kind == "ratchet":
        return rng.choice(RATCHETS)
    if kind == "bool":
        return rng.choice(BOOLS)
    if kind == "siblings":
        return copy.deepcopy(rng.choice(SIBLINGS))
    if kind == "exts":
        return rng.choice([[], [".rs"], [".a", ".b"], ["rs"], [5], ".rs"])
    if kind == "strs":
        return rng.choice([[], ["rs"], ["rs", "py", "Dockerfile"], [1], "rs"])
    raise KeyError(kind)


def set_path(doc, path, value, rng):
    """Set doc[path] = value creating intermediate tables; `R` picks (or creates) a rule. Returns the concrete path."""
    cur = doc
    concrete = []
    for i, k in enumerate(path[:-1]):
        if k == "R":
            if not cur:
                # parent list is empty: create a minimal valid rule
                sect = concrete[0]
                cur.append({"pattern": "src/**", "max_lines": 100} if sect == "content" else {"scope": "src/**"})
            idx = rng.randrange(len(cur))
            concrete.append(idx)
            cur = cur[idx]
        else:
            nxt = path[i + 1]
            if k not in cur or not isinstance(cur[k], (dict, list)):
                cur[k] = [] if nxt == "R" else {}
            concrete.append(k)
            cur = cur[k]
    cur[path[-1]] = value
    concrete.append(path[-1])
    return concrete


def pair_mutation(rng, doc):
    """Boundary pairs: a warn point against its own limit."""
    r = rng.random()
    d = rng.choice([-1, 0, 1, 1, 0])
    if r < 0.2:
        L = rng.choice([1, 2, 100, 600])
        doc.setdefault("content", {})["max_lines"] = L
        doc["content"]["warn_at"] = max(0, L - 1 + d)
        return "content.max_lines/warn_at"
    if r < 0.4:
        rules = doc.setdefault("content", {}).setdefault("rules", [])
        if not rules:
            rules.append({"pattern": "src/**", "max_lines": 100})
        rule = rng.choice(rules)
        L = rng.choice([0, 1, 50, 800])
        rule["max_lines"] = L
        rule["warn_at"] = max(0, L - 1 + d)
        return "content.rules.max_lines/warn_at"
    which = rng.choice(["files", "dirs"])
    M = rng.choice([-1, 0, 1, 10, 30])
    w = rng.choice([M - 1 + d, 5, 0, -1])
    if r < 0.7:
        s = doc.setdefault("structure", {})
        s["max_" + which] = M
        s["warn_%s_at" % which] = w
        return "structure.max/warn_at"
    rules = doc.setdefault("structure", {}).setdefault("rules", [])
    if not rules:
        rules.append({"scope": "src/**"})
    rule = rng.choice(rules)
    rule["max_" + which] = M
    rule["warn_%s_at" % which] = w
    return "structure.rules.max/warn_at"


def mix_mutation(rng, doc):
    """Conflicting allow/deny lists at one level."""
    s = doc.setdefault("structure", {})
    tgt = s
    if rng.random() < 0.5:
        rules = s.setdefault("rules", [])
        if not rules:
            rules.append({"scope": "src/**"})
        tgt = rng.choice(rules)
    allow = rng.choice(["allow_extensions", "allow_files", "allow_dirs"] + (["allow_patterns"] if tgt is not s else []))
    deny = rng.choice(["deny_extensions", "deny_files", "deny_dirs", "deny_patterns"])
    tgt[allow] = [".rs"] if allow.endswith("extensions") else ["*.rs"]
    tgt[deny] = [".exe"] if deny.endswith("extensions") else ["*.bak"]
    return "mix %s+%s" % (allow, deny)


def dup_scope_mutation(rng, doc):
    """Several structure rules with the SAME scope string (the later one wins at match time): every one of them is still part of
    the configuration and must pass the gate - siblings, limits, warn points, allow/deny lists of a shadowed rule included."""
    s = doc.setdefault("structure", {})
    if not isinstance(s, dict):
        return "dup-scope skipped"
    rules = s.setdefault("rules", [])
    if not isinstance(rules, list):
        return "dup-scope skipped"
    scope = rng.choice(["src/**", "src/components/**", "**", "tests/**"])
    bad = rng.random() < 0.8
    sib = copy.deepcopy(rng.choice(SIBLINGS[3:] if bad else SIBLINGS[:3]))
    carrier = {"scope": scope, "siblings": sib}
    r = rng.random()
    if r < 0.15:
        carrier = {"scope": scope, "max_files": rng.choice([-5, -2])}
    elif r < 0.25:
        carrier = {"scope": scope, "max_files": 3, "warn_files_at": rng.choice([3, 7])}
    elif r < 0.32:
        carrier = {"scope": scope, "allow_extensions": [".rs"], "deny_extensions": [".exe"]}
    plain = [{"scope": scope, "max_files": rng.choice([5, 50])} for _ in range(rng.choice([1, 1, 2]))]
    pos = rng.choice(["first", "first", "first", "last", "middle"])
    seq = [carrier] + plain if pos == "first" else plain + [carrier] if pos == "last" else plain[:1] + [carrier] + plain[:1]
    at = rng.randrange(len(rules) + 1)
    rules[at:at] = seq
    return "dup-scope %s carrier %s (%s)" % (scope, pos, "malformed" if bad or r < 0.32 else "well-formed")


def mutate(rng, bases):
    name = rng.choice(list(bases))
    doc = copy.deepcopy(bases[name])
    muts = []
    n = rng.choice([0, 1, 1, 1, 1, 1, 2, 2, 3])
    for _ in range(n):
        r = rng.random()
        if r < 0.12:
            muts.append(pair_mutation(rng, doc))
        elif r < 0.18:
            muts.append(mix_mutation(rng, doc))
        elif r < 0.25:
            muts.append(dup_scope_mutation(rng, doc))
        else:
            path, kind = rng.choice(SCHEMA)
            v = pick_value(rng, kind)
            try:
                cp = set_path(doc, path, v, rng)
            except (TypeError, AttributeError, KeyError, IndexError):
                continue  # an earlier mutation replaced a parent by a scalar
            muts.append("%s=%s" % (".".join(map(str, cp)), kind))
    try:
        text = render(doc)
    except TypeError:
        text = render(bases[name])
        muts = ["render-failed"]
    return {"base": name, "muts": muts, "toml": text}


MALFORMED = [
    "version = ", "[content\nmax_lines = 1\n", "[[content.rules]]\n", "[content]\nmax_lines = 1\nmax_lines = 2\n", "\x00", "version = \"2\"\n[bogus]\nx = 1\n",
    "content = 5\n", "[content]\nrules = 5\n", "[structure]\nrules = [5]\n", "[content.rules]\npattern = \"a\"\nmax_lines = 1\n", "﻿version = \"2\"\n",
    "version = '2'\n", "version = \"\"\"2\"\"\"\n", "[content]\nmax_lines = 1 # c\n", "a.b.c = 1\n", "[languages.x]\nextensions = 5\n",
    "[languages.x]\nextensions = [\"x\"]\nmulti_line_comments = [[\"/*\"]]\n", "[trend]\nmax_entries = 1e3\n", "version = \"2\"\nversion = \"2\"\n",
    "[structure]\nunknown_key = 1\n", "[[structure.rules]]\nmax_files = 3\n", "[[content.rules]]\npattern = \"a\"\n",
]


# --------------------------------------------------------------------------- CLI flag value classes

def flag_cases():
    """argv tails for `check` exercising every value class of the numeric flags (path given last)."""
    out = []
    for v in ["0", "1", "5", "600", str(I64 - 1), str(I64), "-1", "abc", "1.5", "", "+5", "0x10", " 5", "1_000"]:
        out.append(["--max-lines=" + v, "."])
    for v in ["0", "1", "0.5", "7", "nan", "NaN", "inf", "-inf", "infinity", "-0", "-0.0", "1e-320", "1.0000000000000002", "0.9999999999999999", "abc", "",
              "1e400", "-1e-400", "+1", ".5", "1.", "0x1p0", "1_0"]:
        out.append(["--warn-threshold=" + v, "."])
    for fl in ["--max-files", "--max-dirs", "--max-depth"]:
        for v in ["-1", "0", "5", "-5", "-2", str(I63 - 1), str(I63), str(-I63), str(-I63 - 1), "abc", "1.0", ""]:
            out.append([fl + "=" + v, "."])
        out.append([fl + "=3"])  # no PATH
    out.append(["--max-files", "-5", "."])
    out.append(["--max-lines=400", "--warn-threshold=1.5", "--max-files=-2", "."])
    return out


def stats_flag_cases():
    out = []
    for v in DURATIONS:
        if isinstance(v, str):
            out.append(["stats", "trend", "--since=" + v])
            out.append(["stats", "report", "--since=" + v])
    for v in ["0", "1", "20", str(I64 - 1), str(I64), "-1", "abc", "1.5", ""]:
        out.append(["stats", "files", "--top=" + v])
        out.append(["stats", "breakdown", "--by", "dir", "--depth=" + v])
        out.append(["stats", "history", "--limit=" + v])
        out.append(["stats", "report", "--top=" + v, "--depth=" + v])
    return out


# --------------------------------------------------------------------------- wire -> python / Coq

class Toks:
    def __init__(self, s):
        self.t = s.split()
        self.i = 0

    def next(self):
        x = self.t[self.i]
        self.i += 1
        return x

    def opt(self, f):
        return None if self.next() == "N" else f()

    def lst(self, f):
        return [f() for _ in range(int(self.next()))]

    def b(self):
        return self.next() == "1"

    def n(self):
        return int(self.next())

    def s(self):
        return dec(self.next())


def parse_wire(s):
    t = Toks(s)
    c = {}
    c["version"] = t.opt(t.s)
    c["scanner_exclude"] = t.lst(t.b)
    c["max_lines"] = t.n()
    c["warn_threshold"] = t.n()
    c["warn_at"] = t.opt(t.n)
    c["content_exclude"] = t.lst(t.b)

    def crule():
        return {"pattern_ok": t.b(), "max_lines": t.n(), "warn_threshold": t.opt(t.n), "warn_at": t.opt(t.n), "expires": t.opt(t.s)}
    c["rules"] = t.lst(crule)
    for k in ("s_max_files", "s_max_dirs", "s_max_depth"):
        c[k] = t.opt(t.n)
    for k in ("s_warn_threshold", "s_warn_files_threshold", "s_warn_dirs_threshold"):
        c[k] = t.opt(t.n)
    for k in ("s_warn_files_at", "s_warn_dirs_at"):
        c[k] = t.opt(t.n)
    c["s_count_exclude"] = t.lst(t.b)
    c["s_deny_ext"] = t.n()
    c["s_deny_patterns"] = t.lst(lambda: (t.b(), t.b()))
    c["s_deny_files"] = t.lst(t.b)
    c["s_deny_dirs"] = t.lst(t.b)
    c["s_allow_ext"] = t.n()
    c["s_allow_files"] = t.lst(t.b)
    c["s_allow_dirs"] = t.lst(t.b)

    def sib():
        if t.next() == "D":
            return ("D", t.s(), t.b(), t.lst(t.s))
        return ("G", t.lst(t.s))

    def srule():
        r = {"scope_ok": t.b()}
        for k in ("max_files", "max_dirs", "max_depth"):
            r[k] = t.opt(t.n)
        for k in ("warn_threshold", "warn_files_threshold", "warn_dirs_threshold"):
            r[k] = t.opt(t.n)
        for k in ("warn_files_at", "warn_dirs_at"):
            r[k] = t.opt(t.n)
        r["allow_ext"] = t.n()
        for k in ("allow_patterns", "allow_files", "allow_dirs"):
            r[k] = t.lst(t.b)
        r["deny_ext"] = t.n()
        for k in ("deny_patterns", "deny_files", "deny_dirs"):
            r[k] = t.lst(t.b)
        r["naming"] = t.opt(t.b)
        r["siblings"] = t.lst(sib)
        r["expires"] = t.opt(t.s)
        return r
    c["s_rules"] = t.lst(srule)
    for k in ("t_max_entries", "t_max_age_days", "t_min_interval_secs"):
        c[k] = t.opt(t.n)
    c["r_exclude"] = t.lst(t.s)
    c["r_breakdown_by"] = t.opt(t.s)
    c["r_trend_since"] = t.opt(t.s)
    c["b_ratchet"] = t.opt(t.n)
    c["k_wae"] = t.b()
    c["k_ff"] = t.b()
    assert t.i == len(t.t), "trailing tokens in wire"
    return c


def cb(b):
    return "true" if b else "false"


def cN(n):
    return str(n)


def cZ(z):
    return "(%d)%%Z" % z


def copt(o, f):
    return "None" if o is None else "(Some %s)" % f(o)


def clist(l, f):
    return "[" + "; ".join(f(x) for x in l) + "]"


def cstr(s):
    return "[" + "; ".join(str(ord(ch)) for ch in s) + "]"


def wire_to_coq(c):
    def crule(r):
        return ("{| cr_pattern_ok := %s; cr_max_lines := %s; cr_warn_threshold := %s; cr_warn_at := %s; cr_expires := %s |}" %
                (cb(r["pattern_ok"]), cN(r["max_lines"]), copt(r["warn_threshold"], cN), copt(r["warn_at"], cN), copt(r["expires"], cstr)))

    def sib(s):
        if s[0] == "D":
            return "SDirected %s %s %s" % (cstr(s[1]), cb(s[2]), clist(s[3], cstr))
        return "SGroup %s" % clist(s[1], cstr)

    def srule(r):
        return ("{| sr_scope_ok := %s; sr_max_files := %s; sr_max_dirs := %s; sr_max_depth := %s; sr_warn_threshold := %s; "
                "sr_warn_files_threshold := %s; sr_warn_dirs_threshold := %s; sr_warn_files_at := %s; sr_warn_dirs_at := %s; "
                "sr_allow_ext := %s; sr_allow_patterns := %s; sr_allow_files := %s; sr_allow_dirs := %s; sr_deny_ext := %s; "
                "sr_deny_patterns := %s; sr_deny_files := %s; sr_deny_dirs := %s; sr_naming := %s; sr_siblings := %s; sr_expires := %s |}" %
                (cb(r["scope_ok"]), copt(r["max_files"], cZ), copt(r["max_dirs"], cZ), copt(r["max_depth"], cZ), copt(r["warn_threshold"], cN),
                 copt(r["warn_files_threshold"], cN), copt(r["warn_dirs_threshold"], cN), copt(r["warn_files_at"], cZ), copt(r["warn_dirs_at"], cZ),
                 cN(r["allow_ext"]), clist(r["allow_patterns"], cb), clist(r["allow_files"], cb), clist(r["allow_dirs"], cb), cN(r["deny_ext"]),
                 clist(r["deny_patterns"], cb), clist(r["deny_files"], cb), clist(r["deny_dirs"], cb), copt(r["naming"], cb),
                 clist(r["siblings"], sib), copt(r["expires"], cstr)))
    return ("{| c_version := %s; c_scanner_exclude := %s; c_max_lines := %s; c_warn_threshold := %s; c_warn_at := %s; c_content_exclude := %s; "
            "c_rules := %s; s_max_files := %s; s_max_dirs := %s; s_max_depth := %s; s_warn_threshold := %s; s_warn_files_threshold := %s; "
            "s_warn_dirs_threshold := %s; s_warn_files_at := %s; s_warn_dirs_at := %s; s_count_exclude := %s; s_deny_ext := %s; "
            "s_deny_patterns := %s; s_deny_files := %s; s_deny_dirs := %s; s_allow_ext := %s; s_allow_files := %s; s_allow_dirs := %s; "
            "s_rules := %s; t_max_entries := %s; t_max_age_days := %s; t_min_interval_secs := %s; r_exclude := %s; r_breakdown_by := %s; "
            "r_trend_since := %s; b_ratchet := %s; k_warnings_as_errors := %s; k_fail_fast := %s |}" %
            (copt(c["version"], cstr), clist(c["scanner_exclude"], cb), cN(c["max_lines"]), cN(c["warn_threshold"]), copt(c["warn_at"], cN),
             clist(c["content_exclude"], cb), clist(c["rules"], crule), copt(c["s_max_files"], cZ), copt(c["s_max_dirs"], cZ),
             copt(c["s_max_depth"], cZ), copt(c["s_warn_threshold"], cN), copt(c["s_warn_files_threshold"], cN), copt(c["s_warn_dirs_threshold"], cN),
             copt(c["s_warn_files_at"], cZ), copt(c["s_warn_dirs_at"], cZ), clist(c["s_count_exclude"], cb), cN(c["s_deny_ext"]),
             clist(c["s_deny_patterns"], lambda p: "(%s, %s)" % (cb(p[0]), cb(p[1]))), clist(c["s_deny_files"], cb), clist(c["s_deny_dirs"], cb),
             cN(c["s_allow_ext"]), clist(c["s_allow_files"], cb), clist(c["s_allow_dirs"], cb), clist(c["s_rules"], srule),
             copt(c["t_max_entries"], cN), copt(c["t_max_age_days"], cN), copt(c["t_min_interval_secs"], cN), clist(c["r_exclude"], cstr),
             copt(c["r_breakdown_by"], cstr), copt(c["r_trend_since"], cstr), copt(c["b_ratchet"], cN), cb(c["k_wae"]), cb(c["k_ff"])))


def parse_flags_wire(s):
    t = Toks(s)
    return {"has_path": t.b(), "max_lines": t.opt(t.n), "warn_threshold": t.opt(t.n), "max_files": t.opt(t.n), "max_dirs": t.opt(t.n),
            "max_depth": t.opt(t.n)}


def flags_to_coq(f):
    return ("{| f_has_path := %s; f_max_lines := %s; f_warn_threshold := %s; f_max_files := %s; f_max_dirs := %s; f_max_depth := %s |}" %
            (cb(f["has_path"]), copt(f["max_lines"], cN), copt(f["warn_threshold"], cN), copt(f["max_files"], cZ), copt(f["max_dirs"], cZ),
             copt(f["max_depth"], cZ)))


# --------------------------------------------------------------------------- harness / model plumbing

BEHAV_KEYS = ["rule_wt", "expires", "revalidate_cli", "validate_builds", "dur_checked", "count_exclude", "strict_dates"]
# repaired defect (known_findings fixed entry, by patch name prefix) -> behaviour switches of the model
FIX_SWITCHES = {"D18-": ["validate_builds"], "D19-": ["rule_wt", "expires", "revalidate_cli"], "count-exclude-glob": ["count_exclude"], "strict-expires-dates": ["strict_dates"]}


def gate_dump(exe):
    rc, out = sh([exe, "dump"], check=True)
    presets, templates, probes = [], [], {}
    for line in out.splitlines():
        f = line.split(" ")
        if f[0] == "PRESET":
            presets.append((f[1], unhex(f[2])))
        elif f[0] == "DETECT":
            templates.append(("detect-" + f[1], unhex(f[2])))
        elif f[0] == "PROBE":
            probes[f[1]] = f[2] == "1"
    return presets, templates, probes


def harness_line(toml_text, argv):
    return (toml_text.encode("utf-8").hex() or "-") + "\t" + ("\x1f".join(argv) if argv else "-")


def parse_harness(line):
    f = line.split("\t")
    if f[0] == "PARSEFAIL":
        fl = f[3] if len(f) > 3 and f[2] == "FLAGS" else "0 N N N N N"
        return {"parse": False, "msg": unhex(f[1]) if len(f) > 1 else "", "FLAGS": fl, "clap_ok": not fl.startswith("CLAPERR")}
    d = {"parse": True}
    for i in range(0, len(f) - 1, 2):
        d[f[i]] = f[i + 1]
    if len(f) % 2 == 1:
        d[f[-1]] = ""
    d["bad_globs"] = [dec(x) for x in d.get("BADGLOBS", "").split()]
    d["bad_regex"] = [dec(x) for x in d.get("BADREGEX", "").split()]
    d["clap_ok"] = not d.get("FLAGS", "").startswith("CLAPERR")
    for k in ("SEM", "SEM2", "CTX"):
        v = d.get(k, "-")
        d[k.lower()] = ("ERR", unhex(v[4:])) if v.startswith("ERR:") else (v, "")
    return d


def model_line(h):
    """harness answer -> driver input (flags that clap rejects never reach the gate)."""
    fl = h["FLAGS"] if h["clap_ok"] else "0 N N N N N"
    if not h["parse"]:
        return "PARSEFAIL\t-\tFLAGS\t%s" % fl
    return "CFG\t%s\tFLAGS\t%s" % (h["CFG"], fl)


def parse_model(line):
    if line.startswith("BAD") or line == "<NOANSWER>":
        return None
    parts = [p.strip() for p in line.split("|")]
    out = {}
    for p in parts[:2]:
        f = p.split(" ")
        out[f[0]] = dict(x.split("=", 1) for x in f[1:])
    out["lib"] = dict(x.split("=", 1) for x in parts[2].split(" "))
    return out


def gen_presets_v(items, behav, probes):
    """items: list of (name, wire-dict). The generated table the C17 theorems are re-checked against."""
    out = ["(* GENERATED on every run by tools/gen_gate.py from the freshly built crate (sgv-gate dump: built-in presets and",
           "   init templates deserialised by the real toml crate, glob bits from globset). Do not edit. *)",
           "From Coq Require Import NArith ZArith List.", "From SG Require Import Gate.Validate.", "Import ListNotations.", "Open Scope N_scope.", ""]
    names = []
    for name, w in items:
        ident = "cfg_" + re.sub(r"\W", "_", name.lower())
        names.append(ident)
        out.append("Definition %s : config := %s." % (ident, wire_to_coq(w)))
    out.append("")
    out.append("Definition all : list config := [" + "; ".join(names) + "].")
    out.append("Definition all_count : N := %d." % len(names))
    out.append("(* behaviour of the working tree: repaired defects per known_findings/C17.json (fixed), D17 probed on the built crate *)")
    out.append("Definition current : behav := {| b_rule_wt := %s; b_expires := %s; b_revalidate_cli := %s; b_validate_builds := %s; "
               "b_dur_checked := %s; b_count_exclude := %s; b_strict_dates := %s |}." % tuple(cb(behav[k]) for k in BEHAV_KEYS))
    return "\n".join(out) + "\n"


def behav_from_known_findings(kf, probes):
    b = {k: False for k in BEHAV_KEYS}
    for e in kf.get("fixed", []):
        if e.get("property") != "C17":
            continue
        for frag, keys in FIX_SWITCHES.items():
            if frag in os.path.basename(e.get("patch", "")):
                for k in keys:
                    b[k] = True
    # D17 is repaired (or not) by the C15 work: follow what the built crate does
    b["dur_checked"] = bool(probes.get("dur_checked", False))
    return b


def collect_tables(bins, sgcli):
    """All presets and init templates as (name, toml text). The default `init` template comes from the CLI."""
    presets, templates, probes = gate_dump(bins["sgv-gate"])
    with Sandbox(prefix="sgv-gate-init-") as sb:
        rc, so, se = sb.run(sgcli, ["init"])
        p = os.path.join(sb.proj, ".sloc-guard.toml")
        if rc != 0 or not os.path.exists(p):
            raise CheckBroken("sgcli init failed: %s %s" % (rc, se[-500:]))
        templates.insert(0, ("init-default", open(p).read()))
    return presets, templates, probes


def write_gen_presets(bins=None, sgcli=None):
    """Regenerate coq/Gen/Gen_Presets.v. Returns (presets, templates, probes, behav, wires)."""
    if bins is None:
        bins = cargo_build(["sgv-gate", "sgcli"])
        sgcli = bins["sgcli"]
    presets, templates, probes = collect_tables(bins, sgcli)
    docs = [("preset-" + n, t) for n, t in presets] + templates
    outs, rc, err = run_lines(bins["sgv-gate"], [harness_line(t, []) for _, t in docs], args=["run"])
    if len(outs) != len(docs):
        raise CheckBroken("sgv-gate died on the preset table: %s" % err)
    items = []
    for (name, text), o in zip(docs, outs):
        h = parse_harness(o)
        if not h["parse"]:
            # a built-in table that does not even deserialise: keep it out of the Coq table, the check reports it
            items.append((name, None))
        else:
            items.append((name, parse_wire(h["CFG"])))
    behav = behav_from_known_findings(load_known_findings(), probes)
    write_if_changed(os.path.join(COQ, "Gen", "Gen_Presets.v"), gen_presets_v([(n, w) for n, w in items if w is not None], behav, probes))
    return presets, templates, probes, behav, items


# --------------------------------------------------------------------------- long malformed globs (diagnostic rendering)

GLOB_SETTINGS = [
    ("scanner.exclude", lambda g: {"scanner": {"exclude": [".git/**", g]}}),
    ("content.exclude", lambda g: {"content": {"exclude": [g]}}),
    ("content.rules.pattern", lambda g: {"content": {"rules": [{"pattern": g, "max_lines": 10}]}}),
    ("structure.count_exclude", lambda g: {"structure": {"max_files": 30, "count_exclude": [g]}}),
    ("structure.deny_patterns", lambda g: {"structure": {"deny_patterns": ["*.bak", g]}}),
    ("structure.deny_files", lambda g: {"structure": {"deny_files": [g]}}),
    ("structure.deny_dirs", lambda g: {"structure": {"deny_dirs": [g]}}),
    ("structure.allow_files", lambda g: {"structure": {"allow_files": [g]}}),
    ("structure.allow_dirs", lambda g: {"structure": {"allow_dirs": [g]}}),
    ("structure.rules.scope", lambda g: {"structure": {"rules": [{"scope": g, "max_files": 3}]}}),
] + [("structure.rules." + k, (lambda k: lambda g: {"structure": {"rules": [{"scope": "src/**", k: [g]}]}})(k))
     for k in ("allow_patterns", "allow_files", "allow_dirs", "deny_patterns", "deny_files", "deny_dirs")] + [
    ("structure.rules.siblings.match", lambda g: {"structure": {"rules": [{"scope": "src/**", "siblings": [{"match": g, "require": "{stem}.x"}]}]}}),
]
WIDE = {2: "\u00e9", 3: "\u30b5", 4: "\U0001f600"}


def long_bad_glob(k, w, variant):
    """A malformed glob whose UTF-8 byte index k is a continuation byte of a w-byte character."""
    s = k - 1 - (variant % (w - 1))          # start of the character: s < k < s + w
    pad = (variant * 7 + k * 3) % 120
    tail = "[z" if (variant + k) % 2 == 0 else "{a,b"
    g = "a" * s + WIDE[w] + "b" * pad + tail
    assert g.encode("utf-8")[k] & 0xC0 == 0x80
    return g


def long_glob_cases(quick):
    out = []
    for i, (name, mk) in enumerate(GLOB_SETTINGS):
        if quick:
            ks = sorted({60, 50 + (i * 3) % 21, 50 + (i * 3 + 1) % 21, 50 + (i * 3 + 2) % 21})
            combos = [(k, 2 + (i + k) % 3) for k in ks]
        else:
            combos = [(k, w) for k in range(50, 71) for w in (2, 3, 4)]
        for k, w in combos:
            g = long_bad_glob(k, w, i + k)
            out.append({"tag": "long-glob", "toml": render(mk(g)), "argv": [], "muts": ["%s = malformed glob of %d bytes, byte %d inside a %d-byte character"
                                                                                   % (name, len(g.encode("utf-8")), k, w)], "check_only": True})
        # controls: shorter than 60 bytes, a character boundary exactly at byte 60, long ASCII
        for g in ("a" * 30 + WIDE[3] * 3 + "[z", "a" * 57 + WIDE[3] + "b" * 20 + "[z", "a" * 150 + "[z"):
            out.append({"tag": "long-glob", "toml": render(mk(g)), "argv": [], "muts": ["%s = long malformed glob (control)" % name], "check_only": True})
    return out
