"""Generators and protocol helpers for the counter properties (C02, C03, C04)."""
import os
import re
from vlib import *  # noqa


def enc(s):
    return ",".join(str(ord(c)) for c in s) if s else "-"


def dec(s):
    return "" if s in ("", "-") else "".join(chr(int(t)) for t in s.split(","))


class Syntax:
    def __init__(self, single, multi, name="custom", exts=()):
        self.single = list(single)          # list of str
        self.multi = list(multi)            # list of (start, end, nest, linestart, kind)
        self.name, self.exts = name, list(exts)

    def wire(self):
        items = ["S=" + enc(s) for s in self.single]
        items += ["M=%s:%s:%d:%d:%d" % (enc(a), enc(b), int(n), int(ls), k) for (a, b, n, ls, k) in self.multi]
        return ";".join(items) if items else ";"

    def wire_impl(self):
        """what the implementation side is given: a configuration-expressible custom syntax goes through the
        registry constructor that `[languages.X]` tables use (marker lists in declared order)"""
        if getattr(self, "via_cfg", False) and all((not n) and (not ls) and k == 0 for (_, _, n, ls, k) in self.multi):
            return "cfg:" + self.wire()
        return self.wire()

    def coq(self):
        def cs(s):
            return "[" + ";".join(str(ord(c)) for c in s) + "]"
        kinds = ["Static", "LuaLong", "RustRaw"]
        ms = ";".join("{| ml_start := %s; ml_end := %s; ml_nest := %s; ml_linestart := %s; ml_kind := %s |}" %
                      (cs(a), cs(b), "true" if n else "false", "true" if ls else "false", kinds[k]) for (a, b, n, ls, k) in self.multi)
        return "{| single := [%s]; multi := [%s] |}" % (";".join(cs(s) for s in self.single), ms)


def parse_registry(dump_text):
    langs, cur = [], None
    for line in dump_text.splitlines():
        f = line.split(" ")
        if f[0] == "L":
            cur = Syntax([], [], name=dec(f[1]), exts=f[2].split(","))
            langs.append(cur)
        elif f[0] == "S":
            cur.single.append(dec(f[1]))
        elif f[0] == "M":
            cur.multi.append((dec(f[1]), dec(f[2]), f[3] == "1", f[4] == "1", int(f[5])))
    return langs


def gen_registry_v(langs):
    out = ["(* GENERATED on every run by tools (sgv-counter dump) from /repo's built-in LanguageRegistry. Do not edit. *)",
           "From Coq Require Import NArith List.", "From SG Require Import Counter.Lexer Counter.Sloc.",
           "Import ListNotations.", "Open Scope N_scope.", ""]
    names = []
    for i, l in enumerate(langs):
        ident = "lang_" + re.sub(r"\W", "_", l.name.lower()) + f"_{i}"
        names.append(ident)
        out.append(f"Definition {ident} : syntax := {l.coq()}.")
    out.append("Definition all_builtin : list syntax := [" + "; ".join(names) + "].")
    out.append("Definition builtin_count : nat := %d." % len(langs))
    return "\n".join(out) + "\n"


# ---------------------------------------------------------------- random material

WS = [" ", "\t", "  ", " ", "　", "\x0b", "\x0c"]
IDENT = ["x", "foo", "bar1", "r", "br", "ptr", "été", "中", "\U0001f600", "a_b", "0", "42", "+", "=", ";", "(", ")", "{", "}", "<", ">", "-", "*", "/", "[", "]", "#", "!", "=="]
QUOTES = ['"', "'", '"""', "'''", "`"]


def rand_text(rng, sy, n=None, hostile=True):
    """Arbitrary text made of identifiers, whitespace, quotes, escapes and the syntax's own markers."""
    pool = list(IDENT) + [" "] * 6
    if hostile:
        pool += QUOTES + ["\\", "\\\\", '\\"', "\\'", 'r"', 'r#"', '"#', 'r##"', '"##']
        pool += [s for s in sy.single] + [m[0] for m in sy.multi] + [m[1] for m in sy.multi]
        pool += ["--[[", "--[==[", "]]", "]==]", "/*", "*/", "//", "#", "<!--", "-->", "=begin", "=end",
                 "sloc-guard:ignore-next 2", "sloc-guard:ignore-file", "sloc-guard:ignore-start", "sloc-guard:ignore-end"]
    pool = [p for p in pool if p != ""]
    k = n if n is not None else rng.randint(0, 8)
    return "".join(rng.choice(pool) for _ in range(k))


def rand_line(rng, sy):
    r = rng.random()
    if r < 0.10:
        return rng.choice(["", " ", "\t", "  \t ", " ", "　 "])
    if r < 0.22 and sy.single:
        return rng.choice(["", " ", "\t"]) + rng.choice(sy.single) + rand_text(rng, sy)
    if r < 0.30 and sy.single:
        d = rng.choice(["sloc-guard:ignore-next %s" % rng.choice(["1", "2", "3", "0", "+2", "x", "", "5 z", "18446744073709551616"]),
                        "sloc-guard:ignore-next" + rng.choice(["1", "2"]),
                        "sloc-guard:ignore-start", "sloc-guard:ignore-end", "sloc-guard:ignore-file"])
        return rng.choice(["", " "]) + rng.choice(sy.single) + rng.choice(["", " "]) + d + rng.choice(["", " tail"])
    if r < 0.45 and sy.multi:
        m = rng.choice(sy.multi)
        a, b = m[0], m[1]
        if m[4] == 1:
            lvl = rng.randint(0, 3)
            a, b = "--[" + "=" * lvl + "[", "]" + "=" * rng.choice([lvl, lvl, 0, lvl + 1]) + "]"
        form = rng.random()
        if form < 0.35:
            return rand_text(rng, sy, rng.randint(0, 2), False) + a + rand_text(rng, sy) + b + rand_text(rng, sy, rng.randint(0, 2), False)
        if form < 0.65:
            return rng.choice(["", " ", "x = 1; "]) + a + rand_text(rng, sy)
        if form < 0.9:
            return rand_text(rng, sy) + b + rng.choice(["", " y;", " " + a])
        return a + a + rand_text(rng, sy) + b
    if r < 0.60:
        q = rng.choice(['"', "'", '"""', "'''"])
        return "s = " + q + rand_text(rng, sy) + rng.choice([q, q, q, ""]) + rng.choice(["", ";", " " + rand_text(rng, sy, 2)])
    if r < 0.68:
        lvl = rng.randint(0, 2)
        return "let s = r" + "#" * lvl + '"' + rand_text(rng, sy) + rng.choice(['"' + "#" * lvl, '"', ""]) + ";"
    return rand_text(rng, sy, rng.randint(1, 6), hostile=rng.random() < 0.5) or "x"


def rand_source(rng, sy, maxlines=9):
    n = rng.randint(0, maxlines)
    eol = rng.choice(["\n", "\n", "\n", "\r\n", "\r"])
    lines = [rand_line(rng, sy) for _ in range(n)]
    if lines and rng.random() < 0.08:
        # a first line that interpreters treat specially: its class must not depend on its line number
        lines[0] = rng.choice(["#!/usr/bin/env run", "#!/bin/sh", "#![allow(x)]", "<?xml version=1?>", "\ufeffx = 1"])
    src = ""
    for i, l in enumerate(lines):
        src += l
        if i < n - 1 or rng.random() < 0.7:
            src += eol if rng.random() < 0.9 else rng.choice(["\n", "\r\n", "\r", "\n\n"])
    # surrogates cannot occur in Rust strings
    return src


ADV_MARKERS = ["", "/", "/*", "*/", "*", "//", "#", '"', "'", '"""', "'''", "\\", "r", 'r"', "--", "--[[", "]]", "a", "aa", "ab", "ba", " ", "\t",
               "<!--", "-->", "é", "\U0001f600", "=begin", "=end", "sloc-guard:", "[", "]", "=", "x"]


def adversarial_syntax(rng):
    ns = rng.choice([0, 1, 1, 2, 3])
    nm = rng.choice([0, 1, 1, 2, 3])
    single = [rng.choice(ADV_MARKERS) for _ in range(ns)]
    multi = []
    for _ in range(nm):
        a = rng.choice(ADV_MARKERS)
        b = a if rng.random() < 0.25 else rng.choice(ADV_MARKERS)
        # custom languages from config are always Static / no nesting / not line-start; the library API
        # accepts any combination, so the others are exercised too
        if rng.random() < 0.7:
            multi.append((a, b, False, False, 0))
        else:
            multi.append((a, b, rng.random() < 0.5, rng.random() < 0.3, rng.choice([0, 0, 1, 2])))
    if rng.random() < 0.2:
        # two block pairs whose openers overlap (one a prefix of the other, or equal) with different closers:
        # which pair wins a tie is decided by declaration order
        a = rng.choice(["{-", "/*", "<!--", "(*", "%{"])
        multi = [(a, rng.choice(["-}", "*/", "-->", "*)", "%}"]), False, False, 0), (a + rng.choice(["#", "*", "", "!"]), rng.choice(["#-}", "**/", "!>", "x"]), False, False, 0)]
        if rng.random() < 0.5:
            multi.reverse()
    sy = Syntax(single, multi)
    sy.via_cfg = rng.random() < 0.6
    return sy


def rand_bytes(rng):
    r = rng.random()
    n = rng.choice([0, 1, 2, 5, 20, 60, 200])
    alphabet = [0, 9, 10, 10, 10, 13, 32, 34, 39, 42, 47, 47, 35, 92, 114, 0x80, 0xBF, 0xC2, 0xE2, 0x82, 0xAC, 0xF0, 0x9F, 0x98, 0x80, 0xFF, 0xFE, 0xED, 0xA0, 65, 66]
    if r < 0.5:
        return bytes(rng.choice(alphabet) for _ in range(n))
    return bytes(rng.randrange(256) for _ in range(n))


def physical_lines(text):
    """Independent count of physical lines as str::lines defines them."""
    if text == "":
        return 0
    n = text.count("\n")
    if not text.endswith("\n"):
        n += 1
    return n


def parse_out(line):
    """-> dict(kind=OK|IGN|PANIC|..., stats=(t,c,m,b,i), disagree=str|None, lossy=str|None)"""
    d = {"kind": "?", "stats": None, "disagree": None, "lossy": None, "raw": line}
    if " LOSSY " in line:
        line, l = line.split(" LOSSY ", 1)
        d["lossy"] = dec(l)
    if " DISAGREE " in line:
        line, dis = line.split(" DISAGREE ", 1)
        d["disagree"] = dis
    f = line.split(" ")
    d["kind"] = f[0]
    if f[0] == "OK":
        d["stats"] = tuple(int(x) for x in f[1:6])
    elif f[0] == "CLS":
        d["classes"] = f[1] if len(f) > 1 else ""
    return d


def prepare_counter(ctx):
    """Build harness + model for the counter properties, regenerate Gen_Registry.v.
    Returns (impl_exe, model_exe, langs)."""
    bins = cargo_build(["sgv-counter"])
    rc, dump = sh([bins["sgv-counter"], "dump"], check=True)
    langs = parse_registry(dump)
    write_if_changed(os.path.join(COQ, "Gen", "Gen_Registry.v"), gen_registry_v(langs))
    ok, log = coq_make(["Counter/Sloc.vo", "Gen/Gen_Registry.vo", "Extract/ExtractCounter.vo"])
    if not ok:
        raise CheckBroken("coq model build failed:\n" + log[-3000:])
    model = ocaml_build("counter_drv", ["counter_ex"])
    return bins["sgv-counter"], model, langs


def weighted_lang(rng, langs):
    """languages with more marker kinds are drawn more often (more interleavings to get wrong)"""
    w = [1 + 2 * max(0, len(l.single) - 1) + len(l.multi) for l in langs]
    return rng.choices(langs, weights=w, k=1)[0]


def directed_comment_body(rng, sy):
    """comment text built from the syntax's own markers in every order: openers, closers, the OTHER
    line-comment prefixes, quotes -- the interleavings a position-based guard can get wrong"""
    parts = []
    openers = [m[0] for m in sy.multi if m[0] and m[4] == 0] + (["--[[", "--[==["] if any(m[4] == 1 for m in sy.multi) else [])
    closers = [m[1] for m in sy.multi if m[1] and m[4] == 0]
    pool = []
    if openers:
        pool.append(rng.choice(openers))
    if sy.single:
        pool.append(rng.choice(sy.single))
        if len(sy.single) > 1:
            pool.append(rng.choice(sy.single))
    if closers and rng.random() < 0.3:
        pool.append(rng.choice(closers))
    if rng.random() < 0.4:
        pool.append(rng.choice(['"', "'", "it's", '"q"']))
    rng.shuffle(pool)
    out = rng.choice(["", " ", " see "])
    for x in pool:
        out += x + rng.choice(["", " ", " x ", "src/", " é "])
    return out
