"""Generators, protocol helpers, the small CLI universe and the spec oracles for the check-tail
properties (C09 baseline, C10 ratchet, C11 fail-fast; exit-code lemmas of C01)."""
import concurrent.futures as cf
import hashlib
import itertools
import json
import os
import re
import shutil
import subprocess
import tempfile
from vlib import *  # noqa

BASELINE_FILE = ".sloc-guard-baseline.json"


def enc(s):
    return ",".join(str(ord(c)) for c in s) if s else "-"


def dec(s):
    return "" if s in ("", "-") else "".join(chr(int(t)) for t in s.split(","))


# ------------------------------------------------------------------ wire format
# result = dict(path, kind, status, code, limit, hash); kind in c n nS sF sD sM sP<k>; status P W F G
# baseline = dict key -> ("C", lines, hash) | ("S", "f"|"d", count); None = no baseline

def w_result(r):
    return "%s:%s:%s:%d:%d:%s" % (enc(r["path"]), r["kind"], r["status"], r["code"], r["limit"], enc(r.get("hash", "")))


def w_results(rs):
    return ";".join(w_result(r) for r in rs) if rs else "_"


def w_entry(k, e):
    if e[0] == "C":
        return "%s:C:%d:%s" % (enc(k), e[1], enc(e[2]))
    return "%s:S:%s:%d" % (enc(k), e[1], e[2])


def w_bl(b):
    if b is None:
        return "N"
    return ";".join(sorted(w_entry(k, e) for k, e in b.items())) if b else "_"


def p_bl(s):
    if s == "N":
        return None
    out = {}
    if s in ("_", ""):
        return out
    for it in s.split(";"):
        f = it.split(":")
        if f[1] == "C":
            out[dec(f[0])] = ("C", int(f[2]), dec(f[3]))
        else:
            out[dec(f[0])] = ("S", f[2], int(f[3]))
    return out


def w_keys(ks):
    return ";".join(sorted(set(enc(k) for k in ks))) if ks else "_"


def p_keys(s):
    return [] if s in ("_", "") else [dec(x) for x in s.split(";")]


def norm_key(p):
    """python twin of crate::output::path::path_key for paths not below the cwd (fixes D08, D39): backslash ->
    slash, rebuilt from its components without '' and '.' (the root marker of an absolute path and '..' stay),
    the empty result spelled '.' (idempotent)"""
    u = p.replace("\\", "/")
    k = ("/" if u.startswith("/") else "") + "/".join(c for c in u.split("/") if c not in ("", "."))
    return k or "."


def view(b):
    """a baseline as a run sees it: Baseline::load re-keys every entry through path_key"""
    if b is None:
        return None
    return {norm_key(k): e for k, e in b.items()}


def stable_path(p):
    """inside the modelled domain: path_key is a fixed point after one application"""
    return norm_key(norm_key(p)) == norm_key(p)


def w_flags(fl):
    """b u rc rg wo wae ff (one char each); wae is the effective value"""
    return "".join([
        "1" if fl.get("b") else "0",
        fl.get("u") or "-",
        fl.get("rc") or "-",
        fl.get("rg") or "-",
        "1" if fl.get("wo") else "0",
        "1" if (fl.get("wae") or fl.get("wae_cfg")) else "0",
        "1" if (fl.get("ff") or fl.get("ff_cfg")) else "0"])


# ------------------------------------------------------------------ building / running

def prepare_check(ctx, cli=True):
    """Build harness + CLI + model. Returns (dict of binaries, model exe)."""
    names = ["sgv-check"] + (["sgcli"] if cli else [])
    bins = cargo_build(names)
    ok, log = coq_make(["Check/Results.vo", "Check/ExitCode.vo", "Check/BMap.vo", "Check/Ratchet.vo",
                        "Check/Baseline.vo", "Check/FailFast.vo", "Extract/ExtractCheck.vo"])
    if not ok:
        raise CheckBroken("coq model build failed:\n" + log[-3000:])
    model = ocaml_build("check_drv", ["check_ex"])
    return bins, model


def _run_lines_cwd(exe, lines, cwd, args=(), timeout=600):
    inp = "\n".join(lines) + "\n"
    try:
        p = subprocess.run([exe, *args], input=inp, stdout=subprocess.PIPE, stderr=subprocess.PIPE,
                           timeout=timeout, text=True, env=dict(ENV), cwd=cwd)
        out = p.stdout.split("\n")
        if out and out[-1] == "":
            out.pop()
        return out, p.returncode, p.stderr[-2000:]
    except subprocess.TimeoutExpired:
        return [], -9, "timeout"


def run_sharded_cwd(exe, lines, cwd, args=(), shards=16, timeout=600):
    n = len(lines)
    if n == 0:
        return [], []
    shards = max(1, min(shards, (n + 199) // 200))
    size = (n + shards - 1) // shards
    chunks = [lines[i:i + size] for i in range(0, n, size)]
    outs, errs = [], []
    with cf.ThreadPoolExecutor(max_workers=len(chunks)) as ex:
        for ch, (o, rc, err) in zip(chunks, ex.map(lambda c: _run_lines_cwd(exe, c, cwd, args, timeout), chunks)):
            if len(o) < len(ch):
                errs.append({"rc": rc, "stderr": err, "first_unanswered": ch[len(o)][:2000]})
                o = o + ["<NOANSWER>"] * (len(ch) - len(o))
            outs.extend(o)
    return outs, errs


class HashDir:
    """Directory with a few files whose SHA-256 the generator knows (cwd of sgv-check)."""
    FILES = {"h1.rs": "fn a() {}\n", "sub/h2.rs": "x\ny\n", "a.rs": ""}

    def __init__(self):
        self.base = tempfile.mkdtemp(prefix="sgv-chk-", dir=os.environ.get("SGV_TMP", "/tmp"))
        self.cwd = os.path.join(self.base, "cwd")
        self.state = os.path.join(self.base, "state")
        os.makedirs(self.cwd)
        os.makedirs(self.state)
        for rel, body in self.FILES.items():
            p = os.path.join(self.cwd, rel)
            os.makedirs(os.path.dirname(p), exist_ok=True)
            with open(p, "w") as f:
                f.write(body)

    def hash_of(self, path):
        p = os.path.join(self.cwd, path) if path else ""
        if path and "\0" not in path and os.path.isfile(p):
            return hashlib.sha256(open(p, "rb").read()).hexdigest()
        return ""

    def close(self):
        shutil.rmtree(self.base, ignore_errors=True)


# ------------------------------------------------------------------ library-level generators

PATH_POOL = ["a.rs", "./a.rs", ".\\a.rs", "src/b.rs", "src\\b.rs", "./src/b.rs", ".\\src\\b.rs", "d", "./d", ".", "./", "./.", "d/e.rs", "h1.rs",
             "./h1.rs", "././h1.rs", ".\\.\\a.rs", "sub/h2.rs", "./sub/h2.rs", "sub\\h2.rs", "", "été.rs", "a.rs/", "x y.rs", "d\\e.rs", "\U0001f600.rs", "nope/none.rs", "..", "../x.rs", ".a.rs",
             "src//b.rs", "./x/./y.rs", "x\\.\\y.rs", "x/y.rs", "/", "d/", "d/.", "sub//h2.rs", "sub/./h2.rs",
             # paths differing only in letter case are different paths (and different keys)
             "A.rs", "src/B.rs", "./src/B.rs", "SRC/b.rs", "D", "d/E.rs",
             # the replacement character is an ordinary character of a valid name ...
             "src/\ufffd.rs",
             # ... and these two are NOT valid UTF-8 (raw bytes 0xff / 0xfe, spelled with Python's surrogateescape
             # units U+DCFF / U+DCFE): both have the lossy form src/<U+FFFD>.rs, neither has a baseline key (fix D55)
             "src/\udcff.rs", "src/\udcfe.rs", "./src/\udcff.rs"]
assert all(stable_path(p) for p in PATH_POOL)


def is_utf8(p):
    """a path string without surrogateescape units, i.e. one that Path::to_str accepts"""
    return not any(0xD800 <= ord(c) <= 0xDFFF for c in p)


def key_of(p):
    """baseline key of a result path, None for a path that is not valid UTF-8 (baseline_key, fix D55)"""
    return norm_key(p) if is_utf8(p) else None
KINDS = ["n"] * 6 + ["c"] * 3 + ["nS"] + ["sF"] * 4 + ["sD"] * 3 + ["sM"] * 2 + ["sP0", "sP1", "sP2", "sP3", "sP4", "sP5", "sP6"]
STATUSES = ["F"] * 9 + ["G"] * 3 + ["W"] * 3 + ["P"] * 5


def rand_result(rng, hd, pool=PATH_POOL):
    p = rng.choice(pool)
    return {"path": p, "kind": rng.choice(KINDS), "status": rng.choice(STATUSES),
            "code": rng.choice([0, 1, 2, 9, 10, 11, 12, 300, 2 ** 31]), "limit": rng.choice([0, 1, 10, 500]),
            "hash": hd.hash_of(p)}


def rand_results(rng, hd, maxn=8):
    n = rng.choice([0, 1, 1, 2, 3, 4, 5, 6, maxn])
    pool = rng.sample(PATH_POOL, rng.randint(1, len(PATH_POOL))) if rng.random() < 0.6 else PATH_POOL
    return [rand_result(rng, hd, pool) for _ in range(n)]


def rand_entry(rng):
    if rng.random() < 0.6:
        return ("C", rng.choice([0, 5, 12, 99]), rng.choice(["", "ab12", "ff"]))
    return ("S", rng.choice(["f", "d"]), rng.choice([0, 2, 7]))


def rand_baseline(rng, results=None):
    """keys under any spelling (the harness builds the baseline with set_*, which normalise; the model
    re-keys); never two spellings of one key in one baseline (merge order is the HashMap's)"""
    b, used = {}, set()
    keys = [k for k in PATH_POOL if is_utf8(k)]           # a JSON file holds Unicode strings only
    if results and rng.random() < 0.7:
        rp = [r["path"] for r in results if is_utf8(r["path"])]
        # the lossy form of a non-UTF-8 result path is a likely key of a file written before fix D55
        lossy = ["".join(c if is_utf8(c) else "\ufffd" for c in r["path"]) for r in results if not is_utf8(r["path"])]
        keys = rp * 3 + [norm_key(x) for x in rp] + lossy * 3 + keys
    for _ in range(rng.choice([0, 1, 2, 3, 4, 6])):
        k = rng.choice(keys)
        if norm_key(k) in used:
            continue
        used.add(norm_key(k))
        b[k] = rand_entry(rng)
    return b


def lib_cases(ctx, hd, n):
    """Seeded library-level cases: list of dict(cmd, line, tag)."""
    rng = ctx.rng
    out = []
    for _ in range(n):
        r = rng.random()
        rs = rand_results(rng, hd)
        if rng.random() < 0.03:
            # many entries at once (more than 20 stale / removed / written in one call)
            m = rng.randint(25, 60)
            big = ["g/f%02d.rs" % i for i in range(m)]
            rs = [{"path": rng.choice(["", "./"]) + p, "kind": "n", "status": rng.choice("PPPWFG"), "code": rng.choice([3, 9, 12]), "limit": 10, "hash": ""} for p in big]
            bigbl = {p: rand_entry(rng) for p in big if rng.random() < 0.9}
            cmd = rng.choice(["ratchet", "tighten", "update"])
            if cmd == "ratchet":
                out.append({"cmd": "ratchet", "line": "ratchet\t%s\t%s" % (w_results(rs), w_bl(bigbl)), "rs": rs, "bl": bigbl})
            elif cmd == "tighten":
                ks = [p for p in bigbl if rng.random() < 0.7]
                out.append({"cmd": "tighten", "line": "tighten\t%s\t%s" % (w_bl(bigbl), w_keys(ks)), "bl": bigbl, "ks": ks})
            else:
                m2 = rng.choice("acsn")
                out.append({"cmd": "update", "line": "update\t%s\t%s\t%s" % (w_results(rs), m2, w_bl(bigbl)), "rs": rs, "mode": m2, "bl": bigbl})
            continue
        if r < 0.15:
            fl = "".join(rng.choice("01") for _ in range(3))
            out.append({"cmd": "exit", "line": "exit\t%s\t%s" % (w_results(rs), fl), "rs": rs, "fl": fl})
        elif r < 0.35:
            b = rand_baseline(rng, rs)
            out.append({"cmd": "apply", "line": "apply\t%s\t%s" % (w_results(rs), w_bl(b)), "rs": rs, "bl": b})
        elif r < 0.55:
            b = rand_baseline(rng, rs)
            out.append({"cmd": "ratchet", "line": "ratchet\t%s\t%s" % (w_results(rs), w_bl(b)), "rs": rs, "bl": b})
        elif r < 0.65:
            b = rand_baseline(rng, rs)
            ks = [norm_key(rng.choice(list(b) + [q for q in PATH_POOL if is_utf8(q)])) for _ in range(rng.randint(0, 4))]
            out.append({"cmd": "tighten", "line": "tighten\t%s\t%s" % (w_bl(b), w_keys(ks)), "bl": b, "ks": ks})
        else:
            m = rng.choice("acsn")
            b = rand_baseline(rng, rs) if rng.random() < 0.6 else None
            out.append({"cmd": "update", "line": "update\t%s\t%s\t%s" % (w_results(rs), m, w_bl(b)), "rs": rs, "mode": m, "bl": b})
    return out


def exit_spec(rs, wo, wae, rf):
    """C01 exit lemma as a one-liner."""
    if wo:
        return 0
    return 1 if (any(r["status"] == "F" for r in rs) or (wae and any(r["status"] == "W" for r in rs)) or rf) else 0


# ------------------------------------------------------------------ the CLI universe

# the sixth file differs from ./b.rs in letter case only (the file system of the sandbox is case-sensitive);
# states written with five characters leave it absent
UFILES = ["./a.rs", "./b.rs", "./d1/c.rs", "./d1/d.rs", "./d2/e.rs", "./B.rs"]
UDIRS = {".": ["./a.rs", "./b.rs", "./B.rs"], "./d1": ["./d1/c.rs", "./d1/d.rs"], "./d2": ["./d2/e.rs"]}


def full(state):
    return state.ljust(len(UFILES), "-")
SIZE = {"u": 3, "w": 9, "o": 12, "O": 15}   # under, warn, over, over with another size
MAX_LINES = 10


def body(path, n):
    name = re.sub(r"\W", "_", path)
    return ("let %s = 1;\n" % name) * n


def file_hash(path, n):
    return hashlib.sha256(body(path, n).encode()).hexdigest()


def config_toml(depth0=False, rg=None, ff_cfg=False, wae_cfg=False, ns=False):
    # only the configuration file is excluded (it is a real entry of the root directory); the tool's own state
    # files (.sloc-guard/, the default baseline file, a temporary file of an interrupted save) are not listed
    # here: they must not be counted by themselves (fix D53)
    t = ['version = "2"', "[scanner]", 'exclude = [".sloc-guard.toml"]', "[content]", "max_lines = %d" % MAX_LINES,
         "warn_threshold = 0.8", 'extensions = ["rs"]']
    if not ns:      # ns: no [structure] section, so no directory is counted (structure checks disabled)
        t += ["[structure]", "max_files = 1", "max_dirs = 1"]
    if depth0 and not ns:
        t.append("max_depth = 0")
    if rg:
        t += ["[baseline]", 'ratchet = "%s"' % {"w": "warn", "a": "auto", "s": "strict"}[rg]]
    if ff_cfg or wae_cfg:
        t.append("[check]")
        if ff_cfg:
            t.append("fail_fast = true")
        if wae_cfg:
            t.append("warnings_as_errors = true")
    return "\n".join(t) + "\n"


def apply_state(proj, state):
    for path, ch in zip(UFILES, full(state)):
        p = os.path.join(proj, path)
        if ch == "-":
            if os.path.exists(p):
                os.remove(p)
        else:
            os.makedirs(os.path.dirname(p), exist_ok=True)
            with open(p, "w") as f:
                f.write(body(path, SIZE[ch]))
    for d in ("d1", "d2"):
        dp = os.path.join(proj, d)
        if os.path.isdir(dp) and not os.listdir(dp):
            os.rmdir(dp)


def present_dirs(state):
    st = dict(zip(UFILES, full(state)))
    return [d for d, fs in UDIRS.items() if d == "." or any(st[f] != "-" for f in fs)]


def expected_results(state, depth0=False):
    """Independent evaluator of the tiny universe: the pre-baseline results of a full run
    (content results for present files, then structure results), as a list of dicts."""
    st = dict(zip(UFILES, full(state)))
    out = []
    for path in UFILES:
        ch = st[path]
        if ch == "-":
            continue
        n = SIZE[ch]
        status = "F" if n > MAX_LINES else ("W" if n >= 8 else "P")
        out.append({"path": path, "kind": "n", "status": status, "code": n, "limit": MAX_LINES, "hash": file_hash(path, n)})
    dirs = present_dirs(state)
    for d in dirs:
        fc = sum(1 for f in UDIRS[d] if st[f] != "-")
        dc = (len(dirs) - 1) if d == "." else 0
        if fc > 1:
            out.append({"path": d, "kind": "sF", "status": "F", "code": fc, "limit": 1, "hash": ""})
        if dc > 1:
            out.append({"path": d, "kind": "sD", "status": "F", "code": dc, "limit": 1, "hash": ""})
        if depth0 and d != ".":
            out.append({"path": d, "kind": "sM", "status": "F", "code": 1, "limit": 0, "hash": ""})
    return out


def canon(p):
    """project-relative canonical spelling: the baseline key"""
    return norm_key(p)


def rkey(r):
    return (r["path"], r["kind"], r["code"], r["limit"])


def pre(r):
    """pre-baseline version of an observed result"""
    x = dict(r)
    if x["status"] == "G":
        x["status"] = "F"
    return x


VT = {"file_count": "sF", "dir_count": "sD", "max_depth": "sM", "disallowed_file": "sP0", "disallowed_directory": "sP1",
      "denied_file": "sP2", "denied_directory": "sP3", "naming_convention": "sP4", "missing_sibling": "sP5", "group_incomplete": "sP6"}
ST = {"passed": "P", "warning": "W", "failed": "F", "grandfathered": "G"}


def parse_json_results(stdout):
    j = json.loads(stdout)
    out = []
    for x in j["results"]:
        vc = x.get("violation_category")
        if vc is None:
            kind = "n"
        elif vc.get("category") == "content":
            kind = "c"
        else:
            kind = VT.get(vc["violation_type"]["type"], "sP9")
        out.append({"path": x["path"], "kind": kind, "status": ST[x["status"]], "code": x["sloc"], "limit": x["limit"]})
    return out, j.get("summary")


def read_disk(proj):
    p = os.path.join(proj, BASELINE_FILE)
    if not os.path.exists(p):
        return None
    j = json.load(open(p))
    out = {}
    for k, e in j["files"].items():
        if e["type"] == "content":
            out[k] = ("C", e["lines"], e["hash"])
        else:
            out[k] = ("S", "f" if e["violation_type"] == "files" else "d", e["count"])
    return out


def write_disk(proj, b):
    p = os.path.join(proj, BASELINE_FILE)
    if b is None:
        if os.path.exists(p):
            os.remove(p)
        return
    files = {}
    for k, e in b.items():
        if e[0] == "C":
            files[k] = {"type": "content", "lines": e[1], "hash": e[2]}
        else:
            files[k] = {"type": "structure", "violation_type": "files" if e[1] == "f" else "dirs", "count": e[2]}
    with open(p, "w") as f:
        json.dump({"version": 2, "files": files}, f)


RM = {"w": "warn", "a": "auto", "s": "strict"}
UM = {"a": "all", "c": "content", "s": "structure", "n": "new"}


def cli_args(fl, files=None, root=None):
    a = ["check"] + ([root] if root else []) + ["--format", "json", "--color", "never", "--no-sloc-cache"]
    if fl.get("b"):
        a += ["--baseline", BASELINE_FILE]
    if fl.get("u"):
        a += ["--update-baseline", UM[fl["u"]]]
    if fl.get("rc"):
        a += ["--ratchet", RM[fl["rc"]]]
    if fl.get("wo"):
        a.append("--warn-only")
    if fl.get("wae"):
        a.append("--warnings-as-errors")
    if fl.get("ff"):
        a.append("--fail-fast")
    if files is not None:
        a += ["--files", ",".join(files)]
    return a


def parse_stale(stderr):
    """Stale paths named by the ratchet diagnostics (warn / strict), or None."""
    m = re.search(r"(?:Baseline can be tightened|outdated) - (\d+) violation\(s\) resolved[^\n]*\n\s*\S\s+([^\n]*)", stderr)
    if not m:
        return None
    return [x.strip() for x in m.group(2).split(", ") if x.strip()]


class Project:
    """One sandboxed project of the universe plus the observations of each run."""

    def __init__(self, exe, depth0=False):
        self.exe = exe
        self.sb = Sandbox(prefix="sgv-chk-")
        self.depth0 = depth0
        self.state = "-----"
        self.cfg = None
        self.spawns = 0
        self.set_cfg({})
        self.probe_cache = {}
        self.residues = []

    def set_cfg(self, fl):
        c = config_toml(self.depth0, fl.get("rg"), bool(fl.get("ff_cfg")), bool(fl.get("wae_cfg")), bool(fl.get("ns")))
        if c != self.cfg:
            self.sb.write(".sloc-guard.toml", c)
            self.cfg = c

    def edit(self, state):
        apply_state(self.sb.proj, state)
        self.state = state

    def noise(self):
        """what earlier runs of the tool leave in a project: the fallback state directory (cache, history) and the
        temporary file of a save that was killed; none of it is a project entry (fix D53). The temporary file is
        produced by really killing a `check --update-baseline` between the creation of its temporary file and the
        rename (hook SGV_CRASH_AT), so its name is whatever the implementation uses; a second one carries the
        documented name .<target>.tmp.<pid>. The baseline file itself is not touched by the killed run."""
        self.sb.write(".sloc-guard/cache.json", "{}")
        self.sb.write(".sloc-guard/history.json", "{}")
        self.sb.write("." + BASELINE_FILE + ".tmp.4242", "{")
        before = set(os.listdir(self.sb.proj))
        disk = read_disk(self.sb.proj)
        self.spawns += 1
        rc, out, err = self.sb.run(self.exe, cli_args({"u": "a"}), env={"RAYON_NUM_THREADS": "1", "SGV_CRASH_AT": "aw:after_create_temp"})
        left = sorted(set(os.listdir(self.sb.proj)) - before)
        self.residue = {"exit": rc, "left": left, "baseline_intact": read_disk(self.sb.proj) == disk}
        self.residues.append(self.residue)
        self.probe_cache = {}

    def raw(self, fl, files=None, threads=1, root=None):
        self.set_cfg(fl)
        self.spawns += 1
        rc, out, err = self.sb.run(self.exe, cli_args(fl, files, root), env={"RAYON_NUM_THREADS": str(threads)})
        return rc, out, err

    def probe(self):
        """Full run without baseline or fail-fast: the pre-baseline list R in scan order."""
        if self.state in self.probe_cache:
            return self.probe_cache[self.state]
        rc, out, err = self.raw({})
        rs, _ = parse_json_results(out)
        exp = expected_results(self.state, self.depth0)
        hmap = {r["path"]: r["hash"] for r in exp}
        for r in rs:
            r["hash"] = hmap.get(r["path"], "") if r["kind"] in ("n", "c") else ""
        ok = sorted(map(rkey, rs)) == sorted(map(rkey, exp)) and sorted((rkey(r), r["status"]) for r in rs) == sorted((rkey(r), r["status"]) for r in exp)
        res = {"R": rs, "agrees_with_evaluator": ok, "exit": rc, "expected": exp}
        self.probe_cache[self.state] = res
        return res

    def run(self, fl, files=None, threads=1, root=None):
        """One observed run. Returns the step record (without model output). [root] is a sub-path scan root
        (`check d1`): only that directory is scanned, its entries are reported as d1/..."""
        pr = self.probe()
        disk0 = read_disk(self.sb.proj)
        if root and not os.path.isdir(os.path.join(self.sb.proj, root)):
            root = None
        rc, out, err = self.raw(fl, files, threads, root)
        disk1 = read_disk(self.sb.proj)
        try:
            obs, summary = parse_json_results(out)
            parsed = True
        except Exception:
            obs, summary, parsed = [], None, False
        hmap = {r["path"]: r["hash"] for r in pr["expected"]}
        for r in obs:
            r["hash"] = hmap.get(r["path"], "") if r["kind"] in ("n", "c") else ""
        # the selection without fail-fast, in processing order
        if files is not None:
            # a file may be listed under another spelling (a.rs for ./a.rs): same file, path as given
            bypath = {canon(r["path"]): r for r in pr["R"] if r["kind"] in ("n", "c")}
            rsel = [dict(bypath[canon(f)], path=f) for f in files if canon(f) in bypath]
            for r in obs:
                if r["kind"] in ("n", "c") and not r["hash"]:
                    r["hash"] = hmap.get("./" + canon(r["path"]), "")
            dirs = []
        else:
            rsel = list(pr["R"])
            dirs = [norm_key(d) for d in present_dirs(self.state)]
            if root:
                under = lambda k: k == root or k.startswith(root + "/")
                # depth is counted from the scan root, so depth results of the full run do not carry over
                rsel = [dict(r, path=norm_key(r["path"])) for r in rsel if under(norm_key(r["path"])) and r["kind"] != "sM"]
                dirs = [d for d in dirs if under(d)]
            if fl.get("ns"):
                rsel = [r for r in rsel if r["kind"] in ("n", "c")]
                dirs = []
            for r in obs:
                if r["kind"] in ("n", "c") and not r["hash"]:
                    r["hash"] = hmap.get("./" + canon(r["path"]), "")
        return {"state": self.state, "root": root, "depth0": self.depth0, "flags": dict(fl), "files": files, "threads": threads,
                "disk0": disk0, "disk1": disk1, "exit": rc, "obs": obs, "rp": [pre(r) for r in obs], "rsel": rsel, "dirs": dirs,
                "rfull": pr["R"], "parsed": parsed, "stderr": err[-1500:], "stdout_raw": out, "probe_ok": pr["agrees_with_evaluator"],
                "stale_reported": parse_stale(err)}

    def close(self):
        self.sb.close()


def is_ff(fl):
    return bool(fl.get("ff") or fl.get("ff_cfg"))


def eff_ff(fl):
    """runner.rs: fail_fast = (--fail-fast || [check] fail_fast) && no --update-baseline (fix D56)"""
    return is_ff(fl) and not fl.get("u")


def model_dirs(rec):
    """the [dirs] argument of check_step: directories the structure block counted plus, for a run that
    scanned directories, the baseline keys whose path no longer exists (EvaluatedPaths::covers)"""
    d = set(rec["dirs"])
    if rec["files"] is None:
        d |= absent_keys(rec)
    return sorted(d)


def model_line(rec):
    d = model_dirs(rec)
    return "step\t%s\t%s\t%s\t%s" % (w_flags(rec["flags"]), w_results(rec["rp"]), w_keys(d) if d else "_", w_bl(rec["disk0"]))


def model_expect(rec):
    """What the implementation showed, in the model's output format."""
    st = "".join(r["status"] for r in rec["obs"]) if rec["obs"] else "_"
    return st, str(rec["exit"]), w_bl(rec["disk1"])


def multiset(rs):
    return sorted((rkey(r), r["status"]) for r in rs)


def ff_sub_py(R, Rp, trigger):
    """python twin of ff_subb_gen (greedy subsequence + trigger present when something dropped)"""
    i = 0
    for x in Rp:
        while i < len(R) and (rkey(R[i]), R[i]["status"]) != (rkey(x), x["status"]):
            i += 1
        if i == len(R):
            return False
        i += 1
    return len(Rp) == len(R) or any(trigger(r) for r in Rp)


# ------------------------------------------------------------------ histories

def replay_history(exe, hist, depth0=False, auto_rerun=True):
    """hist: list of ops. Returns (records, spawns). Each record has 'op_index'."""
    pj = Project(exe, depth0)
    recs = []
    between = []        # the ops since the previous run
    try:
        for i, op in enumerate(hist):
            if op["op"] != "check" and op["op"] != "update":
                between.append(op["op"])
            if op["op"] == "edit":
                pj.edit(op["state"])
                continue
            if op["op"] == "noise":
                pj.noise()
                continue
            if op["op"] == "respell":
                # the baseline file as another spelling / an older version wrote it: keys behind ./
                d = read_disk(pj.sb.proj)
                if d is not None:
                    write_disk(pj.sb.proj, {("./" + k if not k.startswith("./") else k[2:] or "."): e for k, e in d.items()})
                continue
            if op["op"] == "update":
                fl = {"b": op["we"], "u": op["mode"]}
                if op.get("ff"):
                    fl[op["ff"]] = True          # "ff" (flag) or "ff_cfg": an updating run ignores it (fix D56)
                rec = pj.run(fl, None, op.get("threads", 1))
            else:
                rec = pj.run(op["flags"], op.get("files"), op.get("threads", 1), op.get("root"))
            rec["op_index"] = i
            rec["op"] = op
            rec["between"], between = between, []
            rec["residues"] = list(pj.residues)
            recs.append(rec)
            # C10 fixpoint: rerun an auto-ratchet run once on the same state
            fl = rec["flags"]
            mode = fl.get("rc") or fl.get("rg")
            if auto_rerun and mode == "a" and fl.get("b") and not is_ff(fl) and rec["exit"] != 2:
                # (also when the same run updated the baseline: the rerun is the plain auto run)
                fl2 = {k: v for k, v in fl.items() if k != "u"}
                again = pj.run(fl2, rec["files"], rec["threads"], rec.get("root"))
                again["op_index"] = i
                again["op"] = op
                again["between"] = []
                again["residues"] = list(pj.residues)
                again["rerun_of_auto"] = True
                recs.append(again)
        return recs, pj.spawns
    finally:
        pj.close()


STATES_SMALL = ["-----", "o----", "oo---", "ou---", "uo---", "oow--", "o-o--", "o-oo-", "o-ooo", "ooooo", "wwuuu", "u-o-o", "ow-o-"]

CHECK_FLAGS_SMALL = [
    ({"b": True}, None),
    ({"b": True, "ff": True}, None),
    ({"b": True, "rc": "a"}, None),
    ({"b": True, "rc": "s"}, None),
    ({"b": True, "rc": "w"}, None),
    ({"b": True, "wae": True}, None),
    ({"b": True, "wo": True}, None),
    ({"b": True, "rc": "a"}, ["./b.rs"]),
    ({"b": True, "rc": "s"}, ["b.rs", "./a.rs"]),
    ({"b": True, "ff": True}, ["./a.rs", "./b.rs"]),
    ({"b": True, "rg": "a", "ff_cfg": True}, None),
    ({}, None),
]


def op_alphabet():
    ops = [{"op": "edit", "state": s} for s in ("oo---", "ou---", "Oo---", "o-oo-", "ooooo", "uu-u-")]
    ops += [{"op": "update", "mode": m, "we": we} for m in "acsn" for we in (False, True)]
    ops.append({"op": "update", "mode": "a", "we": True, "ff": "ff"})
    ops += [{"op": "check", "flags": fl, "files": files} for fl, files in CHECK_FLAGS_SMALL]
    ops.append({"op": "respell"})
    # runs that scan directories but do not evaluate every directory the baseline names
    ops.append({"op": "check", "flags": {"b": True, "rc": "a"}, "files": None, "root": "d1"})
    ops.append({"op": "check", "flags": {"b": True, "rc": "s", "ns": True}, "files": None})
    return ops


def exhaustive_histories(maxlen, start_states=("oo---", "o-oo-")):
    """All op sequences of length <= maxlen over the small alphabet, each from a start state."""
    alpha = op_alphabet()
    for s0 in start_states:
        for n in range(1, maxlen + 1):
            for seq in itertools.product(alpha, repeat=n):
                if all(o["op"] in ("edit", "respell", "noise") for o in seq):
                    continue
                yield [{"op": "edit", "state": s0}] + list(seq)


def rand_flags(rng):
    fl = {}
    if rng.random() < 0.85:
        fl["b"] = True
    r = rng.random()
    if r < 0.25:
        fl["rc"] = rng.choice("was")
    elif r < 0.4:
        fl["rg"] = rng.choice("was")
    elif r < 0.45:
        fl["rc"], fl["rg"] = rng.choice("was"), rng.choice("was")
    if rng.random() < 0.1:
        fl["wo"] = True
    if rng.random() < 0.15:
        fl["wae" if rng.random() < 0.6 else "wae_cfg"] = True
    if rng.random() < 0.25:
        fl["ff" if rng.random() < 0.6 else "ff_cfg"] = True
    if rng.random() < 0.08:
        fl["u"] = rng.choice("acsn")
    return fl


def rand_state(rng):
    return "".join(rng.choice("-uwoooO") if rng.random() < 0.8 else "-" for _ in UFILES)


def rand_files(rng, state):
    allf = UFILES + ["./ghost.rs"]
    k = rng.randint(1, 4)
    # either spelling of a listed file (fix D08: same baseline key)
    def spell(f):
        r = rng.random()
        if r < 0.5:
            return f
        if r < 0.75:
            return f[2:]
        if r < 0.9:
            return f[2:].replace("/", "//") if "/" in f[2:] else "./" + f
        return "./" + f[2:].replace("/", "/./")
    return [spell(rng.choice(allf)) for _ in range(k)]


def rand_history(rng, maxlen=10):
    n = rng.randint(2, maxlen)
    h = [{"op": "edit", "state": rand_state(rng)}]
    if rng.random() < 0.4:
        h.append({"op": "noise"})
    for _ in range(n):
        r = rng.random()
        if r < 0.25:
            # local edit: change one file
            prev = [o for o in h if o["op"] == "edit"][-1]["state"]
            i = rng.randrange(len(UFILES))
            h.append({"op": "edit", "state": prev[:i] + rng.choice("-uwoO") + prev[i + 1:]})
        elif r < 0.47:
            o = {"op": "update", "mode": rng.choice("aacsn"), "we": rng.random() < 0.5}
            if rng.random() < 0.3:
                o["ff"], o["threads"] = rng.choice(["ff", "ff", "ff_cfg"]), rng.choice([1, 1, 4])
            h.append(o)
        elif r < 0.53:
            h.append({"op": "respell"})
        elif r < 0.58:
            h.append({"op": "noise"})        # a killed update leaves its temporary file behind: not a project change
        else:
            prev = [o for o in h if o["op"] == "edit"][-1]["state"]
            files = rand_files(rng, prev) if rng.random() < 0.3 else None
            o = {"op": "check", "flags": rand_flags(rng), "files": files, "threads": rng.choice([1, 1, 2, 8])}
            if files is None and rng.random() < 0.15:
                o["root"] = rng.choice(["d1", "d2"])
            if rng.random() < 0.08:
                o["flags"]["ns"] = True
            h.append(o)
    return h


def grown_history(rng):
    """Recorded files whose size changes after the baseline was written (mostly growing) while new, unrecorded violators
    appear; then fail-fast runs with the baseline under one worker, the changed recorded files in front: a recorded path is
    known debt whatever its current size, so it must neither stop the run nor be reported failed. Also the round trip
    at the limit of the root directory with the residue of a killed update lying around."""
    n = 5
    while True:
        st0 = [rng.choice("ooOuw-") for _ in range(n)]
        over = [i for i, c in enumerate(st0) if c in "oO"]
        rest = [i for i, c in enumerate(st0) if c not in "oO"]
        if over and rest:
            break
    h = [{"op": "edit", "state": "".join(st0)}]
    if rng.random() < 0.3:
        h.append({"op": "noise"})
    h.append({"op": "update", "mode": rng.choice("aac"), "we": False})
    st1 = list(st0)
    changed = [i for i in over if rng.random() < 0.8] or [over[0]]
    for i in changed:
        st1[i] = "O" if st0[i] == "o" else "o"
    new = rng.sample(rest, rng.randint(1, min(2, len(rest))))
    for i in new:
        st1[i] = rng.choice("oO")
    h.append({"op": "edit", "state": "".join(st1)})
    if rng.random() < 0.3:
        h.append({"op": "noise"})
    present = [i for i, c in enumerate(st1) if c != "-"]
    for _ in range(rng.randint(1, 3)):
        fl = {"b": True, rng.choice(["ff", "ff", "ff_cfg"]): True}
        if rng.random() < 0.25:
            fl[rng.choice(["rc", "rg"])] = rng.choice("was")
        if rng.random() < 0.15:
            fl["wae"] = True
        mode = rng.random()
        if mode < 0.55:
            # the changed recorded files first, then the new ones, then the rest
            front = list(changed)
            rng.shuffle(front)
            tail = [i for i in present if i not in front]
            rng.shuffle(tail)
            files = [UFILES[i] if rng.random() < 0.7 else UFILES[i][2:] for i in front + tail]
        elif mode < 0.8:
            order = list(present)
            rng.shuffle(order)
            files = [UFILES[i] for i in order]
        else:
            files = None
        h.append({"op": "check", "flags": fl, "files": files, "threads": rng.choice([1, 1, 1, 4])})
    if rng.random() < 0.5:
        h.append({"op": "check", "flags": {"b": True}, "files": None})
    return h


def ratchet_update_history(rng):
    """A ratchet mode (flag or [baseline] ratchet, every mode) together with --update-baseline new / content / structure in ONE
    run with --baseline, after recorded content AND structure violations were resolved: only auto removes the resolved entries;
    under warn / strict `new` keeps every existing entry and content / structure keep the entries of the other kind."""
    st0 = list(rng.choice(["oo-oo", "oooo-", "oo-ooo", "ooooo", "o-ooo", "oOoo-o"]).ljust(len(UFILES), "-"))
    h = [{"op": "edit", "state": "".join(st0)}, {"op": "update", "mode": "a", "we": False}]
    st1 = list(st0)
    over = [i for i, c in enumerate(st1) if c in "oO"]
    for i in rng.sample(over, rng.randint(1, max(1, len(over) - 1))):
        st1[i] = rng.choice("u-w")          # resolved (and a directory count may drop with a deleted file)
    if rng.random() < 0.4:
        free = [i for i, c in enumerate(st1) if c == "-"]
        if free:
            st1[rng.choice(free)] = "o"     # a new violation for `new` to add
    h.append({"op": "edit", "state": "".join(st1)})
    for _ in range(rng.randint(1, 2)):
        fl = {"b": True, "u": rng.choice("nncs")}
        m = rng.choice("wwssa")
        r = rng.random()
        if r < 0.45:
            fl["rc"] = m
        elif r < 0.8:
            fl["rg"] = m
        else:
            fl["rc"], fl["rg"] = m, rng.choice("was")
        h.append({"op": "check", "flags": fl, "files": None, "threads": rng.choice([1, 4])})
    h.append({"op": "check", "flags": {"b": True, "rc": "s"}, "files": None})
    return h


def run_histories(exe, hists, depth0_of=lambda i: False, workers=16):
    """Replay many histories in parallel. Returns list of (hist, records) and spawn count."""
    out = [None] * len(hists)
    spawns = 0

    def one(i):
        recs, sp = replay_history(exe, hists[i], depth0_of(i))
        return i, recs, sp
    with cf.ThreadPoolExecutor(max_workers=workers) as ex:
        for i, recs, sp in ex.map(one, range(len(hists))):
            out[i] = (hists[i], recs)
            spawns += sp
    return out, spawns


# ------------------------------------------------------------------ spec oracles on observations
# each returns a list of (property, class_or_None, text); class None = not attributable to a known class

BASELINABLE = ("n", "c", "sF", "sD")


def failing_keys(rs):
    return {norm_key(r["path"]) for r in rs if r["status"] == "F" and is_utf8(r["path"])}


def absent_keys(rec):
    """baseline keys whose path does not exist in the project state (a directory scan sees that)"""
    st = dict(zip(UFILES, full(rec["state"])))
    present = {canon(f) for f in UFILES if st[f] != "-"} | {canon(d) for d in present_dirs(rec["state"])} | {"."}
    return {k for k in (view(rec["disk0"]) or {}) if canon(k) not in present and k != "."}


def evaluated_keys(rec):
    """Paths the run evaluated: every file whose lines were counted (a content result; a structure result at the path
    of a file says nothing about its line count, fix D85), the directories counted by the structure block,
    and - for a directory scan - paths that no longer exist under the scanned root."""
    ev = {norm_key(r["path"]) for r in rec["rp"] if r["kind"] in ("n", "c")} | set(rec["dirs"])
    if rec["files"] is None:
        ev |= absent_keys(rec)
    return ev


def oracle_correspondence(rec, fixed):
    """Structural facts the replay relies on (not property oracles)."""
    out = []
    if not rec["probe_ok"]:
        out.append("full run disagrees with the universe evaluator in state %s" % rec["state"])
    if rec["exit"] == 2:
        return out
    fl = rec["flags"]
    if not rec["parsed"]:
        out.append("no JSON output")
        return out
    if not eff_ff(fl):
        if rec["files"] is not None and rec["threads"] == 1:
            if [(rkey(r), r["status"]) for r in rec["rp"]] != [(rkey(r), r["status"]) for r in rec["rsel"]]:
                out.append("--files run: results differ from the listed files in order")
        elif multiset(rec["rp"]) != multiset(rec["rsel"]):
            out.append("run without fail-fast: result multiset differs from the full evaluation")
    return out


def ff_trigger(rec, fixed):
    d0 = view(rec["disk0"]) if rec["flags"].get("b") else None
    if d0 is not None:
        return lambda r: r["status"] == "F" and norm_key(r["path"]) not in d0
    return lambda r: r["status"] == "F"


def unchanged_since(prev, rec):
    """the run [rec] follows the run [prev] on the unchanged project: nothing happened in between but the tool's own
    residue appearing (the state directory, the temporary file of a killed save), which is not a project change"""
    return prev["state"] == rec["state"] and all(o == "noise" for o in rec.get("between", ["?"]))


def oracles_c09(rec, prev, fixed):
    out = []
    fl = rec["flags"]
    if rec["exit"] == 2 or not rec["parsed"]:
        return out
    d0, d1 = view(rec["disk0"]), view(rec["disk1"])   # baselines compared as the tool loads them
    loaded = d0 if fl.get("b") else None
    # (b) unrecorded violations always fail the run
    if not fl.get("wo"):
        unrec = [r for r in rec["rsel"] if r["status"] == "F" and (loaded is None or norm_key(r["path"]) not in loaded)]
        if unrec:
            bad = None
            if rec["exit"] != 1:
                bad = "exit %d with unrecorded violation %s" % (rec["exit"], unrec[0]["path"])
            for o in rec["obs"]:
                if o["status"] != "F" and any(rkey(o) == rkey(u) for u in unrec):
                    bad = "unrecorded violation %s reported as %s" % (o["path"], o["status"])
            if bad:
                klass = None
                if is_ff(fl) and loaded and any(r["status"] == "F" and norm_key(r["path"]) in loaded for r in rec["rp"]):
                    klass = "K09_failfast"
                out.append(("C09", klass, "unrecorded_always_fails: " + bad))
    # a recorded violation listed under another spelling must still be grandfathered (D8, fixed: no class)
    if loaded:
        ck = {canon(k) for k in (rec["disk0"] or {})}
        for o in rec["obs"]:
            if o["status"] == "F" and o["kind"] in BASELINABLE and canon(o["path"]) in ck:
                out.append(("C09", None, "key_spelling: %s is recorded under another spelling of %s but reported failed" % (o["path"], canon(o["path"]))))
                break
    # update runs
    u = fl.get("u")
    if u:
        d0m = d0 or {}
        d1m = d1 or {}
        if u == "n":
            # an auto ratchet in the same run may remove entries that were evaluated and are resolved
            auto = loaded is not None and (fl.get("rc") or fl.get("rg")) == "a"
            ev, still = evaluated_keys(rec), failing_keys(rec["rp"])
            lost = [k for k, e in d0m.items() if d1m.get(k) != e and not (auto and k in ev and k not in still and k not in d1m)]
            if lost:
                out.append(("C09", None if loaded is not None else "K09_update_unloaded", "new_never_drops: entry %s lost or rewritten by --update-baseline new" % lost[0]))
        if u in ("c", "s"):
            other = "S" if u == "c" else "C"
            a = {k: e for k, e in d0m.items() if e[0] == other}
            b = {k: e for k, e in d1m.items() if e[0] == other}
            # an entry of the other kind may only disappear because its key now holds an entry of the updated kind
            a2 = {k: e for k, e in a.items() if not (k in d1m and d1m[k][0] != other)}
            # ... or because an auto ratchet of the same run found it evaluated and resolved
            if loaded is not None and (fl.get("rc") or fl.get("rg")) == "a":
                ev, still = evaluated_keys(rec), failing_keys(rec["rp"])
                a2 = {k: e for k, e in a2.items() if not (k in ev and k not in still and k not in d1m)}
            if a2 != b:
                klass = "K09_modes_drop_other_kind" if loaded is not None else "K09_update_unloaded"
                out.append(("C09", klass, "modes_preserve_other_kind: %s entries %s -> %s under --update-baseline %s" % (other, sorted(a), sorted(b), UM[u])))
        # idempotence: same mode, same state, previous op was that update
        if prev is not None and prev["flags"].get("u") == u and unchanged_since(prev, rec) \
                and prev["files"] is None and rec["files"] is None and prev.get("root") == rec.get("root") \
                and not (fl.get("rc") or fl.get("rg")) and prev["exit"] != 2 and not fl.get("ns") and not prev["flags"].get("ns"):
            if (d1 or {}) != (d0 or {}):
                klass = None
                d9_now = loaded is not None and any(o["status"] == "G" for o in rec["obs"])
                d9_prev = prev["flags"].get("b") and any(o["status"] == "G" for o in prev["obs"])
                if (d9_now or d9_prev) and u != "n":
                    klass = "K09_update_with_loaded"
                elif loaded is None and u != "a" and prev["flags"].get("b"):
                    klass = "K09_update_unloaded"
                diff = sorted(k for k in set(d0 or {}) | set(d1 or {}) if (d0 or {}).get(k) != (d1 or {}).get(k))
                out.append(("C09", klass, "update_idempotent: second --update-baseline %s (%s) changed the baseline: %s" % (
                    UM[u], "loaded" if loaded is not None else "not loaded",
                    "; ".join("%s: %s -> %s" % (k, (d0 or {}).get(k), (d1 or {}).get(k)) for k in diff[:3]))))
        # every entry an update writes carries the figures of the current violation (lines + hash, kind + count)
        if u in ("a", "c", "s"):
            cur = {}
            for r in rec["rsel"]:
                if r["status"] == "F" and r["kind"] in BASELINABLE:
                    ent = ("C", r["code"], r.get("hash", "")) if r["kind"] in ("n", "c") else ("S", "f" if r["kind"] == "sF" else "d", r["code"])
                    if (u == "a") or (u == "c" and ent[0] == "C") or (u == "s" and ent[0] == "S"):
                        cur[norm_key(r["path"])] = ent      # the last result for a key wins
            if not eff_ff(fl):           # (an updating run is never cut short)
                for k, ent in cur.items():
                    if d1m.get(k) != ent:
                        out.append(("C09", None, "update_records_current: entry %s is %s after --update-baseline %s, the current violation is %s" % (k, d1m.get(k), UM[u], ent)))
                        break
        # history invariant, local form
        newkeys = set(d1m) - (set(d0m) if (u == "n" or True) else set())
        fk = failing_keys(rec["rsel"])
        stray = [k for k in newkeys if k not in fk]
        if stray:
            out.append(("C09", None, "history_inv: key %s written without a failing result" % stray[0]))
    # (a) round trip
    if prev is not None and prev["flags"].get("u") == "a" and unchanged_since(prev, rec) \
            and fl.get("b") and not u and not is_ff(fl) and rec["files"] is None and prev["files"] is None and prev["exit"] != 2 \
            and not rec.get("root") and not fl.get("ns") and not prev["flags"].get("ns") and not prev.get("root"):
        notg = [o for o in rec["obs"] if o["kind"] in BASELINABLE and o["status"] == "F"]
        klass = None
        if prev["flags"].get("b") and prev["disk0"] is not None and any(o["status"] == "G" for o in prev["obs"]):
            klass = "K09_update_with_loaded"
        if notg:
            out.append(("C09", klass, "roundtrip: %s still failed right after --update-baseline all" % notg[0]["path"]))
        else:
            other = any(o["status"] == "F" for o in rec["obs"])
            warn = any(o["status"] == "W" for o in rec["obs"])
            wae = fl.get("wae") or fl.get("wae_cfg")
            strict_stale = (fl.get("rc") or fl.get("rg")) == "s" and rec["stale_reported"]
            want = 0 if fl.get("wo") else (1 if (other or (wae and warn) or strict_stale) else 0)
            if rec["exit"] != want:
                out.append(("C09", klass, "roundtrip: exit %d, expected %d" % (rec["exit"], want)))
    return out


def oracles_c10(rec, prev, fixed):
    out = []
    fl = rec["flags"]
    if rec["exit"] == 2 or not rec["parsed"] or fl.get("u"):
        return out
    d0, d1 = view(rec["disk0"]), view(rec["disk1"])   # baselines compared as the tool loads them
    # subset / no add without update
    if d1 is not None and d0 is None:
        out.append(("C10", None, "no_add_without_update: baseline file created by a run without --update-baseline"))
    for k, e in (d1 or {}).items():
        if (d0 or {}).get(k) != e:
            out.append(("C10", None, "subset: entry %s added or rewritten without --update-baseline" % k))
            break
    mode = (fl.get("rc") or fl.get("rg")) if fl.get("b") else None
    ev = evaluated_keys(rec)
    still = failing_keys(rec["rp"])
    removed = sorted(set(d0 or {}) - set(d1 or {}))
    if removed and mode != "a":
        out.append(("C10", None, "subset: entries %s removed although ratchet mode is %s" % (removed, mode)))
    reported = removed if mode == "a" else (rec["stale_reported"] or [])
    for k in reported:
        if k not in ev:
            partial = rec["files"] is not None or is_ff(fl)
            out.append(("C10", "K10_partial_run" if partial else None,
                        "stale_only_if_evaluated_and_resolved: %s %s but it was not evaluated in this run" % (k, "removed" if mode == "a" else "reported stale")))
            break
        if k in still:
            out.append(("C10", None, "stale_only_if_evaluated_and_resolved: %s still violates" % k))
            break
    if mode == "s" and not fl.get("wo"):
        fail = any(o["status"] == "F" for o in rec["obs"])
        warn = any(o["status"] == "W" for o in rec["obs"])
        wae = fl.get("wae") or fl.get("wae_cfg")
        genuine = [k for k in (d0 or {}) if k in ev and k not in still]
        if rec["exit"] == 1 and not fail and not (wae and warn) and not genuine:
            partial = rec["files"] is not None or is_ff(fl)
            out.append(("C10", "K10_partial_run" if partial else None, "strict_fails_only_for_resolved: exit 1 with no evaluated, resolved entry (reported: %s)" % rec["stale_reported"]))
    if mode != "s" and not fl.get("wo") and rec["exit"] == 1:
        wae = fl.get("wae") or fl.get("wae_cfg")
        if not any(o["status"] == "F" for o in rec["obs"]) and not (wae and any(o["status"] == "W" for o in rec["obs"])):
            out.append(("C10", None, "strict_fails_only_for_resolved: exit 1 with no failed result although the effective ratchet mode is %s (flag %s over config %s)" % (
                RM.get(mode, mode), RM.get(fl.get("rc"), "-"), RM.get(fl.get("rg"), "-"))))
    if mode in ("w", "s") and fl.get("b") and not is_ff(fl):
        # warn / strict name exactly the evaluated, resolved entries (the flag wins over the configuration)
        want = sorted(k for k in (d0 or {}) if k in ev and k not in still)
        if want and sorted(rec["stale_reported"] or []) != want:
            out.append(("C10", None, "mode_precedence: effective ratchet mode %s (flag %s over config %s): stale paths reported %s, evaluated and resolved %s" % (
                RM[mode], RM.get(fl.get("rc"), "-"), RM.get(fl.get("rg"), "-"), rec["stale_reported"], want)))
    if rec.get("rerun_of_auto"):
        if (d1 or {}) != (d0 or {}):
            out.append(("C10", None, "auto_fixpoint: rerun after an auto tightening removed %s" % removed))
    return out


def classify_history(recs, fixed):
    """All oracle findings of one replayed history: list of (property, class, text, record index)."""
    out = []
    prev = None
    for i, rec in enumerate(recs):
        for f in oracles_c09(rec, prev, fixed):
            out.append(f + (i,))
        for f in oracles_c10(rec, prev, fixed):
            out.append(f + (i,))
        if not rec.get("rerun_of_auto"):
            prev = rec
    return out


def slim(rec):
    """A record without bulky fields, for replay files and samples."""
    return {k: rec[k] for k in ("state", "depth0", "flags", "files", "root", "threads", "disk0", "disk1", "exit", "obs", "stale_reported") if k in rec}
