"""Generators, wire formats and independent oracles for the configuration properties (C16, C18).

Values (toml::Value / Config.Toml.tv) are tagged tuples:
  ("s", str) ("i", int) ("f", bits) ("b", bool) ("d", text) ("a", [v..]) ("t", {key: v})
Wire syntax (shared by harness sgv-config and ocaml/config_drv.ml):
  s <enc> | i <dec> | f <bits> | b 0|1 | d <enc> | a <n> v.. | t <n> <enc key> v ..   (keys ascending)
"""
import hashlib
import os
import posixpath
import struct
from vlib import *  # noqa

MAXD_DEFAULT = 10
RESET = "$reset"


def enc(s):
    return ",".join(str(ord(c)) for c in s) if s else "-"


def dec(s):
    return "" if s in ("", "-") else "".join(chr(int(t)) for t in s.split(","))


def enc_opt(s):
    return "!" if s is None else enc(s)


def dec_opt(s):
    return None if s == "!" else dec(s)


def skey(k):
    """BTreeMap<String,_> order = UTF-8 byte order = scalar-value order."""
    return [ord(c) for c in k]


def wire(v):
    t, x = v
    if t == "s":
        return "s " + enc(x)
    if t == "i":
        return "i %d" % x
    if t == "f":
        return "f %d" % x
    if t == "b":
        return "b %d" % (1 if x else 0)
    if t == "d":
        return "d " + enc(x)
    if t == "a":
        return " ".join(["a %d" % len(x)] + [wire(e) for e in x])
    if t == "t":
        return " ".join(["t %d" % len(x)] + [enc(k) + " " + wire(x[k]) for k in sorted(x, key=skey)])
    raise ValueError(t)


def unwire(s):
    toks = [t for t in s.split(" ") if t]
    pos = [0]

    def nxt():
        pos[0] += 1
        return toks[pos[0] - 1]

    def go():
        t = nxt()
        if t == "s":
            return ("s", dec(nxt()))
        if t == "i":
            return ("i", int(nxt()))
        if t == "f":
            return ("f", int(nxt()))
        if t == "b":
            return ("b", nxt() == "1")
        if t == "d":
            return ("d", dec(nxt()))
        if t == "a":
            n = int(nxt())
            return ("a", [go() for _ in range(n)])
        if t == "t":
            n = int(nxt())
            d = {}
            for _ in range(n):
                k = dec(nxt())
                d[k] = go()
            return ("t", d)
        raise ValueError("token " + t)
    v = go()
    if pos[0] != len(toks):
        raise ValueError("trailing tokens")
    return v


# ---------------------------------------------------------------- TOML text

def _tstr(s):
    out = ['"']
    for c in s:
        o = ord(c)
        if c == '"':
            out.append('\\"')
        elif c == "\\":
            out.append("\\\\")
        elif o < 0x20 or o == 0x7F:
            out.append("\\u%04X" % o)
        else:
            out.append(c)
    out.append('"')
    return "".join(out)


def fbits(x):
    return struct.unpack("<Q", struct.pack("<d", x))[0]


def _tfloat(bits):
    x = struct.unpack("<d", struct.pack("<Q", bits))[0]
    if x != x:
        return "nan"
    if x in (float("inf"), float("-inf")):
        return "inf" if x > 0 else "-inf"
    r = repr(x)
    return r


def inline(v, rng=None):
    t, x = v
    if t == "s":
        return _tstr(x)
    if t == "i":
        return str(x)
    if t == "f":
        return _tfloat(x)
    if t == "b":
        return "true" if x else "false"
    if t == "d":
        return x
    if t == "a":
        return "[" + ", ".join(inline(e, rng) for e in x) + "]"
    if t == "t":
        ks = list(x)
        if rng:
            rng.shuffle(ks)
        return "{ " + ", ".join(_tstr(k) + " = " + inline(x[k], rng) for k in ks) + " }" if ks else "{}"
    raise ValueError(t)


def toml_text(root, rng=None):
    """Root table as key = inline-value lines (keys in shuffled order when rng is given)."""
    assert root[0] == "t"
    ks = list(root[1])
    if rng:
        rng.shuffle(ks)
    return "".join(_tstr(k) + " = " + inline(root[1][k], rng) + "\n" for k in ks)


def sha256_hex(text):
    return hashlib.sha256(text.encode("utf-8")).hexdigest()


# ---------------------------------------------------------------- independent spec (python)

def is_reset(v):
    t, x = v
    if t == "s":
        return x == RESET
    if t == "t":
        f = x.get("pattern")
        if f is None:
            f = x.get("scope")
        return f is not None and f[0] == "s" and f[1] == RESET
    return False


def dmerge(base, child):
    """The documented merge: child scalars override, tables recurse, arrays concatenate unless
    the child array begins with a marker (which discards the inherited elements)."""
    if base[0] == "t" and child[0] == "t":
        out = dict(base[1])
        for k, cv in child[1].items():
            out[k] = dmerge(out[k], cv) if k in out else cv
        return ("t", out)
    if base[0] == "a" and child[0] == "a":
        if child[1] and is_reset(child[1][0]):
            return ("a", list(child[1][1:]))
        return ("a", list(base[1]) + list(child[1]))
    return child


def strip_markers(v):
    t, x = v
    if t == "t":
        return ("t", {k: strip_markers(e) for k, e in x.items()})
    if t == "a":
        l = x[1:] if x and is_reset(x[0]) else x
        return ("a", [strip_markers(e) for e in l])
    return v


def has_any_marker(v):
    t, x = v
    if t == "t":
        return any(has_any_marker(e) for e in x.values())
    if t == "a":
        return any(is_reset(e) or has_any_marker(e) for e in x)
    return False


def misplaced(v):
    """True when some array has a marker at a position > 0."""
    t, x = v
    if t == "t":
        return any(misplaced(e) for e in x.values())
    if t == "a":
        return any((i > 0 and is_reset(e)) or misplaced(e) for i, e in enumerate(x))
    return False


def rm_ext(v):
    if v[0] != "t":
        return v
    return ("t", {k: e for k, e in v[1].items() if k not in ("extends", "extends_sha256")})


def join_parent(b, e):
    i = b.rfind("/")
    if i < 0:
        return e
    if i == 0:
        return "/" + e
    return b[:i] + "/" + e


def is_remote(e):
    return e.startswith("http://") or e.startswith("https://")


ALIASES = [("structure", "deny_file_patterns", "deny_files")]     # KEY_ALIASES of src/config/extends.rs (serde aliases of model.rs)


def norm_alias(v):
    """Fix D67: in a file / remote member of a chain the aliased key is renamed to the canonical one before the
    merge, unless the member spells the setting both ways (then the typed parse rejects it)."""
    if v[0] != "t":
        return v
    out = dict(v[1])
    for table, alias, canonical in ALIASES:
        t = out.get(table)
        if t is not None and t[0] == "t" and alias in t[1] and canonical not in t[1]:
            d = dict(t[1])
            d[canonical] = d.pop(alias)
            out[table] = ("t", d)
    return ("t", out)


def bad_key(v):
    """Fixes D66 / D68: the inheritance key of a member that is present but not a string (extends first)."""
    if v[0] != "t":
        return None
    for k in ("extends", "extends_sha256"):
        e = v[1].get(k)
        if e is not None and e[0] != "s":
            return k
    return None


class World:
    """A reference graph: files (by path string as the resolver will spell it), presets, remotes.
    files[path] = (canon | None, ("M",) | ("S",) | ("V", value))
    remotes[url] = cache text | None ; rvalues[url] = ("S",) | ("V", value)"""

    def __init__(self):
        self.files = {}
        self.presets = {}
        self.remotes = {}
        self.rvalues = {}
        self.texts = {}          # path -> TOML text for the implementation side

    def read(self, p):
        return self.files.get(p, (None, ("M",)))

    def fetch(self, url, sha):
        """-> ("E", kind) | ("S",) | ("V", value)   (offline policy: cache only)"""
        text = self.remotes.get(url)
        if text is None:
            return ("E", 1)
        if sha is not None and sha256_hex(text) != sha:
            return ("E", 2)
        return self.rvalues[url]


def _ext_of(v):
    if v[0] != "t":
        return None
    e = v[1].get("extends")
    return e[1] if e is not None and e[0] == "s" else None


def _sha_of(v):
    if v[0] != "t":
        return None
    e = v[1].get("extends_sha256")
    return e[1] if e is not None and e[0] == "s" else None


def spec_resolve(w, path, no_extends, maxd=MAXD_DEFAULT):
    """Independent reading of C16: walk the references from the leaf, collect the chain, then
    the effective value is strip(rm_ext(fold_left dmerge base..leaf)); every file/remote member
    must carry markers in first positions only. Returns ("OK", value, preset) or ("ERR", kind, data)."""
    canon, body = w.read(path)
    if body[0] == "M":
        return ("ERR", "FileAccess", path)
    if body[0] == "S":
        return ("ERR", "Syntax", path)
    leaf = body[1]
    if no_extends or not (leaf[0] == "t" and "extends" in leaf[1]):
        if misplaced(leaf):
            return ("ERR", "Reset", None)
        return ("OK", strip_markers(leaf) if has_any_marker(leaf) else leaf, None)
    if canon is None:
        return ("ERR", "FileAccess", path)
    leaf = norm_alias(leaf)
    members = [leaf]          # leaf first
    visited = [canon]
    base_path = path
    depth = 0
    preset = None
    cur = leaf
    while True:
        bk = bad_key(cur)
        if bk is not None:
            return ("ERR", "BadKey", bk)
        e = _ext_of(cur)
        if e is None:
            break
        if e.startswith("preset:"):
            name = e[len("preset:"):]
            if name not in w.presets:
                return ("ERR", "Preset", name)
            members.append(("PRESET", w.presets[name]))
            preset = name
            break
        depth += 1
        if is_remote(e):
            if depth > maxd:
                return ("ERR", "TooDeep", (depth, list(visited)))
            if e in visited:
                return ("ERR", "Circular", visited + [e])
            visited.append(e)
            r = w.fetch(e, _sha_of(cur))
            if r[0] == "E":
                return ("ERR", "Remote", r[1])
            if r[0] == "S":
                return ("ERR", "Syntax", e)
            cur = norm_alias(r[1])
            base_path = None
        else:
            if e.startswith("/"):
                p = e
            elif base_path is not None:
                p = join_parent(base_path, e)
            else:
                return ("ERR", "Resolution", e)
            c, body = w.read(p)
            if body[0] == "M":
                return ("ERR", "FileAccess", p)
            if body[0] == "S":
                return ("ERR", "Syntax", p)
            if depth > maxd:
                return ("ERR", "TooDeep", (depth, list(visited)))
            if c is None:
                return ("ERR", "FileAccess", p)
            if c in visited:
                return ("ERR", "Circular", visited + [c])
            visited.append(c)
            cur = norm_alias(body[1])
            base_path = p
        members.append(cur)
    # members: leaf .. base ; every non-preset member must be well-formed on its own
    # (the inheritance keys themselves are dropped before the test: theorem C16_misplaced_marker_rejected
    # is about rm_ext m)
    for m in members:
        if m[0] != "PRESET" and misplaced(rm_ext(m)):
            return ("ERR", "Reset", None)
    chain = [m[1] if m[0] == "PRESET" else m for m in reversed(members)]
    acc = chain[0]
    for m in chain[1:]:
        acc = dmerge(acc, m)
    return ("OK", strip_markers(rm_ext(acc)), preset)


def marker_inside_inheritance_keys(w):
    """Some member carries a misplaced marker only inside the value of extends / extends_sha256 (a
    non-string extends, say): whether that is rejected depends on whether the member has a resolved
    base; the property does not speak about it, the oracle does not judge such a case."""
    vals = [b[1] for (_, b) in w.files.values() if b[0] == "V"] + [r[1] for r in w.rvalues.values() if r[0] == "V"]
    return any(misplaced(v) and not misplaced(rm_ext(v)) for v in vals)


def d25_class(w, path, maxd=MAXD_DEFAULT):
    """Executable classifier of the D25 class: some member other than the deepest base has an array
    that starts with a marker, carries another marker later, and whose parent chain has that key."""
    # coarse but executable: a member with a misplaced marker whose misplaced array starts with a marker
    def starts_then_more(v):
        t, x = v
        if t == "t":
            return any(starts_then_more(e) for e in x.values())
        if t == "a":
            if x and is_reset(x[0]) and any(is_reset(e) for e in x[1:]):
                return True
            return any(starts_then_more(e) for e in x)
        return False
    vals = [b[1] for (_, b) in w.files.values() if b[0] == "V"] + [r[1] for r in w.rvalues.values() if r[0] == "V"]
    return any(starts_then_more(v) and _ext_of(v) is not None for v in vals)


# ---------------------------------------------------------------- wire for resolve cases

def model_items(w):
    items = []
    for p, (c, body) in w.files.items():
        b = body[0] if body[0] in "MS" else "V " + wire(body[1])
        items.append("file;%s;%s;%s" % (enc(p), enc_opt(c), b))
    for n, v in w.presets.items():
        items.append("preset;%s;%s" % (enc(n), wire(v)))
    return items


def model_remote_items(w, pairs):
    """pairs: (url, sha) combinations that members actually use."""
    items = []
    for (u, h) in pairs:
        r = w.fetch(u, h)
        b = "E %d" % r[1] if r[0] == "E" else ("S" if r[0] == "S" else "V " + wire(r[1]))
        items.append("remote;%s;%s;%s" % (enc(u), enc_opt(h), b))
    return items


def impl_items(w):
    items = []
    for p, (c, body) in w.files.items():
        if body[0] == "M":
            b = "M"
        else:
            b = "T " + enc(w.texts[p])
        items.append("file;%s;%s;%s" % (enc(p), enc_opt(c), b))
    for u, text in w.remotes.items():
        if text is not None:
            items.append("remote;%s;%s" % (enc(u), enc(text)))
    return items


def remote_pairs(w):
    pairs = set()
    vals = [b[1] for (_, b) in w.files.values() if b[0] == "V"] + [r[1] for r in w.rvalues.values() if r[0] == "V"]
    for v in vals:
        e = _ext_of(v)
        if e is not None and is_remote(e):
            pairs.add((e, _sha_of(v)))
    return sorted(pairs, key=lambda x: (x[0], x[1] or ""))


# ---------------------------------------------------------------- generators

STRS = ["a", "b", "src/**", "*.rs", "p1", "c1", "x", "", "$reset", "$Reset", "$reset ", "reset", "été", "\U0001f600", "a\"b", "back\\slash", "tab\there"]
KEYS = ["a", "b", "c", "pattern", "scope", "rules", "exclude", "extends", "k", "é", "A", "aa", "", "z.y"]
DATES = ["1979-05-27T07:32:00Z", "2024-01-01", "07:32:00", "1979-05-27T00:32:00.999999-07:00"]
FLOATS = [0.0, 0.5, 0.85, 1.0, -1.5, 1e16, 3.14159, 1e-7]


def marker(rng, kind=None):
    kind = kind or rng.choice(["s", "p", "sc"])
    if kind == "s":
        return ("s", RESET)
    if kind == "p":
        d = {"pattern": ("s", RESET)}
        if rng.random() < 0.3:
            d["max_lines"] = ("i", 5)
        return ("t", d)
    d = {"scope": ("s", RESET)}
    if rng.random() < 0.3:
        d["max_files"] = ("i", 5)
    return ("t", d)


def near_marker(rng):
    """Things that look like a marker but are not (or are, in an unusual way)."""
    r = rng.random()
    if r < 0.2:
        return ("t", {"pattern": ("i", 5), "scope": ("s", RESET)})        # pattern present, not a string: NOT a marker
    if r < 0.4:
        return ("t", {"pattern": ("s", "x"), "scope": ("s", RESET)})      # pattern wins: NOT a marker
    if r < 0.6:
        return ("t", {"scope": ("s", RESET), "pattern": ("s", RESET)})    # marker
    if r < 0.8:
        return ("a", [("s", RESET)])                                     # nested array holding a marker
    return ("s", rng.choice(["$reset ", "$RESET", " $reset", "$rese"]))


def rand_scalar(rng):
    r = rng.random()
    if r < 0.45:
        return ("s", rng.choice(STRS))
    if r < 0.65:
        return ("i", rng.choice([0, 1, -1, 5, 600, 2**63 - 1, -2**63, 42]))
    if r < 0.78:
        return ("f", fbits(rng.choice(FLOATS)))
    if r < 0.9:
        return ("b", rng.random() < 0.5)
    return ("d", rng.choice(DATES))


def rand_value(rng, depth=0, want=None):
    r = rng.random()
    if want is None:
        want = "scalar" if (depth >= 3 or r < 0.35) else ("a" if r < 0.7 else "t")
    if want == "scalar":
        return rand_scalar(rng)
    if want == "a":
        n = rng.choice([0, 1, 1, 2, 3, 4])
        kind = rng.choice(["s", "t", "mixed"])
        out = []
        for i in range(n):
            if kind == "s":
                out.append(("s", rng.choice(STRS)))
            elif kind == "t":
                out.append(rand_value(rng, depth + 1, "t"))
            else:
                out.append(rand_value(rng, depth + 1))
        # markers: first position often, other positions sometimes
        if rng.random() < 0.35:
            out.insert(0, marker(rng))
        if out and rng.random() < 0.12:
            out.insert(rng.randint(1, len(out)), marker(rng))
        if out and rng.random() < 0.08:
            out.insert(rng.randint(0, len(out)), near_marker(rng))
        return ("a", out)
    n = rng.choice([0, 1, 2, 2, 3, 4])
    d = {}
    for _ in range(n):
        d[rng.choice(KEYS)] = rand_value(rng, depth + 1)
    return ("t", d)


def rand_pair(rng):
    """(base, child) with overlapping structure so that merging is non-trivial."""
    a = rand_value(rng, 0, rng.choice(["t", "t", "t", "a", "scalar"]))
    r = rng.random()
    if r < 0.6:
        b = mutate(rng, a)
    else:
        b = rand_value(rng, 0, rng.choice(["t", "t", "a", "scalar"]))
    return a, b


def mutate(rng, v, depth=0):
    t, x = v
    if t == "t":
        d = {}
        for k, e in x.items():
            r = rng.random()
            if r < 0.2:
                continue
            d[k] = mutate(rng, e, depth + 1) if r < 0.7 else rand_value(rng, depth + 1)
        if rng.random() < 0.5:
            d[rng.choice(KEYS)] = rand_value(rng, depth + 1)
        return ("t", d)
    if t == "a":
        r = rng.random()
        if r < 0.3:
            return ("a", [marker(rng)] + [rand_value(rng, depth + 1) for _ in range(rng.randint(0, 2))])
        if r < 0.4:
            return ("a", [marker(rng), marker(rng)] + [rand_scalar(rng) for _ in range(rng.randint(0, 2))])
        return rand_value(rng, depth, "a")
    return rand_scalar(rng) if rng.random() < 0.8 else rand_value(rng, depth)


# ---- configuration-shaped documents (accepted by the typed parser and the semantic validation)

GLOBS = ["src/**", "**/*.gen.rs", "vendor/**", "*.tmp", "p1", "c1", "target/**", "docs/*.md"]
EXTS = ["rs", "py", "js", "go", "c"]


def str_array(rng, pool, markers=True):
    n = rng.choice([0, 1, 2, 3])
    out = [("s", rng.choice(pool)) for _ in range(n)]
    if markers:
        r = rng.random()
        if r < 0.30:
            out.insert(0, ("s", RESET))
        elif r < 0.36:
            out = [("s", RESET), ("s", RESET)] + out          # D25 shape
        elif r < 0.42 and out:
            out.insert(rng.randint(1, len(out)), ("s", RESET))  # misplaced
    return ("a", out)


def content_rule(rng):
    d = {"pattern": ("s", rng.choice(GLOBS)), "max_lines": ("i", rng.choice([1, 50, 300, 1000]))}
    if rng.random() < 0.3:
        d["reason"] = ("s", rng.choice(["legacy", "generated", "tests"]))
    if rng.random() < 0.2:
        d["warn_threshold"] = ("f", fbits(rng.choice([0.5, 0.8, 0.95])))
    if rng.random() < 0.15:
        d["skip_comments"] = ("b", rng.random() < 0.5)
    return ("t", d)


def structure_rule(rng):
    d = {"scope": ("s", rng.choice(["src/**", "tests/**", "src", "docs"]))}
    if rng.random() < 0.7:
        d["max_files"] = ("i", rng.choice([1, 10, 50]))
    if rng.random() < 0.4:
        d["max_dirs"] = ("i", rng.choice([1, 5, 20]))
    if rng.random() < 0.2:
        d["reason"] = ("s", "big")
    return ("t", d)


def rule_array(rng, mk, mfield, markers=True):
    n = rng.choice([0, 1, 1, 2, 3])
    out = [mk(rng) for _ in range(n)]
    if markers:
        r = rng.random()
        m = ("t", {mfield: ("s", RESET)})
        if r < 0.28:
            out.insert(0, m)
        elif r < 0.33:
            out = [m, m] + out
        elif r < 0.38 and out:
            out.insert(rng.randint(1, len(out)), m)
    return ("a", out)


def config_doc(rng, markers=True, rich=1.0):
    """A document of the sloc-guard configuration schema (no extends keys)."""
    d = {}
    p = 0.5 * rich
    if rng.random() < 0.3:
        d["version"] = ("s", "2")
    if rng.random() < p:
        s = {}
        if rng.random() < 0.5:
            s["gitignore"] = ("b", rng.random() < 0.5)
        if rng.random() < 0.7:
            s["exclude"] = str_array(rng, GLOBS, markers)
        d["scanner"] = ("t", s)
    if rng.random() < p + 0.3:
        c = {}
        if rng.random() < 0.6:
            c["max_lines"] = ("i", rng.choice([100, 250, 600, 999]))
        if rng.random() < 0.4:
            c["extensions"] = str_array(rng, EXTS, markers)
        if rng.random() < 0.3:
            c["warn_threshold"] = ("f", fbits(rng.choice([0.5, 0.8, 0.85, 1.0])))
        if rng.random() < 0.3:
            c["skip_comments"] = ("b", rng.random() < 0.5)
        if rng.random() < 0.2:
            c["skip_blank"] = ("b", rng.random() < 0.5)
        if rng.random() < 0.5:
            c["exclude"] = str_array(rng, GLOBS, markers)
        if rng.random() < 0.5:
            c["rules"] = rule_array(rng, content_rule, "pattern", markers)
        d["content"] = ("t", c)
    if rng.random() < p:
        s = {}
        if rng.random() < 0.5:
            s["max_files"] = ("i", rng.choice([5, 20, 100]))
        if rng.random() < 0.3:
            s["max_dirs"] = ("i", rng.choice([5, 10]))
        if rng.random() < 0.2:
            s["max_depth"] = ("i", rng.choice([3, 8]))
        if rng.random() < 0.5:
            # the canonical key or its serde alias (fix D67: both must fold into one setting across members)
            s[rng.choice(["deny_files", "deny_files", "deny_file_patterns"])] = str_array(rng, ["*.bak", "*.tmp", ".DS_Store"], markers)
        if rng.random() < 0.5:
            s["rules"] = rule_array(rng, structure_rule, "scope", markers)
        d["structure"] = ("t", s)
    if rng.random() < 0.25 * rich:
        c = {}
        if rng.random() < 0.6:
            c["warnings_as_errors"] = ("b", rng.random() < 0.5)
        if rng.random() < 0.6:
            c["fail_fast"] = ("b", rng.random() < 0.5)
        d["check"] = ("t", c)
    if rng.random() < 0.2 * rich:
        d["stats"] = ("t", {"report": ("t", {"top_count": ("i", rng.choice([5, 10, 25]))})})
    return ("t", d)


VERSIONS_BAD = [("s", "1"), ("s", "1"), ("s", "1"), ("s", "3"), ("s", ""), ("s", "2.0"), ("s", " 2"), ("s", "v2"), ("i", 2), ("i", 1), ("f", fbits(2.0)), ("b", True)]


def versioned(rng, docgen):
    """Wrap a document generator for ONE reference graph: `version` is an ordinary top-level scalar, so a member's
    own value must not matter unless it survives the fold (child scalars override; the flattened file carries the
    folded value only). Call 0 is the leaf (every graph kind generates its leaf first). In the `mix` mode every member
    gets a missing / supported / unsupported / ill-typed version independently, the leaf mostly a supported one, so
    that chains with a stale base under a current leaf, a current base under a stale leaf, and a bad value in the
    middle all occur at every chain position."""
    mode = rng.choice(["plain", "plain", "mix", "mix", "leaf-fixes"])
    n = [0]

    def gen(g):
        v = docgen(g)
        k = n[0]
        n[0] += 1
        if v[0] != "t" or mode == "plain":
            return v
        r = g.random()
        if mode == "leaf-fixes":
            # every base is stale or silent, the leaf declares the supported version
            if k == 0:
                v[1]["version"] = ("s", "2")
            elif r < 0.6:
                v[1]["version"] = g.choice(VERSIONS_BAD)
            else:
                v[1].pop("version", None)
            return v
        if k == 0:
            pick = ("s", "2") if r < 0.6 else (None if r < 0.8 else g.choice(VERSIONS_BAD))
        else:
            pick = None if r < 0.4 else (("s", "2") if r < 0.6 else g.choice(VERSIONS_BAD))
        if pick is None:
            v[1].pop("version", None)
        else:
            v[1]["version"] = pick
        return v
    gen.mode = mode
    return gen


def version_profile(w):
    """Tag of the version placement in a world (for the measured input distribution)."""
    vals = [b[1] for (_, b) in w.files.values() if b[0] == "V"] + [r[1] for r in w.rvalues.values() if r[0] == "V"]
    vs = [v[1].get("version") for v in vals if v[0] == "t"]
    decl = [x for x in vs if x is not None]
    if len(vs) < 2 or not decl:
        return None
    if all(x == ("s", "2") for x in decl):
        return "versions:all-supported"
    return "versions:some-member-unsupported"


def d25_pair():
    base = ("t", {"content": ("t", {"exclude": ("a", [("s", "p1")])})})
    child = ("t", {"content": ("t", {"exclude": ("a", [("s", RESET), ("s", RESET), ("s", "c1")])})})
    return base, child


# ---- reference graphs for the in-memory resolver (library level)

DIRS = ["/w", "/w/sub", "/w/sub/deep", "/other"]
URLS = ["https://example.invalid/r1.toml", "http://example.invalid/r2.toml", "https://example.invalid/sub/r3.toml"]
PRESET_NAMES = ["rust-strict", "node-strict", "python-strict", "go-strict", "monorepo-base"]


def relref(rng, frm, to):
    """A reference string from file `frm` to file `to` (both absolute, normalised)."""
    r = rng.random()
    if r < 0.25:
        return to
    rel = posixpath.relpath(to, posixpath.dirname(frm))
    if r < 0.5 and not rel.startswith("."):
        return "./" + rel
    if r < 0.6:
        # detour through the parent directory
        d = posixpath.basename(posixpath.dirname(frm))
        if d:
            return "../" + d + "/" + rel
    return rel


def add_file(w, rng, path_str, canon, value, shape_text=True):
    """Register path_str -> (canon, value) with its TOML text."""
    if value == "S":
        w.files[path_str] = (canon, ("S",))
        w.texts[path_str] = "= this is not toml [\n"
    elif value == "M":
        w.files[path_str] = (None, ("M",))
    else:
        w.files[path_str] = (canon, ("V", value))
        w.texts[path_str] = toml_text(value, rng)


def gen_world(rng, presets, docgen, kind=None):
    """Returns (world, leaf path string, tag). The world maps every path spelling that the walk from
    the leaf produces; python's join_parent is the same text operation as the model's."""
    kind = kind or rng.choice(["chain", "chain", "chain", "graph", "graph", "preset", "remote", "odd", "case"])
    docgen = versioned(rng, docgen)
    w = World()
    w.presets = dict(presets)
    nodes = {}     # canonical path -> value (with extends set)
    tag = kind
    if kind == "chain":
        n = rng.choice([1, 2, 2, 3, 3, 4, 5, 8, 10, 11, 12, 13])
        tag = "chain-%d" % n
        names = ["%s/f%d.toml" % (rng.choice(DIRS), i) for i in range(n)]     # names[0] = leaf
        for i, p in enumerate(names):
            v = docgen(rng)
            if i + 1 < n:
                v[1]["extends"] = ("s", relref(rng, p, names[i + 1]))
            elif rng.random() < 0.25:
                v[1]["extends"] = ("s", "preset:" + rng.choice(PRESET_NAMES + ["nope"]))
                tag += "+preset"
            nodes[p] = v
        leaf = names[0]
    elif kind == "case":
        # an ACYCLIC chain whose members' paths differ only in letter case (file and directory names):
        # a case-sensitive file system keeps them apart
        pool = ["/w/shared/Base.toml", "/w/shared/base.toml", "/w/shared/BASE.toml", "/w/Shared/base.toml",
                "/w/SHARED/Base.toml", "/w/leaf.toml", "/w/Leaf.toml", "/W/leaf.toml"]
        n = rng.randint(2, 6)
        names = rng.sample(pool, n)
        tag = "case-%d" % n
        for i, p in enumerate(names):
            v = docgen(rng)
            if i + 1 < n:
                v[1]["extends"] = ("s", relref(rng, p, names[i + 1]))
            elif rng.random() < 0.3:
                v[1]["extends"] = ("s", relref(rng, p, names[0]))     # a genuine cycle for contrast
                tag += "+cycle"
            nodes[p] = v
        leaf = names[0]
    elif kind == "graph":
        n = rng.randint(1, 5)
        names = ["%s/g%d.toml" % (rng.choice(DIRS), i) for i in range(n)]
        for p in names:
            v = docgen(rng)
            r = rng.random()
            if r < 0.78:
                v[1]["extends"] = ("s", relref(rng, p, rng.choice(names)))     # self-loops included
            elif r < 0.86:
                v[1]["extends"] = ("s", relref(rng, p, "/w/missing.toml"))
            nodes[p] = v
        leaf = names[0]
    elif kind == "preset":
        p = "/w/leaf.toml"
        v = docgen(rng)
        v[1]["extends"] = ("s", "preset:" + rng.choice(PRESET_NAMES + PRESET_NAMES + ["unknown", ""]))
        nodes[p] = v
        leaf = p
    elif kind == "remote":
        p = "/w/leaf.toml"
        v = docgen(rng)
        url = rng.choice(URLS)
        v[1]["extends"] = ("s", url)
        rv = docgen(rng)
        r = rng.random()
        if r < 0.15:
            rv[1]["extends"] = ("s", url)                              # remote cycle
        elif r < 0.3:
            rv[1]["extends"] = ("s", "rel.toml")                       # relative from remote: unresolvable
        elif r < 0.45:
            rv[1]["extends"] = ("s", "/w/base.toml")
            nodes["/w/base.toml"] = docgen(rng)
        elif r < 0.55:
            rv[1]["extends"] = ("s", "preset:go-strict")
        elif r < 0.65:
            u2 = rng.choice([u for u in URLS if u != url])
            rv2 = docgen(rng)
            rv[1]["extends"] = ("s", u2)
            w.remotes[u2] = toml_text(rv2, rng)
            w.rvalues[u2] = ("V", rv2)
        r2 = rng.random()
        if r2 < 0.12:
            w.remotes[url] = None                                       # cache miss
        elif r2 < 0.2:
            w.remotes[url] = "= not toml"
            w.rvalues[url] = ("S",)
        else:
            w.remotes[url] = toml_text(rv, rng)
            w.rvalues[url] = ("V", rv)
        r3 = rng.random()
        if w.remotes[url] is not None and r3 < 0.35:
            v[1]["extends_sha256"] = ("s", sha256_hex(w.remotes[url]))
        elif r3 < 0.5:
            v[1]["extends_sha256"] = ("s", "0" * 64)
        elif r3 < 0.6:
            v[1]["extends_sha256"] = rng.choice([("i", 12345), ("b", True), ("a", [])])     # D66: a pin that is not a string
            tag = "remote-nonstring-pin"
        nodes[p] = v
        leaf = p
    else:  # odd: non-string extends, extends on a leaf with no-extends flag, syntax errors, symlink aliases
        p = "/w/leaf.toml"
        v = docgen(rng)
        r = rng.random()
        if r < 0.15:
            v[1]["extends"] = rng.choice([("i", 5), ("b", True), ("a", [("s", "/w/b.toml")]), ("t", {})])
            tag = "odd-nonstring-extends"
        elif r < 0.3:
            # a malformed inheritance key in the leaf (the pin) or in the base (either key)
            v[1]["extends"] = ("s", "b.toml")
            b = docgen(rng)
            bad = rng.choice([("i", 12345), ("b", False), ("a", [("s", "0" * 64)]), ("f", fbits(1.5))])
            where = rng.choice(["leaf-pin", "base-extends", "base-pin"])
            if where == "leaf-pin":
                v[1]["extends_sha256"] = bad
            elif where == "base-extends":
                b[1]["extends"] = bad
            else:
                b[1]["extends_sha256"] = bad
            nodes["/w/b.toml"] = b
            tag = "odd-nonstring-" + where
        elif r < 0.6:
            v[1]["extends"] = ("s", "b.toml")
            nodes["/w/b.toml"] = "S"
            tag = "odd-syntax-base"
        else:
            v[1]["extends"] = ("s", "alias.toml")
            b = docgen(rng)
            b[1]["extends"] = ("s", "/w/leaf.toml") if rng.random() < 0.5 else ("s", "real.toml")
            nodes["/w/real.toml"] = b
            tag = "odd-alias-cycle"
        nodes[p] = v
        leaf = p
    # aliases (symlink-like): alias path -> canonical target
    alias = {"/w/alias.toml": "/w/real.toml"} if "/w/real.toml" in nodes else {}

    def canon_of(pstr):
        c = posixpath.normpath(pstr)
        c = alias.get(c, c)
        return c

    # walk from the leaf and register every spelling met (plus one step beyond errors)
    spell = leaf if rng.random() < 0.8 else posixpath.relpath(leaf, "/w") if leaf.startswith("/w/") else leaf
    rel_leaf = not spell.startswith("/")
    cur = spell
    seen = set()
    for _ in range(20):
        if cur in seen:
            break
        seen.add(cur)
        absolute = cur if cur.startswith("/") else posixpath.join("/w", cur)
        c = canon_of(absolute)
        node = nodes.get(c)
        if node is None:
            add_file(w, rng, cur, None, "M")
            break
        add_file(w, rng, cur, c, node)
        if node == "S":
            break
        e = _ext_of(node)
        if e is None or e.startswith("preset:") or is_remote(e):
            break
        cur = e if e.startswith("/") else join_parent(cur, e)
    # files reachable from remotes (absolute references)
    for u, r in w.rvalues.items():
        if r[0] == "V":
            e = _ext_of(r[1])
            if e and e.startswith("/") and e not in w.files:
                c = canon_of(e)
                if c in nodes:
                    add_file(w, rng, e, c, nodes[c])
                else:
                    add_file(w, rng, e, None, "M")
    return w, spell, tag


def resolve_lines(w, leaf, no_ext):
    m = "resolve\t%d\t%s\t%s" % (1 if no_ext else 0, enc(leaf), "\t".join(model_items(w) + model_remote_items(w, remote_pairs(w))))
    i = "resolve\t%d\t%s\t%s" % (1 if no_ext else 0, enc(leaf), "\t".join(impl_items(w)))
    return m, i


def norm_res(line):
    """Canonicalise a resolve answer: Syntax errors carry no path on the implementation side."""
    f = line.split(" ")
    if f[:2] == ["ERR", "Syntax"]:
        return "ERR Syntax"
    if f[:2] == ["ERR", "FileAccess"] and len(f) == 3:
        # Path::parent works on components: interior `.` components vanish from the spelling
        p = dec(f[2])
        parts = p.split("/")
        parts = [parts[0]] + [x for x in parts[1:] if x != "."]
        return "ERR FileAccess " + enc("/".join(parts))
    return line


def spec_line(r):
    if r[0] == "OK":
        return "OK %s %s" % (enc_opt(r[2]), wire(r[1]))
    kind, data = r[1], r[2]
    if kind == "Circular":
        return "ERR Circular " + ";".join(enc(x) for x in data)
    if kind == "TooDeep":
        return "ERR TooDeep %d %s" % (data[0], ";".join(enc(x) for x in data[1]) if data[1] else "!")
    if kind == "Reset":
        return "ERR Reset"
    if kind == "Syntax":
        return "ERR Syntax"
    if kind in ("FileAccess", "Preset", "Resolution", "BadKey"):
        return "ERR %s %s" % (kind, enc(data))
    if kind == "Remote":
        return "ERR Remote %d" % data
    return "ERR " + kind


def coarse(line):
    """What the spec oracle compares: full line for OK / Circular / TooDeep, the kind otherwise."""
    f = line.split(" ")
    if f[0] == "OK" or f[:2] in (["ERR", "Circular"], ["ERR", "TooDeep"]):
        return line
    return " ".join(f[:2])


# ---------------------------------------------------------------- the remote cache of a sandbox, layout-independent
# WHERE the implementation keeps the entry of a URL is its own business (flat, fanned out, ...): the checks
# never compute a path. An entry is planted by one run of the real fetch path (harness command `prime`: mock client,
# refresh policy) and located by scanning the state directory for `*.toml`; the cache after a run is what the scan finds.

def cache_entries(project_root):
    """Every `*.toml` entry (a file, or a directory of that name) below the state directory of a project root."""
    out = []

    def walk(d):
        try:
            names = sorted(os.listdir(d))
        except OSError:
            return
        for n in names:
            p = os.path.join(d, n)
            if n.endswith(".toml") and not n.startswith("."):
                out.append(p)
            elif os.path.isdir(p) and not os.path.islink(p):
                walk(p)
    walk(os.path.join(project_root, ".sloc-guard"))
    walk(os.path.join(project_root, ".git", "sloc-guard"))
    return out


def prime_cache(env, project_root, url, body):
    """Fill the cache entry of `url` below `project_root` with `body` through the real fetch path; -> its path."""
    outs, rc, err = run_lines(env["impl"], ["prime\t%s\t%s\t%s" % (enc(os.path.realpath(project_root)), enc(url), enc(body))], args=["run"])
    if not outs or not outs[0].startswith("OK "):
        raise CheckBroken("cannot prime the remote cache through the real fetch path: %r %s" % (outs, err[-300:]))
    p = dec(outs[0].split(" ", 1)[1])
    if p not in [os.path.realpath(x) for x in cache_entries(project_root)]:
        raise CheckBroken("primed entry %s is not among the scanned entries" % p)
    return p


# ---------------------------------------------------------------- builds

def parse_dump(text):
    maxd, presets = None, {}
    for l in text.splitlines():
        f = l.split("\t")
        if f[0] == "MAX":
            maxd = int(f[1])
        elif f[0] == "PRESET":
            presets[dec(f[1])] = unwire(f[2])
    return maxd, presets


def tv_code(v):
    """Same numeric code as Config.Toml.tv_code."""
    t, x = v
    if t == "s":
        return [1, len(x)] + [ord(c) for c in x]
    if t == "i":
        return [2, 0, 0] if x == 0 else ([2, 1, x] if x > 0 else [2, 2, -x])
    if t == "f":
        return [3, x]
    if t == "b":
        return [4, 1 if x else 0]
    if t == "d":
        return [5, len(x)] + [ord(c) for c in x]
    if t == "a":
        out = [6, len(x)]
        for e in x:
            out += tv_code(e)
        return out
    out = [7, len(x)]
    for k in sorted(x, key=skey):
        out += [len(k)] + [ord(c) for c in k] + tv_code(x[k])
    return out


def coq_str(s):
    return "[" + ";".join(str(ord(c)) for c in s) + "]"


def coq_val(v):
    t, x = v
    if t == "s":
        return "TStr " + coq_str(x)
    if t == "i":
        return "TInt (%d)%%Z" % x
    if t == "f":
        return "TFloat %d" % x
    if t == "b":
        return "TBool " + ("true" if x else "false")
    if t == "d":
        return "TDate " + coq_str(x)
    if t == "a":
        return "TArr [" + "; ".join("(" + coq_val(e) + ")" for e in x) + "]"
    return "TTab [" + "; ".join("(%s, %s)" % (coq_str(k), coq_val(x[k])) for k in sorted(x, key=skey)) + "]"


def gen_config_v(maxd, presets):
    out = ["(* GENERATED on every run by tools/gen_config.py (sgv-config dump) from the built crate:",
           "   MAX_EXTENDS_DEPTH and the built-in presets as values. Do not edit. *)",
           "From Coq Require Import NArith ZArith List.", "From SG Require Import Config.Toml.",
           "Import ListNotations.", "Open Scope N_scope.", "",
           "Definition gen_max_extends_depth : N := %d." % maxd, ""]
    names = []
    for i, (n, v) in enumerate(presets.items()):
        ident = "preset_%d" % i
        names.append("(%s, %s)" % (coq_str(n), ident))
        out.append("Definition %s : tv := %s." % (ident, coq_val(v)))
    out.append("Definition gen_presets : list (str * tv) := [" + "; ".join(names) + "].")
    return "\n".join(out) + "\n"


def prepare_config(ctx, need_cli=False):
    """Build harness + model; regenerate Gen_Config.v. Returns dict(impl, model, cli, maxd, presets)."""
    bins = cargo_build(["sgv-config"] + (["sgcli"] if need_cli else []))
    rc, dump = sh([bins["sgv-config"], "dump"], check=True)
    maxd, presets = parse_dump(dump)
    write_if_changed(os.path.join(COQ, "Gen", "Gen_Config.v"), gen_config_v(maxd, presets))
    ok, log = coq_make(["Config/Toml.vo", "Config/Merge.vo", "Config/Extends.vo", "Config/Remote.vo",
                        "Gen/Gen_Config.vo", "Extract/ExtractConfig.vo"])
    if not ok:
        raise CheckBroken("coq model build failed:\n" + log[-3000:])
    model = ocaml_build("config_drv", ["config_ex"])
    # run-private copies of the freshly built binaries: other checks may relink them in the shared
    # target directory while this run is spawning processes
    import atexit
    import shutil
    import tempfile
    priv = tempfile.mkdtemp(prefix="sgv-config-bin-")
    atexit.register(shutil.rmtree, priv, ignore_errors=True)
    for k in list(bins):
        dst = os.path.join(priv, k)
        shutil.copy2(bins[k], dst)
        bins[k] = dst
    return {"impl": bins["sgv-config"], "model": model, "cli": bins.get("sgcli"), "maxd": maxd, "presets": presets}
