#!/usr/bin/env python3
"""Apply each harmless change under /verif/benign (refactorings, wording, a new language, help text, ...) to /repo
through seedtest.py and run the checks of the touched subsystem: every check must still exit 0.
Development tool (false-alarm measurement), not a registered check. usage: benignall.py [NN ...]"""
import json, os, re, subprocess, sys
MAP = {"01": ["C02", "C03", "C04"], "02": ["C05", "C01"], "03": ["C06", "C07"], "04": ["C09", "C10", "C11"],
       "05": ["C13", "C14", "C12"], "06": ["C15"], "07": ["C16", "C17", "C18"], "08": ["C19"], "09": ["C20"],
       "10": ["C09", "C10", "C01"], "11": ["C02", "C03", "C04", "C12", "C20", "C01"], "12": ["C17", "C01"],
       "13": ["C01", "C11", "C06", "C07", "C09"], "14": ["C15", "C20"]}
MAP2 = {"01": ["C01", "C05", "C06", "C07", "C08", "C09", "C10", "C11", "C19", "C20"], "02": ["C12", "C13", "C14", "C15"],
        "03": ["C01", "C02", "C03", "C04", "C05", "C12", "C20"], "04": ["C13", "C14", "C15", "C20"], "05": ["C14", "C15"],
        "06": ["C01", "C09", "C11", "C20"], "07": ["C01", "C09", "C10", "C11", "C19", "C20"], "08": ["C20"], "09": ["C05", "C06", "C07"],
        "10": ["C13", "C16", "C18"], "11": ["C06", "C07", "C09", "C12", "C13", "C14", "C15"],
        "12": ["C08", "C09", "C10", "C11", "C13", "C14", "C20"]}
os.chdir("/verif")
base = "benign"
args = sys.argv[1:]
if args and args[0] == "--round2":
    base, MAP, args = "benign2", MAP2, args[1:]
want = args or sorted(MAP)
res_path = base + "/RESULTS.json"
for nn in want:
    p = subprocess.run(["python3", "tools/seedtest.py", f"{base}/{nn}.diff"] + MAP[nn], capture_output=True, text=True)
    r, cur = {}, None
    for line in (p.stdout + p.stderr).splitlines():
        m = re.match(r"== (C\d\d): exit (\d+)", line)
        if m:
            cur = m.group(1); r[cur] = {"exit": int(m.group(2)), "lines": []}
        elif cur and (line.startswith("VIOLATION") or "BROKEN" in line):
            r[cur]["lines"].append(line[:160])
        elif line.startswith("REFUSING") or line.startswith("error:"):
            r.setdefault("_problems", []).append(line[:200])
    print(nn, json.dumps({k: (v["exit"] if isinstance(v, dict) else v) for k, v in r.items()}), flush=True)
    results = json.load(open(res_path)) if os.path.exists(res_path) else {}
    results[nn] = r
    json.dump(results, open(res_path, "w"), indent=1, sort_keys=True)
print("ALLDONE")
