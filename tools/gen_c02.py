"""Program grammar with classes known by construction (C02): pieces -> lines + truth + feature tags."""
import re
from gen_counter import *  # noqa

WORDS = ["int", "x", "y1", "foo", "bar", "return", "for", "r", "var", "let", "fn", "print", "0", "42", "=", "+", ";", "(", ")", "{", "}", ",",
         ".", ":", "<", ">", "!", "&", "|", "%", "^", "~", "?", "@", "été", "中", "\U0001f600", "a_b", "r2", "err"]
WS_IN = [" ", " ", " ", "\t", "  "]
INDENT = ["", "", "  ", "\t", "    ", " ", "\u00a0", "\u3000 ", "\x0b", "\u2003"]
HOSTILE = ['"', "'", '"""', "'''", "\\", '\\"', "`", "r\"", "r#\"", "\"#", "/*", "*/", "//", "#", "--", "--[[", "--[==[", "]]", "]==]", "<!--", "-->",
           "=begin", "=end", "///", "/*/", "*/*", "sloc-guard:ignore-next 2", "sloc-guard:ignore-file", "sloc-guard:ignore-start", "sloc-guard:ignore-end",
           "it's", "don't", "\"quoted\"", "'c'", "src/*.rs", "**/x", "http://a.b/c", "é", "\U0001f600", " ", " ", "x", "1"]


def markers_of(sy):
    ms = [s for s in sy.single if s]
    for (a, b, n, ls, k) in sy.multi:
        if k == 0:
            ms += [a, b]
        elif k == 1:
            ms += ["--[", "]]", "]="]
    return [m for m in ms if m]


def family(sy):
    """feature summary of a syntax"""
    f = {"single": list(sy.single), "static": [], "nest": [], "lua": False, "raw": False, "linestart": [], "triple": []}
    for (a, b, n, ls, k) in sy.multi:
        if k == 1:
            f["lua"] = True
        elif k == 2:
            f["raw"] = True
        elif ls:
            f["linestart"].append((a, b))
        elif a == b and a in ('"""', "'''"):
            f["triple"].append(a)
        elif n:
            f["nest"].append((a, b))
        else:
            f["static"].append((a, b))
    return f


class Gen:
    def __init__(self, rng, sy):
        self.rng, self.sy, self.f = rng, sy, family(sy)
        self.markers = markers_of(sy)

    # -- text helpers
    def hostile_text(self, n=None, ban=()):
        rng = self.rng
        k = rng.randint(0, 7) if n is None else n
        for _ in range(50):
            t = "".join(rng.choice(HOSTILE + WORDS + [" "] * 4) for _ in range(k))
            if not any(b in t for b in ban) and "\n" not in t and "\r" not in t:
                return t
        return ""

    def tame_text(self, ban=()):
        """quote-free, backslash-free, marker-free text"""
        rng = self.rng
        for _ in range(50):
            t = " ".join(rng.choice(WORDS) for _ in range(rng.randint(0, 5)))
            if self.top_clean(t) and not any(b in t for b in ban):
                return t
        return ""

    def top_clean(self, t):
        if any(q in t for q in ('"', "'", "\\", "`")):
            return False
        if any(m in t for m in self.markers):
            return False
        if "sloc-guard:" in t:
            return False
        return True

    def string_lit(self):
        rng = self.rng
        q = rng.choice(['"', '"', "'"])
        body = ""
        for _ in range(rng.randint(0, 5)):
            r = rng.random()
            if r < 0.25:
                body += "\\" + rng.choice(['"', "'", "\\", "n", "x"])
            elif r < 0.6:
                body += rng.choice([m for m in HOSTILE if q not in m and "\\" not in m])
            else:
                body += rng.choice(WORDS)
        tags = set()
        if self.f["triple"] and ("'''" in body or '"""' in body):
            tags.add("K02_py_triple_in_string")
        return q + body + q, tags

    def raw_string_lit(self):
        """Rust raw string: no escapes; the body may hold quotes (below the hash level), backslashes and
        comment markers, all of which are plain text"""
        rng = self.rng
        lvl = rng.choice([0, 1, 1, 2])
        body = ""
        for _ in range(rng.randint(0, 5)):
            r = rng.random()
            if r < 0.3 and lvl > 0:
                body += rng.choice(['"', '" ', '"x', "'"])
            elif r < 0.65:
                body += rng.choice(["/*", "*/", "//", " /* x", "\\", "C:\\", "/**/"])
            else:
                body += rng.choice(WORDS)
        if lvl == 0:
            body = body.replace('"', "")
        body = body.replace('"' + "#" * lvl, "") if lvl else body
        if rng.random() < 0.3:
            body += "\\"          # a trailing backslash is not an escape in a raw string
        return "r" + "#" * lvl + '"' + body + '"' + "#" * lvl

    def code_line(self):
        """code-only line: words and string literals, separated by spaces; returns (text, tags)"""
        rng = self.rng
        is_rust = "rs" in getattr(self.sy, "exts", [])
        for _ in range(100):
            parts, tags, raws = [], set(), {}
            n = rng.randint(1, 5)
            for i in range(n):
                r = rng.random()
                if is_rust and r < 0.12:
                    key = "RAWLIT%d" % len(raws)
                    raws[key] = self.raw_string_lit()
                    parts.append(key)
                elif r < 0.3:
                    s, t = self.string_lit()
                    parts.append(s)
                    tags |= t
                else:
                    parts.append(rng.choice(WORDS))
            text = rng.choice(INDENT) + " ".join(parts)
            # top-level text (string bodies blanked) must be marker-free and must not start with a prefix
            top = re.sub(r'"(?:\\.|[^"\\])*"|\'(?:\\.|[^\'\\])*\'', "S", text)
            for key, lit in raws.items():
                text = text.replace(key, lit)
                top = top.replace(key, "S")
            if not self.top_clean(top.replace("S", "")):
                continue
            if '""' + '"' in text or "''" + "'" in text:
                # adjacent quotes forming a triple at top level are outside the grammar
                if not any(k in tags for k in ("K02_py_triple_in_string",)):
                    continue
            if self.f["raw"] and re.search(r'r#*"', top.replace("S", '"')) and re.search(r'r#*S', top):
                continue  # identifier ending in r glued to a string literal (would be a raw string)
            if text.strip() == "":
                continue
            return text, tags
        return "x", set()

    # -- pieces: each returns (lines, truth, tags)
    def p_blank(self):
        return [self.rng.choice(["", " ", "\t", "  \t", "\u00a0", "\u3000", " \u2003 ", "\x0b", "\u0085"])], ["B"], set()

    def p_code(self):
        t, tags = self.code_line()
        return [t], ["C"], tags

    def comment_body(self):
        for _ in range(30):
            b = directed_comment_body(self.rng, self.sy) if self.rng.random() < 0.4 else self.hostile_text()
            if "sloc-guard:ignore" in b:
                continue
            return b
        return ""

    def p_line_comment(self):
        rng = self.rng
        if not self.f["single"]:
            return self.p_blank()
        for _ in range(30):
            body = self.comment_body()
            line = rng.choice(INDENT) + rng.choice(self.f["single"]) + rng.choice(["", " "]) + body
            t = line.strip()
            if any(t.startswith(a) for (a, b, n, ls, k) in self.sy.multi if k == 0 and a):
                continue
            if self.f["lua"] and re.match(r"--\[=*\[", t):
                continue
            return [line], ["M"], set()
        return [self.f["single"][0]], ["M"], set()

    def p_code_then_comment(self):
        rng = self.rng
        if not self.f["single"]:
            return self.p_code()
        code, tags = self.code_line()
        for _ in range(30):
            pre = rng.choice(self.f["single"])
            body = self.comment_body()
            tail = pre + rng.choice(["", " "]) + body
            if any(tail.startswith(a) for (a, b, n, ls, k) in self.sy.multi if k == 0 and a):
                continue
            if self.f["lua"] and re.match(r"--\[=*\[", tail):
                continue
            return [code + rng.choice([" ", "  ", "\t"]) + tail], ["C"], tags
        return [code], ["C"], tags

    def block_lines(self, a, b, nlines):
        """static non-nesting block comment over whole lines. Lexical truth: the comment ends at the first
        occurrence of the closer that starts after the opener; the generator places it at the very end."""
        rng = self.rng
        tags = set()
        texts = [self.hostile_text(ban=(b, "sloc-guard:")) for _ in range(nlines)]
        ind = rng.choice(INDENT)
        last = texts[-1]
        if (last + b).find(b) != len(last):
            return None            # an earlier closer would be formed across the join
        if nlines == 1:
            lines = [ind + a + last + b]
        else:
            lines = [ind + a + texts[0]] + texts[1:-1] + [last + b]
        # known classes (over-approximations: a tagged program MAY be misjudged by the tool)
        if any(q in last for q in ('"', "'")):
            tags.add("K02_quote_in_block")          # D2: a quote before the closer hides it
        if nlines > 1 and (a + texts[0]).find(b) != -1:
            tags.add("K02_closer_overlaps_opener")  # D26: the closer is searched from the line start
        return lines, ["M"] * nlines, tags

    def p_block(self):
        rng = self.rng
        if not self.f["static"]:
            return self.p_line_comment()
        a, b = rng.choice(self.f["static"])
        for _ in range(30):
            r = self.block_lines(a, b, rng.choice([1, 1, 2, 3, 4]))
            if r:
                return r
        return [a + b], ["M"], set()

    def p_nested(self):
        rng = self.rng
        if not self.f["nest"]:
            return self.p_block()
        a, b = rng.choice(self.f["nest"])
        # token stream with proper nesting, tame text between markers
        depth, toks = 1, [a]
        for _ in range(rng.randint(0, 10)):
            r = rng.random()
            if r < 0.25 and depth < 5:
                toks.append(a)
                depth += 1
            elif r < 0.45 and depth > 1:
                toks.append(b)
                depth -= 1
            elif r < 0.6:
                toks.append("\n")
            else:
                toks.append(" " + self.tame_text(ban=(a[0], b[0], a[-1], b[-1])) + " ")
        toks += [b] * depth
        text = rng.choice(INDENT) + "".join(toks)
        lines = text.split("\n")
        tags = set()
        if self.f["single"] and rng.random() < 0.12:
            # a line comment after the last closer that mentions block markers: plain comment text
            pre = rng.choice(self.f["single"])
            if not any(pre.startswith(x) or x.startswith(pre) for x in (a, b)):
                lines[-1] += " " + pre + " see " + rng.choice([a, a + " x " + a, b + " " + a, a + " y"]) + " z"
                tags.add("K02_nested_opener_in_tail_comment")   # D45
        return lines, ["M"] * len(lines), tags

    def p_lua(self):
        rng = self.rng
        if not self.f["lua"]:
            return self.p_block()
        lvl = rng.randint(0, 3)
        a, b = "--[" + "=" * lvl + "[", "]" + "=" * lvl + "]"
        for _ in range(30):
            r = self.block_lines(a, b, rng.choice([1, 2, 3]))
            if r:
                return r
        return [a + b], ["M"], set()

    def p_lua_pair(self):
        """two long-bracket comments of DIFFERENT levels that both span lines, code between them; the text of the
        second mentions the closer of the first (each comment ends at the closer of its own level only)"""
        rng = self.rng
        l1, l2 = rng.sample(range(0, 4), 2)
        out_l, out_t, tags = [], [], set()
        for k, lvl in enumerate((l1, l2)):
            a, b = "--[" + "=" * lvl + "[", "]" + "=" * lvl + "]"
            other = "]" + "=" * (l2 if k == 0 else l1) + "]"
            r = None
            for _ in range(30):
                r = self.block_lines(a, b, rng.choice([2, 3]))
                if r:
                    break
            if not r:
                return self.p_lua()
            l, t, g = r
            if k == 1 and rng.random() < 0.7 and b not in (" x " + other + " y"):
                l = [l[0]] + [" x " + other + " y"] + l[1:]
                t = t + ["M"]
            out_l += l
            out_t += t
            tags |= g
            if k == 0:
                cl, ct, cg = self.p_code()
                out_l += cl
                out_t += ct
                tags |= cg
        return out_l, out_t, tags

    def p_linestart(self):
        rng = self.rng
        if not self.f["linestart"]:
            return self.p_block()
        a, b = rng.choice(self.f["linestart"])
        n = rng.randint(0, 3)
        mids = []
        tags = set()
        for _ in range(n):
            t = self.hostile_text(ban=(b, "sloc-guard:"))
            if rng.random() < 0.15:
                # the closer as a word inside the text: it closes a block only at the start of a line
                t = rng.choice(["the ", "x ", " "]) + b + rng.choice(["", " of", " y"])
                tags.add("K02_linestart_closer_midline")   # D46
            mids.append(t)
        lines = [a + rng.choice(["", " doc"])] + mids + [b]
        return lines, ["M"] * len(lines), tags

    def p_triple(self):
        rng = self.rng
        if not self.f["triple"]:
            return self.p_block()
        q = rng.choice(self.f["triple"])
        ind = rng.choice(INDENT)
        n = rng.choice([1, 1, 2, 3])
        texts = [self.hostile_text(ban=(q, q[0] * 2, "sloc-guard:")) for _ in range(n)]
        texts = [t.rstrip(q[0]).rstrip("\\") for t in texts]
        tags = set()
        if n == 1:
            lines = [ind + q + texts[0] + q]
        else:
            lines = [ind + q + texts[0]] + texts[1:-1] + [texts[-1] + q]
            tags.add("K02_py_multiline_docstring")
        return lines, ["M"] * len(lines), tags

    def simple_piece(self):
        rng = self.rng
        r = rng.random()
        if r < 0.12:
            return self.p_blank()
        if r < 0.37:
            return self.p_code()
        if r < 0.52:
            return self.p_line_comment()
        if r < 0.64:
            return self.p_code_then_comment()
        if r < 0.76:
            return self.p_block()
        if r < 0.82:
            return self.p_nested()
        if r < 0.88:
            return self.p_lua_pair() if self.f["lua"] and rng.random() < 0.35 else self.p_lua()
        if r < 0.94:
            return self.p_linestart()
        return self.p_triple()

    def directive(self, d):
        rng = self.rng
        pre = rng.choice(self.f["single"])
        return rng.choice(INDENT) + pre + rng.choice(["", " "]) + "sloc-guard:" + d

    def program(self, maxpieces=7):
        """returns (lines, truth list or 'IGN', tags)"""
        rng = self.rng
        lines, truth, tags = [], [], set()
        n = rng.randint(0, maxpieces)
        ignore_file_at = None
        for _ in range(n):
            r = rng.random()
            if r < 0.03 and self.f["single"] and self.f["nest"]:
                # an IGNORED line that changes the nesting depth by more than one step (or opens, closes and
                # opens again): the depth must be tracked through ignored lines exactly as through counted ones
                a, b = rng.choice(self.f["nest"])
                t = lambda: self.tame_text(ban=(a[0], b[0], a[-1], b[-1]))
                form = rng.random()
                if form < 0.5:
                    body_l = [a + " " + t() + " " + a + " " + t(), " " + t() + " " + b, t() + " " + b]
                else:
                    body_l = [a + " " + t() + " " + b + " " + a + " " + t(), t() + " " + b]
                k = rng.choice([1, 1, len(body_l) - 1])
                lines += [self.directive("ignore-next %d" % k)] + body_l
                truth += ["M"] + ["I"] * k + ["M"] * (len(body_l) - k)
            elif r < 0.10 and self.f["single"]:
                # ignore-next N over whole pieces
                body_l, body_t = [], []
                for _ in range(rng.randint(0, 2)):
                    l, t, g = self.simple_piece()
                    if g:   # keep known classes out of ignored regions (state leak would blur truth)
                        continue
                    body_l += l
                    body_t += t
                k = len(body_l)
                form = rng.choice(["ignore-next %d" % k, "ignore-next  %d" % k, "ignore-next %d trailing words" % k, "ignore-next +%d" % k])
                lines += [self.directive(form)] + body_l
                truth += ["M"] + ["I"] * k
            elif r < 0.13 and self.f["single"]:
                # ignore-next covering only the FIRST k lines of the following pieces: the rest keep their class,
                # so the block state must be tracked through the ignored lines (nesting included)
                body_l, body_t = [], []
                for _ in range(rng.randint(1, 2)):
                    l, t, g = rng.choice([self.p_block, self.p_nested, self.p_lua, self.p_linestart, self.p_code])()
                    if g:
                        continue
                    body_l += l
                    body_t += t
                if body_l:
                    k = rng.randint(0, len(body_l))
                    lines += [self.directive("ignore-next %d" % k)] + body_l
                    truth += ["M"] + ["I"] * k + body_t[k:]
            elif r < 0.16 and self.f["single"]:
                body_l = []
                for _ in range(rng.randint(0, 3)):
                    l, t, g = self.simple_piece()
                    if g:
                        continue
                    body_l += l
                lines += [self.directive("ignore-start")] + body_l + [self.directive("ignore-end")]
                truth += ["M"] + ["I"] * len(body_l) + ["M"]
            elif r < 0.19 and self.f["single"]:
                # directive text in code / string: no effect
                q = rng.choice(['"', "'"])
                d = rng.choice(["ignore-next 3", "ignore-file", "ignore-start"])
                lines += ["s = " + q + rng.choice(self.f["single"]) + " sloc-guard:" + d + q]
                truth += ["C"]
                l, t, g = self.p_code()
                lines += l
                truth += t
                tags |= g
            elif r < 0.215 and self.f["single"]:
                if len(lines) < 10 and ignore_file_at is None:
                    ignore_file_at = len(lines)
                lines += [self.directive("ignore-file")]
                truth += ["M"]
            elif r < 0.26 and self.f["lua"]:
                l, t, g = self.p_lua_pair()
                lines += l
                truth += t
                tags |= g
            else:
                l, t, g = self.simple_piece()
                lines += l
                truth += t
                tags |= g
        if ignore_file_at is not None:
            return lines, "IGN", tags
        return lines, truth, tags
