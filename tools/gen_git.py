"""Generators and protocol helpers for the git property (C19): scripted git histories built with the
real git in a vlib.Sandbox, tree / index readers, the wire format of ocaml/git_drv.ml and harness
sgv-git, and the git-diff oracles."""
import json
import os
import shutil
import stat
import subprocess
from vlib import *  # noqa

CFG_PLAIN = ('version = "2"\n[content]\nmax_lines = 4\nwarn_threshold = 0.5\n'
             '[structure]\nmax_files = 3\nmax_dirs = 2\nmax_depth = 3\n')

# every structure rule family: directory limits (global and per rule), deny / allow lists, directed
# sibling rules (error and warn severity) and a sibling group.  Sibling rules are evaluated on the whole
# scanned file list, so with --diff / --staged their results must be those of the full run.
CFG_SIBLINGS = CFG_PLAIN + '''deny_extensions = [".js"]
deny_files = ["Makefile"]
[[structure.rules]]
scope = "**"
max_files = 4
max_dirs = 3
siblings = [
  { match = "x.rs", require = "{stem}.md" },
  { match = "*.py", require = "{stem}.rs" },
  { match = "m.rs", require = "{stem}_test.rs", severity = "warn" },
  { group = ["{stem}.js", "{stem}.css"] },
]
[[structure.rules]]
scope = "lib/**"
max_files = 2
allow_extensions = [".rs", ".py", ".md"]
siblings = [ { match = "*.rs", require = "{stem}.md" } ]
'''

CFG_SCOPED = CFG_PLAIN + '''deny_patterns = ["*.go"]
[[structure.rules]]
scope = "src/**"
max_files = 2
max_depth = 2
relative_depth = true
deny_extensions = [".txt"]
siblings = [
  { match = "*.rs", require = "{stem}.md" },
  { group = ["{stem}.py", "{stem}.rs"], severity = "warn" },
]
[[structure.rules]]
scope = "a/**"
max_dirs = 1
allow_files = ["m.rs", "x.rs", "x.md", "w.rs"]
siblings = [ { match = "[mw].rs", require = "{stem}_test.rs" } ]
'''

CFGS = [CFG_PLAIN, CFG_SIBLINGS, CFG_SIBLINGS, CFG_SCOPED]
CFG = CFG_PLAIN
CFG_NAME = ".sloc-guard.toml"


def hx(b):
    if isinstance(b, str):
        b = b.encode()
    return b.hex() or "-"


def unhx(h):
    return b"" if h in ("-", "") else bytes.fromhex(h)


# ------------------------------------------------------------------ scripted histories

class Repo:
    """A git repository in a Sandbox, driven by a replayable script of concrete operations."""

    def __init__(self, sb, subdir=None):
        self.sb = sb
        self.root = sb.proj
        self.script = []
        self.ngit = 0
        self.subdir = subdir  # project root below the repository root (cwd of the CLI runs), or None
        self.extra_env = None  # e.g. GIT_INDEX_FILE while an alternate index is inspected
        # fixed dates: a replayed script reproduces the same commit ids
        sb.env["GIT_AUTHOR_DATE"] = sb.env["GIT_COMMITTER_DATE"] = "2024-01-01T00:00:00Z"

    # -- raw helpers
    def git(self, *args, ok_fail=False, inp=None):
        self.ngit += 1
        env = dict(self.sb.env, **self.extra_env) if self.extra_env else self.sb.env
        p = subprocess.run(["git", *args], cwd=self.root, env=env, input=inp,
                           stdout=subprocess.PIPE, stderr=subprocess.PIPE, timeout=60)
        if p.returncode != 0 and not ok_fail:
            raise CheckBroken("git %s failed: %s" % (" ".join(args), p.stderr.decode("utf-8", "replace")[:400]))
        return p.returncode, p.stdout

    def abs(self, rel):
        return os.path.join(self.root, rel)

    # -- script interpreter (every mutation of the repository goes through here)
    def do(self, op):
        self.script.append(op)
        k = op[0]
        if k == "write":
            p = self.abs(op[1])
            os.makedirs(os.path.dirname(p), exist_ok=True)
            with open(p, "w") as f:
                f.write(op[2])
            if len(op) > 3 and op[3]:
                os.chmod(p, 0o755)
        elif k == "rm":
            os.remove(self.abs(op[1]))
        elif k == "rmtree":
            shutil.rmtree(self.abs(op[1]))
        elif k == "mv":
            os.makedirs(os.path.dirname(self.abs(op[2])), exist_ok=True)
            os.rename(self.abs(op[1]), self.abs(op[2]))
        elif k == "chmod":
            os.chmod(self.abs(op[1]), 0o755 if op[2] == "x" else 0o644)
        elif k == "symlink":
            p = self.abs(op[1])
            os.makedirs(os.path.dirname(p), exist_ok=True)
            os.symlink(op[2], p)
        elif k == "mkdir":
            os.makedirs(self.abs(op[1]), exist_ok=True)
        elif k == "worktree":
            # ["worktree", <dir name>, <start point>, <new branch or None>]: a LINKED work tree next to the
            # project directory with its own HEAD and index (git worktree add); when git creates it, every
            # later operation, the CLI runs, the library calls and the git oracle happen in there
            path = os.path.join(self.sb.base, op[1])
            args = ["worktree", "add", "-q"] + (["-b", op[3]] if op[3] else ["--detach"]) + [path, op[2]]
            rc, _ = self.git(*args, ok_fail=True)
            if rc == 0:
                self.main_root = self.root
                self.root = path
            return rc
        elif k == "git":
            self.git(*op[1:])
        elif k == "git?":
            rc, _ = self.git(*op[1:], ok_fail=True)
            return rc
        else:
            raise CheckBroken("bad script op %r" % (op,))
        return 0

    def replay(self, script):
        for op in script:
            if op[0] == "git?" and op[1] == "merge":
                if self.do(op) != 0:
                    self.git("merge", "--abort", ok_fail=True)
                    self.script.append(["note", "merge aborted"])
            elif op[0] == "note":
                continue
            else:
                self.do(op)

    # -- inspection of the work tree
    def walk(self):
        files, links, dirs = [], [], []
        for d, ds, fs in os.walk(self.root):
            if ".git" in ds:
                ds.remove(".git")
            rel = os.path.relpath(d, self.root)
            rel = "" if rel == "." else rel
            for x in list(ds):
                p = os.path.join(rel, x)
                if os.path.islink(self.abs(p)):
                    links.append(p)
                    ds.remove(x)
                else:
                    dirs.append(p)
            for x in fs:
                p = os.path.join(rel, x)
                if p == CFG_NAME or p.endswith("/" + CFG_NAME) or p == ".git":     # .git is a file in a linked work tree
                    continue
                (links if os.path.islink(self.abs(p)) else files).append(p)
        return sorted(files), sorted(links), sorted(dirs)


DIRS = ["", "", "src", "src", "lib", "a", "b c", "dé", "src/core", "src/core/deep", "a/b/c/d", "lib/x"]
NAMES = ["m.rs", "x.rs", "y.rs", "z.py", "n.go", "notes.txt", "Makefile", "q r.rs", "ü.rs", "w.rs", "k.js", ".h.rs",
         "x.md", "z.rs", "m_test.rs", "k.css"]
# the partner a sibling rule of CFG_SIBLINGS / CFG_SCOPED asks for
PARTNER = {"x.rs": "x.md", "z.py": "z.rs", "m.rs": "m_test.rs", "k.js": "k.css", "w.rs": "w_test.rs", "y.rs": "y.md"}


def rand_content(rng, pool):
    if pool and rng.random() < 0.15:
        return rng.choice(pool)          # same blob id at another path / revert to an older content
    n = rng.choice([0, 1, 1, 2, 3, 3, 4, 5, 6, 9])
    tok = rng.randrange(1 << 20)
    c = "".join("fn f%d_%d() {}\n" % (tok, i) for i in range(n))
    if rng.random() < 0.2:
        c = "// c %d\n\n" % tok + c
    pool.append(c)
    return c


def free_path(rng, repo):
    d = rng.choice(DIRS)
    n = rng.choice(NAMES)
    p = os.path.join(d, n) if d else n
    # every ancestor must be a real directory or absent; the path itself must be absent
    cur = ""
    for comp in p.split("/")[:-1]:
        cur = os.path.join(cur, comp) if cur else comp
        a = repo.abs(cur)
        if os.path.islink(a) or (os.path.exists(a) and not os.path.isdir(a)):
            return None
    if os.path.lexists(repo.abs(p)):
        return None
    return p


VENDOR_DIRS = ["pkg", "vendor", "third party", "gen"]
COPY_NAMES = ["a", "b", "v1", "v2", "copy"]


def vendored_copies(rng, repo, pool, files, links, tagd):
    """A directory created wholesale that holds 2-3 byte-identical sub-trees (identical tree ids) at the
    same depth and one more at a different depth, optionally with identical blobs under different names
    and a nested sub-directory inside each copy.  It is either new, or replaces a file or a symlink."""
    k = rng.random()
    d = None
    if k < 0.25 and files:
        d = rng.choice(files)
        repo.do(["rm", d])
        tagd("vendored:replaces-file")
    elif k < 0.40 and links:
        d = rng.choice(links)
        repo.do(["rm", d])
        tagd("vendored:replaces-symlink")
    else:
        parent = rng.choice(["", "", "src", "lib", "a"])
        cand = os.path.join(parent, rng.choice(VENDOR_DIRS)) if parent else rng.choice(VENDOR_DIRS)
        cur, ok = "", True
        for comp in cand.split("/")[:-1]:
            cur = os.path.join(cur, comp) if cur else comp
            a = repo.abs(cur)
            if os.path.islink(a) or (os.path.exists(a) and not os.path.isdir(a)):
                ok = False
        if not ok or os.path.lexists(repo.abs(cand)):
            return
        d = cand
        tagd("vendored:new")
    names = rng.sample(["x.rs", "y.rs", "m.rs", "z.py", "notes.txt", "w.rs"], rng.randint(1, 3))
    contents = {n: rand_content(rng, pool) for n in names}
    if len(names) > 1 and rng.random() < 0.4:
        contents[names[1]] = contents[names[0]]            # identical blobs under different names
    nested = rng.random() < 0.4                            # each copy has a sub-directory of its own
    copies = rng.sample(COPY_NAMES, rng.randint(2, 3))
    where = [os.path.join(d, c) for c in copies]
    if rng.random() < 0.7:
        where.append(os.path.join(d, "deep", "inner"))    # the same tree again, one level further down
    if rng.random() < 0.3:
        where.append(os.path.join(d, copies[0] + "-x", "l1", "l2"))
    for w in where:
        for n in names:
            repo.do(["write", os.path.join(w, n), contents[n]])
        if nested:
            repo.do(["write", os.path.join(w, "sub", names[0]), contents[names[0]]])
    if rng.random() < 0.3:                                 # a file of its own next to the copies
        repo.do(["write", os.path.join(d, "own.rs"), rand_content(rng, pool)])


def dir_to_sibling_symlink(rng, repo, pool, files, dirs):
    """Replace a directory that holds files by a symbolic link to another directory that holds files of
    the same names (legacy -> current).  git lists the old paths as deleted and the link as added; the
    files behind the link are reachable under the old names but are not what git tracks there, and the
    target directory's own files did not change.  Returns the replaced directory or None."""
    cands = [d for d in dirs if any(os.path.dirname(f) == d for f in files)]
    if repo.subdir:
        cands = [d for d in cands if not (repo.subdir == d or repo.subdir.startswith(d + "/"))]
    if not cands:
        return None
    d = rng.choice(cands)
    inside = [f for f in files if os.path.dirname(f) == d]
    others = [e for e in dirs if e != d and not e.startswith(d + "/") and not d.startswith(e + "/")
              and not os.path.islink(repo.abs(e))]
    if others and rng.random() < 0.6:
        e = rng.choice(others)
    else:
        e = d + "-cur"
        if os.path.lexists(repo.abs(e)):
            return None
    for f in rng.sample(inside, min(len(inside), rng.randint(1, 2))):
        t = os.path.join(e, os.path.basename(f))
        if not os.path.lexists(repo.abs(t)):
            repo.do(["write", t, rand_content(rng, pool)])
    repo.do(["rmtree", d])
    repo.do(["symlink", d, os.path.relpath(repo.abs(e), os.path.dirname(repo.abs(d)))])
    return d


SIBLING_DIR_NAMES = ["core", "deep", "old", "new", "util", "x", "b c", "dé", "lib", "src", "pkg2"]


def pure_rename_in_place(rng, repo, files, dirs, tagd):
    """git mv without editing, inside one directory: a file, or a whole directory, gets a new name next to
    its old one.  Both tree entries of the parent carry the same object id (a blob resp. a tree id that
    leaves under one name and arrives under another); git diff --no-renames lists every file below the old
    name as deleted and every file below the new name as added.  Returns True when something moved."""
    if dirs and (not files or rng.random() < 0.4):
        d = rng.choice(dirs)
        if os.path.islink(repo.abs(d)):
            return False
        parent = os.path.dirname(d)
        n = rng.choice(SIBLING_DIR_NAMES)
        q = os.path.join(parent, n) if parent else n
        if os.path.lexists(repo.abs(q)):
            return False
        repo.do(["mv", d, q])
        repo.pure_renames = getattr(repo, "pure_renames", 0) + 1
        tagd("pure-rename-dir-in-place")
        return True
    if not files:
        return False
    f = rng.choice(files)
    parent = os.path.dirname(f)
    n = rng.choice(NAMES)
    q = os.path.join(parent, n) if parent else n
    if os.path.lexists(repo.abs(q)):
        return False
    repo.do(["mv", f, q])
    repo.pure_renames = getattr(repo, "pure_renames", 0) + 1
    tagd("pure-rename-file-in-place")
    return True


def mutate_worktree(rng, repo, pool, hist):
    """One random work-tree operation (adds, edits, deletions, renames, chmod, swaps, symlinks)."""
    files, links, dirs = repo.walk()
    if repo.subdir:                                  # the project root itself is never removed
        dirs = [d for d in dirs if not (repo.subdir == d or repo.subdir.startswith(d + "/"))]
    r = rng.random()

    def tagd(t):
        hist[t] = hist.get(t, 0) + 1

    if rng.random() < 0.07:
        vendored_copies(rng, repo, pool, files, links, tagd)
        return
    if (files or dirs) and rng.random() < 0.10:
        if pure_rename_in_place(rng, repo, files, dirs, tagd):
            return
    if dirs and rng.random() < 0.05:
        if dir_to_sibling_symlink(rng, repo, pool, files, dirs):
            tagd("dir->symlink-to-sibling-dir")
        return
    if files and rng.random() < 0.08:
        # give a file the sibling its rule asks for, or take a sibling away
        have = [f for f in files if os.path.basename(f) in PARTNER]
        if have:
            f = rng.choice(have)
            q = os.path.join(os.path.dirname(f), PARTNER[os.path.basename(f)])
            if not os.path.lexists(repo.abs(q)):
                repo.do(["write", q, rand_content(rng, pool)])
                tagd("sibling-add")
            elif os.path.isfile(repo.abs(q)) and not os.path.islink(repo.abs(q)):
                repo.do(["rm", q])
                tagd("sibling-delete")
            return
    if r < 0.22 or not files:
        p = free_path(rng, repo)
        if p:
            repo.do(["write", p, rand_content(rng, pool), rng.random() < 0.1])
            tagd("add")
    elif r < 0.40:
        p = rng.choice(files)
        repo.do(["write", p, rand_content(rng, pool), os.access(repo.abs(p), os.X_OK)])
        tagd("edit")
    elif r < 0.48:
        repo.do(["rm", rng.choice(files)])
        tagd("delete")
    elif r < 0.55:
        q = free_path(rng, repo)
        if q:
            repo.do(["mv", rng.choice(files), q])
            tagd("rename")
    elif r < 0.62:
        p = rng.choice(files)
        repo.do(["chmod", p, "-" if os.access(repo.abs(p), os.X_OK) else "x"])
        if rng.random() < 0.3:
            repo.do(["write", p, rand_content(rng, pool), os.access(repo.abs(p), os.X_OK)])
        tagd("chmod")
    elif r < 0.69:
        p = rng.choice(files)                       # file -> directory
        repo.do(["rm", p])
        for _ in range(rng.randint(1, 3)):
            sub = os.path.join(p, rng.choice(["sub/" if rng.random() < 0.3 else ""]) + rng.choice(NAMES))
            if not os.path.lexists(repo.abs(sub)):
                repo.do(["write", sub, rand_content(rng, pool)])
        tagd("file->dir")
    elif r < 0.76 and dirs:
        d = rng.choice(dirs)                        # directory -> file
        repo.do(["rmtree", d])
        repo.do(["write", d, rand_content(rng, pool)])
        tagd("dir->file")
    elif r < 0.80 and dirs:
        repo.do(["rmtree", rng.choice(dirs)])
        tagd("delete-dir")
    elif r < 0.84 and dirs:
        d = rng.choice(dirs)                        # replaced directory
        repo.do(["rmtree", d])
        for _ in range(rng.randint(1, 3)):
            sub = os.path.join(d, rng.choice(NAMES))
            if not os.path.lexists(repo.abs(sub)):
                repo.do(["write", sub, rand_content(rng, pool)])
        tagd("replace-dir")
    elif r < 0.89:
        p = free_path(rng, repo)
        if p:
            cands = files + dirs + ["nowhere.rs"]
            t = rng.choice(cands)
            repo.do(["symlink", p, os.path.relpath(repo.abs(t), os.path.dirname(repo.abs(p)))])
            tagd("symlink-add")
    elif r < 0.93 and links:
        l = rng.choice(links)                       # symlink -> file / retarget / delete
        k = rng.random()
        repo.do(["rm", l])
        if k < 0.45:
            repo.do(["write", l, rand_content(rng, pool)])
            tagd("symlink->file")
        elif k < 0.8:
            t = rng.choice(files)
            repo.do(["symlink", l, os.path.relpath(repo.abs(t), os.path.dirname(repo.abs(l)))])
            tagd("symlink-retarget")
        else:
            tagd("symlink-delete")
    elif r < 0.97:
        p = rng.choice(files)                       # file -> symlink
        others = [f for f in files if f != p] or ["nowhere.rs"]
        t = rng.choice(others)
        repo.do(["rm", p])
        repo.do(["symlink", p, os.path.relpath(repo.abs(t), os.path.dirname(repo.abs(p)))])
        tagd("file->symlink")
    else:
        p = free_path(rng, repo)                    # submodule entry (gitlink)
        if p:
            sha = "%040x" % rng.getrandbits(160)
            repo.do(["mkdir", p])
            repo.do(["git?", "update-index", "--add", "--cacheinfo", "160000,%s,%s" % (sha, p)])
            tagd("gitlink")


def build_history(rng, repo, hist, commits_target):
    """Random small history: commits, branches, tags, merges. Returns nothing (state is in the repo)."""
    pool = []
    repo.do(["git", "init", "-q", "-b", "main"])
    cfgdir = repo.subdir or ""
    cfg = rng.choice(CFGS)
    hist["config:" + {CFG_PLAIN: "limits-only", CFG_SIBLINGS: "siblings+lists", CFG_SCOPED: "scoped-rules"}[cfg]] = 1
    repo.do(["write", os.path.join(cfgdir, CFG_NAME), cfg])
    ncommit, nbranch, ntag = 0, 0, 0
    branches = ["main"]
    steps = 0
    if repo.subdir:
        repo.do(["write", os.path.join(repo.subdir, "m.rs"), rand_content(rng, pool)])
        repo.do(["write", os.path.join(repo.subdir, "src/x.rs"), rand_content(rng, pool)])
    for _ in range(rng.randint(2, 7)):                 # initial population
        p = free_path(rng, repo)
        if p:
            repo.do(["write", p, rand_content(rng, pool), rng.random() < 0.1])
    while ncommit < commits_target and steps < 200:
        steps += 1
        moved_before = getattr(repo, "pure_renames", 0)
        for _ in range(rng.choice([1, 1, 2, 3])):
            mutate_worktree(rng, repo, pool, hist)
        repo.do(["git", "add", "-A"])
        repo.do(["git", "commit", "-q", "--allow-empty", "-m", "c%d" % ncommit])
        ncommit += 1
        if getattr(repo, "pure_renames", 0) != moved_before:
            # remember the commit: run_script_case sends (parent, this commit) through the CLI more often
            rc, o = repo.git("rev-parse", "HEAD")
            repo.rename_commits = getattr(repo, "rename_commits", []) + [o.decode().strip()]
        r = rng.random()
        if r < 0.18:
            nbranch += 1
            b = "br%d" % nbranch if rng.random() < 0.7 else "feat/x%d" % nbranch
            repo.do(["git", "checkout", "-q", "-b", b])
            branches.append(b)
            hist["branch"] = hist.get("branch", 0) + 1
        elif r < 0.30 and len(branches) > 1:
            repo.do(["git", "checkout", "-q", rng.choice(branches)])
            hist["switch"] = hist.get("switch", 0) + 1
        elif r < 0.42:
            ntag += 1
            t = "v%d" % ntag
            if rng.random() < 0.5:
                repo.do(["git", "tag", t])
            else:
                repo.do(["git", "tag", "-a", "-m", "rel", t])
            hist["tag"] = hist.get("tag", 0) + 1
        elif r < 0.50 and len(branches) > 1:
            other = rng.choice(branches)
            op = ["git?", "merge", "-q", "--no-edit", other]
            if repo.do(op) != 0:
                repo.git("merge", "--abort", ok_fail=True)
                repo.script.append(["note", "merge aborted"])
                # leave a clean tree behind
                repo.do(["git", "reset", "-q", "--hard"])
            hist["merge"] = hist.get("merge", 0) + 1
    head_shapes(rng, repo, pool, hist, branches, ntag)


def commit_round(rng, repo, pool, hist, msg):
    for _ in range(rng.choice([1, 1, 2])):
        mutate_worktree(rng, repo, pool, hist)
    repo.do(["git", "add", "-A"])
    repo.do(["git", "commit", "-q", "--allow-empty", "-m", msg])


def head_shapes(rng, repo, pool, hist, branches, ntag):
    """Where HEAD and the index live at the end of a history: on a branch of the main work tree (most
    often), DETACHED at some commit (rebase stop, bisect, CI checkout of a commit id), or in a LINKED work
    tree (git worktree add) that has its own HEAD - on a new branch or detached - and its own index,
    usually some commits ahead of or behind the main work tree."""
    r = rng.random()
    if r < 0.13:
        cands = ["HEAD", "HEAD~1", "HEAD~2", "HEAD~1"] + branches + ["v%d" % k for k in range(1, ntag + 1)]
        if repo.do(["git?", "checkout", "-q", "--detach", rng.choice(cands)]) == 0:
            hist["detached-head"] = hist.get("detached-head", 0) + 1
            if rng.random() < 0.35:
                commit_round(rng, repo, pool, hist, "on detached HEAD")
                hist["detached-head+commit"] = hist.get("detached-head+commit", 0) + 1
    elif r < 0.27:
        start = rng.choice(["HEAD", "HEAD", "HEAD~1", "HEAD~2"] + branches)
        br = "wt1" if rng.random() < 0.65 else None
        if repo.do(["worktree", "linked", start, br]) == 0:
            hist["linked-worktree" + ("" if br else "-detached")] = hist.get("linked-worktree" + ("" if br else "-detached"), 0) + 1
            for k in range(rng.choice([0, 1, 1, 2])):
                commit_round(rng, repo, pool, hist, "linked %d" % k)
                hist["linked-worktree-commit"] = hist.get("linked-worktree-commit", 0) + 1


def index_state(rng, repo, hist):
    """Random index / work-tree state on top of HEAD (staged adds, edits, deletions, partial staging ...)."""
    pool = []
    n = rng.choice([0, 1, 2, 3, 4, 5])
    for _ in range(n):
        files, links, dirs = repo.walk()
        rc, out = repo.git("ls-files", "-z")
        tracked = [x for x in out.decode().split("\0") if x]
        tfiles = [f for f in files if f in tracked]
        r = rng.random()

        def tagd(t):
            hist["idx:" + t] = hist.get("idx:" + t, 0) + 1
        if r < 0.18:
            p = free_path(rng, repo)
            if p:
                repo.do(["write", p, rand_content(rng, pool)])
                repo.do(["git", "add", "--", p])
                tagd("staged-add")
        elif r < 0.34 and tfiles:
            p = rng.choice(tfiles)
            repo.do(["write", p, rand_content(rng, pool)])
            repo.do(["git", "add", "--", p])
            tagd("staged-edit")
        elif r < 0.44 and tfiles:
            repo.do(["git", "rm", "-q", "-f", "--", rng.choice(tfiles)])
            tagd("staged-delete")
        elif r < 0.54 and tfiles:
            t = rng.choice(tfiles)
            if "/" in t and rng.random() < 0.3:           # a whole directory leaves the index, files stay
                repo.do(["git", "rm", "-r", "-q", "-f", "--cached", "--", t.split("/")[0]])
                tagd("rm-cached-dir")
            else:
                repo.do(["git", "rm", "-q", "-f", "--cached", "--", t])
                tagd("rm-cached")
        elif r < 0.66 and tfiles:
            p = rng.choice(tfiles)
            repo.do(["write", p, rand_content(rng, pool)])
            repo.do(["git", "add", "--", p])
            repo.do(["write", p, rand_content(rng, pool)])
            tagd("partially-staged")
        elif r < 0.74 and tfiles:
            repo.do(["write", rng.choice(tfiles), rand_content(rng, pool)])
            tagd("unstaged-edit")
        elif r < 0.77:
            p = free_path(rng, repo)
            if p:
                repo.do(["write", p, rand_content(rng, pool)])
                tagd("untracked")
        elif r < 0.80:
            p = free_path(rng, repo)
            if p:
                repo.do(["write", p, rand_content(rng, pool)])
                repo.do(["git", "add", "-N", "--", p])       # intent-to-add: announced, nothing staged
                tagd("intent-to-add")
        elif r < 0.86 and tfiles:
            p = rng.choice(tfiles)
            repo.do(["git", "update-index", "--chmod=" + rng.choice(["+x", "-x"]), "--", p])
            tagd("staged-chmod")
        elif r < 0.91 and files:
            p = free_path(rng, repo)
            if p:
                t = rng.choice(files)
                repo.do(["symlink", p, os.path.relpath(repo.abs(t), os.path.dirname(repo.abs(p)))])
                repo.do(["git", "add", "--", p])
                tagd("staged-symlink")
        elif r < 0.935 and dirs:
            d = dir_to_sibling_symlink(rng, repo, pool, tfiles, dirs)
            if d:
                repo.do(["git", "add", "-A", "--", d])          # the replacement exists in the index only
                tagd("staged-dir->symlink-to-sibling-dir")
        elif r < 0.96 and tfiles:
            q = free_path(rng, repo)
            if q:
                os.makedirs(os.path.dirname(repo.abs(q)), exist_ok=True)
                repo.do(["git?", "mv", "--", rng.choice(tfiles), q])
                tagd("staged-rename")
        elif tfiles:
            p = rng.choice(tfiles)                  # staged file -> directory swap
            repo.do(["rm", p])
            repo.do(["write", os.path.join(p, "in.rs"), rand_content(rng, pool)])
            repo.do(["git", "add", "-A", "--", p])
            tagd("staged-file->dir")


# ------------------------------------------------------------------ reading git objects

def read_tree(repo, rev):
    """Nested tree of a commit: list of (name bytes, kind, payload) with kind in b x t l c;
    payload = oid hex (bytes) or the child list. Read with git ls-tree -r -t."""
    rc, out = repo.git("ls-tree", "-r", "-t", "-z", "--full-tree", rev)
    root = []
    index = {b"": root}
    for rec in out.split(b"\0"):
        if not rec:
            continue
        meta, path = rec.split(b"\t", 1)
        mode, typ, oid = meta.split(b" ")
        parent, _, nm = path.rpartition(b"/")
        lst = index[parent]
        if typ == b"tree":
            ch = []
            index[path] = ch
            lst.append((nm, "t", ch, oid.decode()))
        elif typ == b"commit":
            lst.append((nm, "c", oid.decode()))
        elif mode == b"120000":
            lst.append((nm, "l", oid.decode()))
        elif mode == b"100755":
            lst.append((nm, "x", oid.decode()))
        else:
            lst.append((nm, "b", oid.decode()))
    return root


def tree_wire(root):
    # entry layout of the driver: t <name> <k> children...
    def go2(lst):
        toks = [str(len(lst))]
        for e in lst:
            if e[1] == "t":
                toks += ["t", hx(e[0])] + go2(e[2])
            elif e[1] in "bx":
                toks += ["b", "1" if e[1] == "x" else "0", hx(e[0]), hx(e[2])]
            else:
                toks += [e[1], hx(e[0]), hx(e[2])]
        return toks
    return " ".join(go2(root))


def flat(root, prefix=b""):
    """path bytes -> (kind, oid) for every non-tree entry"""
    d = {}
    for e in root:
        p = prefix + e[0]
        if e[1] == "t":
            d.update(flat(e[2], p + b"/"))
        else:
            d[p] = (e[1], e[2])
    return d


def read_index(repo):
    """[(path bytes, kind b|x|l|c, oid)] for stage-0 entries"""
    rc, out = repo.git("ls-files", "-s", "-z")
    # intent-to-add entries (git add -N) are the only ones the index-vs-work-tree diff shows as added
    rc, ita = repo.git("diff", "--name-only", "--diff-filter=A", "--no-renames", "-z")
    ita = {x for x in ita.split(b"\0") if x}
    res = []
    for rec in out.split(b"\0"):
        if not rec:
            continue
        meta, path = rec.split(b"\t", 1)
        mode, oid, stage = meta.split(b" ")
        kind = {b"120000": "l", b"160000": "c", b"100755": "x"}.get(mode, "b")
        if path in ita and kind in "bx":
            kind = "i"
        res.append((path, kind, oid.decode(), int(stage)))
    return res


def index_wire(idx):
    toks = []
    for (p, k, oid, _st) in idx:
        if k in "bx":
            toks.append("b:%s:%s:%s" % ("1" if k == "x" else "0", hx(p), hx(oid)))
        elif k == "i":
            toks.append("i:%s" % hx(p))
        else:
            toks.append("%s:%s:%s" % (k, hx(p), hx(oid)))
    return " ".join(toks) or "-"


def canon_map(repo, paths):
    """std::fs::canonicalize of <work tree>/<p>, work-tree relative (absolute when it leaves the tree)."""
    base = os.path.realpath(repo.root)
    m = {}
    for p in paths:
        a = os.path.join(repo.root.encode(), p)
        if os.path.exists(a):
            rp = os.path.realpath(a)
            bb = base.encode()
            if rp == bb:
                continue
            m[p] = rp[len(bb) + 1:] if rp.startswith(bb + b"/") else rp
    return m


def canon_wire(m):
    return " ".join("%s=%s" % (hx(k), hx(v)) for k, v in sorted(m.items())) or "-"


def paths_wire(ps):
    return " ".join(hx(p) for p in ps) or "-"


def parse_paths(line):
    """'OK h h h' -> list of bytes, or the error token"""
    f = line.split(" ")
    if f[0] != "OK":
        return line
    return [unhx(h) for h in f[1:] if h]


def is_regular_on_disk(repo, p):
    a = os.path.join(repo.root.encode(), p)
    try:
        st = os.lstat(a)
    except OSError:
        return False
    return stat.S_ISREG(st.st_mode)


def git_raw_diff(repo, args):
    """git diff --raw --no-renames -z ... -> [(srcmode, dstmode, srcoid, dstoid, status, path)]"""
    rc, out = repo.git("diff", "--raw", "--no-renames", "--no-abbrev", "-z", *args)
    f = out.split(b"\0")
    res = []
    i = 0
    while i + 1 < len(f):
        if not f[i].startswith(b":"):
            i += 1
            continue
        m = f[i][1:].split(b" ")
        res.append((m[0].decode(), m[1].decode(), m[2].decode(), m[3].decode(), m[4].decode(), f[i + 1]))
        i += 2
    return res


def git_name_only(repo, args):
    rc, out = repo.git("diff", "--name-only", "--no-renames", "-z", *args)
    return sorted(x for x in out.split(b"\0") if x)


# ------------------------------------------------------------------ CLI result handling

def split_results(out):
    """JSON of `check --format json` -> (content results [(path, canonical dict)], structure results)"""
    j = json.loads(out)
    content, structure = [], []
    for r in j.get("results", []):
        cat = (r.get("violation_category") or {}).get("category")
        if cat == "structure":
            structure.append(json.dumps(r, sort_keys=True))
        else:
            p = r["path"]
            if p.startswith("./"):
                p = p[2:]
            rr = dict(r)
            rr.pop("path")
            content.append((p, json.dumps(rr, sort_keys=True)))
    return content, structure


# ------------------------------------------------------------------ ref / range spellings

def ancestors_first_parent(parents, sha):
    out = [sha]
    while parents.get(out[-1]):
        out.append(parents[out[-1]][0])
    return out


def spellings_for(rng, sha, info):
    """Spellings of one commit that git resolves to it (verified later with git rev-parse)."""
    sp = [("sha", sha), ("abbrev", sha[:rng.choice([7, 8, 12])]), ("sha~0", sha + "~0"), ("sha^0", sha[:10] + "^0"),
          ("sha^{commit}", sha + "^{commit}")]
    for b, s in info["branches"].items():
        if s == sha:
            sp += [("branch", b), ("refs/heads", "refs/heads/" + b), ("heads/", "heads/" + b)]
    for t, (s, annotated) in info["tags"].items():
        if s == sha:
            sp += [("tag", t), ("refs/tags", "refs/tags/" + t), ("tags/", "tags/" + t),
                   ("tag^{commit}", t + "^{commit}"), ("tag^{}", t + "^{}"), ("tag^0", t + "^0")]
    if info["head"]:
        chain = ancestors_first_parent(info["parents"], info["head"])
        if sha in chain:
            k = chain.index(sha)
            if k == 0:
                sp += [("HEAD", "HEAD"), ("@", "@"), ("HEAD@{0}", "HEAD@{0}")]
            else:
                sp += [("HEAD~k", "HEAD~%d" % k), ("@~k", "@~%d" % k)]
                if k <= 3:
                    sp.append(("HEAD^^", "HEAD" + "^" * k))
                if k == 1:
                    sp.append(("HEAD~", "HEAD~"))
    for b, s in info["branches"].items():
        chain = ancestors_first_parent(info["parents"], s)
        if sha in chain[1:4]:
            sp.append(("branch~k", "%s~%d" % (b, chain.index(sha))))
    for c, ps in info["parents"].items():
        if len(ps) > 1 and ps[1] == sha:
            sp.append(("merge^2", c + "^2"))
    return sp


def repo_info(repo):
    rc, out = repo.git("rev-parse", "-q", "--verify", "HEAD", ok_fail=True)
    head = out.decode().strip() if rc == 0 else None
    info = {"head": head, "parents": {}, "branches": {}, "tags": {}, "commits": []}
    if not head:
        return info
    rc, out = repo.git("rev-list", "--parents", "--all")
    for line in out.decode().split("\n"):
        f = line.split()
        if f:
            info["parents"][f[0]] = f[1:]
            info["commits"].append(f[0])
    rc, out = repo.git("for-each-ref", "--format=%(refname) %(objecttype) %(objectname) %(*objectname)")
    for line in out.decode().split("\n"):
        f = line.split()
        if not f:
            continue
        if f[0].startswith("refs/heads/"):
            info["branches"][f[0][len("refs/heads/"):]] = f[2]
        elif f[0].startswith("refs/tags/"):
            ann = f[1] == "tag"
            info["tags"][f[0][len("refs/tags/"):]] = (f[3] if ann else f[2], ann)
    return info
