"""C12: history generator, CLI replay (paired cached / --no-sloc-cache runs) and model wire format."""
import hashlib
import shutil
import json
import os
from vlib import *  # noqa

T0 = 1_700_000_000
EXTS = {1: "rs", 2: "py", 3: "c", 10: "foo", 11: "bar", 0: "zzz",       # model extension id -> real extension
        12: "r", 13: "s", 14: "p", 15: "y"}                             # pieces of rs / py (extension-list boundary edits)
BUILTIN_SYNTAX = {1: "ext:rs", 2: "ext:py", 3: "ext:c"}
# custom languages: model language id -> (name, single-line markers, multi-line pairs)
CUSTOM = {100: ("Hashy", ["#"], []), 101: ("Semi", [";;"], [["<<", ">>"]]), 102: ("Dashy", ["--"], []), 103: ("Slashy", ["//"], [["/*", "*/"]]),
          # variants that differ from another definition only by where a list boundary lies, by an empty item,
          # by swapped markers, by the name, or by one more pair (same name = an edit of that definition)
          104: ("Hashy", ["#", "!"], []), 105: ("Hashy", ["#!"], []), 106: ("Hashy", ["#", ""], []),
          107: ("Semi", [";;"], [[">>", "<<"]]), 108: ("Semi2", [";;"], [["<<", ">>"]]), 109: ("Slashy", ["/", "/"], [["/*", "*/"]]),
          110: ("Semi", [";;"], [["<<", ">>"], ["/*", "*/"]]), 111: ("Semi", [";", ";"], [["<<", ">>"]]),
          # renamed copies whose name sorts on the other side of the competing definition (extension ties are broken
          # by name order: definitions are registered in name order and the last registration wins)
          112: ("Aslashy", ["//"], [["/*", "*/"]]), 113: ("Zhashy", ["#"], []), 114: ("Asemi", [";;"], [["<<", ">>"]])}
# (X, Y, Y renamed): X and Y claim one extension and name(X) < name(Y) so Y wins; after the rename name(Y') < name(X), X wins.
# (X, Y, X renamed) with name(X') > name(Y) likewise. Each as (table before, table after) builders over an extension e.
TIE_TRIPLES = [((100, 103), (100, 112)),          # Hashy/Slashy -> Hashy/Aslashy: winner Slashy -> Hashy
               ((100, 103), (113, 103)),          # Hashy/Slashy -> Zhashy/Slashy: winner Slashy -> Zhashy
               ((100, 101), (100, 114)),          # Hashy/Semi -> Hashy/Asemi: winner Semi -> Hashy
               ((102, 101), (102, 114)),          # Dashy/Semi -> Dashy/Asemi: winner Semi -> Dashy
               ((102, 100), (102, 113))]          # Dashy/Hashy -> Dashy/Zhashy: winner Hashy -> Zhashy (no flip: control)
# (table A, table B, extension id of the file to look at): a SetLanguages A -> B (or B -> A) edit that a hash
# which loses list boundaries / names / order would not notice
BOUNDARY_PAIRS = [
    ([(10, 104)], [(10, 105)], 10),              # single_line_comments ["#","!"] <-> ["#!"]
    ([(10, 100)], [(10, 106)], 10),              # ["#"] <-> ["#",""]   (empty item)
    ([(10, 100)], [(10, 104)], 10),              # ["#"] <-> ["#","!"]
    ([(10, 103)], [(10, 109)], 10),              # ["//"] <-> ["/","/"]
    ([(10, 101)], [(10, 111)], 10),              # [";;"] <-> [";",";"]
    ([(1, 100)], [(12, 100), (13, 100)], 1),     # extensions ["rs"] <-> ["r","s"]: .rs is Hashy or built-in Rust
    ([(2, 103)], [(14, 103), (15, 103)], 2),     # extensions ["py"] <-> ["p","y"]
    ([(10, 100), (11, 100)], [(10, 100)], 11),   # extensions ["foo","bar"] <-> ["foo"]
    ([(10, 101)], [(10, 107)], 10),              # multi-line pair start/end swapped
    ([(10, 101)], [(10, 110)], 10),              # one more multi-line pair
    ([(10, 101)], [(10, 108)], 10),              # language renamed, identical content
    ([(10, 100)], [(10, 102)], 10),              # another language altogether
]
STEMS = {1: "src/f1", 2: "src/f2", 3: "src/g3", 4: "lib/h4", 5: "lib/deep/k5",
         6: "../outside/o6",                      # a regular file outside the project (symlink target only)
         7: "lnk7", 8: "src/lnk8",                # symbolic links (top level / inside the scanned tree)
         9: "f1", 10: "lib/f1"}                   # same base name as src/f1, at the root and in another directory
FILE_STEMS = [1, 2, 3, 4, 5, 9, 10]               # stems the ordinary generators write to
SUBDIRS = ["src", "lib"]                          # working directories of runs started below the project root
OUTSIDE_STEMS, LINK_STEMS = [6], [7, 8]
CUR_VERSION = 3                                   # CACHE_VERSION (the run compares cache.json's version with the model's)
FOREIGN_VERSIONS = [v for v in range(0, CUR_VERSION + 3) if v != CUR_VERSION]
LINES = ["x=12345;", "// ccccc", "# cccccc", ";; ccccc", "-- ccccc", "        ", "/* cc */", "<< cc >>", "y = f(1)",
         "!ccccccc", "#!cccccc", "/x=1234;", ">> cc <<", "; cccccc"]
DIRECTIVES = ["// sloc-guard:ignore-file", "# sloc-guard:ignore-file", ";; sloc-guard:ignore-file"]
CMDS = ["check", "summary", "files", "snapshot"]


def enc(s):
    return ",".join(str(ord(c)) for c in s) if s else "-"


def real_path(p):
    return "%s.%s" % (STEMS[p[0]], EXTS[p[1]])


def wpath(p):
    return "%d.%d" % p


def custom_syntax_wire(lid):
    _, single, multi = CUSTOM[lid]
    items = ["S=" + enc(s) for s in single] + ["M=%s:%s:0:0:0" % (enc(a), enc(b)) for a, b in multi]
    return ";".join(items) if items else ";"


def make_contents(rng, n=20):
    """Pool of texts; many share a size (every ordinary line is 8 characters + newline)."""
    # always present: the EMPTY file (a recognised source file without any line: total 0, still a result) and one
    # file per comment style that carries the ignore-file directive (skipped, never a result)
    pool = [""] + [d + "\n" + rng.choice(LINES) + "\n" for d in DIRECTIVES]
    seen = set(pool)
    while len(pool) < n + 4:
        k = rng.choice([1, 2, 2, 3, 3, 4])
        lines = [rng.choice(LINES) for _ in range(k)]
        if rng.random() < 0.12:
            lines[0] = rng.choice(DIRECTIVES)
        t = "\n".join(lines) + "\n"
        if t not in seen:
            seen.add(t)
            pool.append(t)
    return pool


def truth_table(counter_exe, contents):
    """(language id, cid) -> (t,c,m,b,i) | None, computed with the real counter (sgv-counter), no cache involved."""
    langs = list(BUILTIN_SYNTAX.items()) + [(l, custom_syntax_wire(l)) for l in CUSTOM]
    lines, keys = [], []
    for cid, text in enumerate(contents, 1):
        for lid, sy in langs:
            lines.append("count\t%s\t%s" % (sy, enc(text)))
            keys.append((lid, cid))
    outs, rc, err = run_lines(counter_exe, lines, args=["run"])
    if len(outs) != len(lines):
        raise CheckBroken("sgv-counter died: " + err)
    tab = {}
    for k, o in zip(keys, outs):
        f = o.split(" ")
        if f[0] == "OK":
            tab[k] = tuple(int(x) for x in f[1:6])
        elif f[0] == "IGN":
            tab[k] = None
        else:
            raise CheckBroken("sgv-counter answer: " + o)
    return tab


def contents_wire(contents, tab):
    out = []
    for cid, text in enumerate(contents, 1):
        ts = []
        for (lid, c), v in sorted(tab.items()):
            if c == cid:
                ts.append("%d=%s" % (lid, "I" if v is None else ".".join(map(str, v))))
        out.append("%d:%d:%s" % (cid, len(text.encode()), "/".join(ts)))
    return ";".join(out)


def canon_langs(table):
    """Canonical table: definitions in name order (as compute_config_hash and TOML see them), extensions in the
    given order, one definition per name, one owner per extension."""
    groups, seen_ext = [], set()
    for e, l in table:
        if e in seen_ext:
            continue
        seen_ext.add(e)
        for g in groups:
            if g[0] == l:
                g[1].append(e)
                break
        else:
            if all(CUSTOM[g[0]][0] != CUSTOM[l][0] for g in groups):
                groups.append((l, [e]))
    groups.sort(key=lambda g: CUSTOM[g[0]][0])
    return [(e, l) for l, es in groups for e in es]


def table_key(table):
    """What the [languages] section says, as a value (the thing the hash must be injective on)."""
    by = {}
    for e, l in table:
        by.setdefault(l, []).append(EXTS[e])
    return tuple(sorted((CUSTOM[l][0], tuple(es), tuple(CUSTOM[l][1]), tuple(map(tuple, CUSTOM[l][2]))) for l, es in by.items()))


def wire_langs(table):
    """The table as the model reads it (first match per extension): definitions in DEscending name order, so that
    the first claim of an extension is the one of the definition registered last = the effective owner. For a
    single-owner table this is just one fixed order of its entries."""
    groups = []
    for e, l in table:
        for g in groups:
            if g[0] == l:
                g[1].append(e)
                break
        else:
            groups.append((l, [e]))
    groups.sort(key=lambda g: CUSTOM[g[0]][0], reverse=True)
    return [(e, l) for l, es in groups for e in es]


def tie_history(rng, contents, tab):
    """Two custom definitions claim one extension; a run stores entries; then ONE definition is renamed (nothing else
    changes) so that the name order - hence the owner of the extension - flips; runs again; sometimes back."""
    (x, y), (x2, y2) = rng.choice(TIE_TRIPLES)
    e = rng.choice([10, 10, 11, 1, 2])
    extra = [(11 if e == 10 else 10, y)] if rng.random() < 0.5 else []      # the renamed side may own a second extension
    a = [(e, x), (e, y)] + extra
    b = [(e, x2), (e, y2)] + [(q, y2) for q, _ in extra]
    if rng.random() < 0.3:
        a, b = b, a

    def owner(table):
        return dict(wire_langs(table)[::-1])[e]
    la, lb = owner(a), owner(b)
    cands = [cid for cid in range(1, len(contents) + 1) if tab.get((la, cid)) != tab.get((lb, cid))]
    cid = rng.choice(cands) if cands else rng.randint(1, len(contents))
    t = T0 + rng.randrange(0, 1000)
    p = (rng.choice(FILE_STEMS), e)
    xc = lambda: rng.choice(CMDS)
    h = [("L", a), ("W", p, cid, t)]
    if rng.random() < 0.5:
        h.append(("W", (rng.choice(FILE_STEMS), rng.choice([1, 2, 10, 11])), rng.randint(1, len(contents)), t))
    h += [("X", xc(), [], t + 2), ("L", b), ("X", rng.choice(["check", "files", "summary"]), [], t + 3), ("X", xc(), [], t + 4)]
    if rng.random() < 0.5:
        h += [("L", a), ("X", rng.choice(["check", "files", "summary"]), [], t + 5)]
    return h


def rand_langs(rng, many=False):
    r0 = rng.random()
    if r0 < 0.30:
        a, b, _ = rng.choice(BOUNDARY_PAIRS)
        return canon_langs(rng.choice([a, b]))
    return canon_langs(_rand_langs(rng, many))


def _rand_langs(rng, many=False):
    """[languages]: list of (ext id, custom language id), single-owner extensions."""
    r = rng.random()
    if r < 0.35:
        return []
    exts = [10, 11, 1, 2]
    rng.shuffle(exts)
    k = 1 if (r < 0.85 and not many) else 2
    return [(e, rng.choice(list(CUSTOM))) for e in exts[:k]] if k == 1 else \
        [(e, l) for e, l in zip(exts[:2], rng.sample(list(CUSTOM), 2))]


def rand_history(rng, ncontents, nops=None, corrupt=True):
    """Structure-directed history: mostly writes/runs with small clock steps (0, 1, 2, 100), same-size rewrites,
    same-second rewrites, deletes, renames, [languages] changes, cache corruption."""
    nops = nops or rng.randint(5, 14)
    t = T0 + rng.randrange(0, 1000)
    paths = [(s, e) for s in FILE_STEMS for e in (1, 2, 10, 0, 3, 11)]
    live = {}
    h = []
    sizes = {}
    for _ in range(rng.randint(1, 3)):
        p = rng.choice(paths[:12])
        c = rng.randint(1, ncontents)
        h.append(("W", p, c, t))
        live[p] = c
    h.append(("X", rng.choice(CMDS), [], t + rng.choice([0, 0, 1, 5])))
    t = h[-1][3]
    for _ in range(nops):
        r = rng.random()
        t += rng.choice([0, 0, 0, 1, 1, 2, 100])
        if r < 0.30:
            p = rng.choice(list(live)) if live and rng.random() < 0.7 else rng.choice(paths)
            h.append(("W", p, rng.randint(1, ncontents), t))
            live[p] = h[-1][2]
        elif r < 0.36 and live:
            p = rng.choice(list(live))
            h.append(("D", p))
            del live[p]
        elif r < 0.46 and live:
            p = rng.choice(list(live))
            q = rng.choice(list(live)) if rng.random() < 0.5 else rng.choice(paths)
            if q != p:
                h.append(("R", p, q))
                live[q] = live.pop(p)
        elif r < 0.56:
            h.append(("L", rand_langs(rng)))
        elif r < 0.64 and corrupt:
            k = rng.choice(["g", "v", "v", "x", "x", "h", "r", "g"])
            if k == "v":
                k = "v%d" % rng.choice(FOREIGN_VERSIONS + [99])
            if k == "x" and live:
                h.append(("C", "x", rng.choice(FOREIGN_VERSIONS), rng.choice(list(live)), (9, 7, 1, 1, 0), rng.randint(0, 1)))
            elif k != "x":
                h.append(("C", k))
        else:
            # (-x patterns are by base name: only stems whose base name is unique)
            ex = [rng.choice([q for q in paths if q[0] in (2, 3, 4, 5)])] if rng.random() < 0.15 else []
            if rng.random() < 0.2:
                h.append(("XC", rng.choice(CMDS), rng.choice(SUBDIRS), t))
            else:
                h.append(("X", rng.choice(CMDS), ex, t))
    h.append(("X", rng.choice(CMDS), [], t + rng.choice([0, 1])))
    return h


ZERO_CIDS = [1]                     # content ids of make_contents that have no line at all
IGNORE_CIDS = [2, 3, 4]             # ... that start with an ignore-file directive (in //, # and ;; spelling)


def zero_history(rng, contents, tab):
    """Empty recognised files (statistics all zero, still reported) next to files that carry the ignore-file
    directive (never reported) and ordinary ones: cold run, warm runs, then the roles are swapped by rewrites
    (empty <-> ignored <-> ordinary) and by renames, again followed by warm runs."""
    t = T0 + rng.randrange(0, 1000)
    xc = lambda: rng.choice(CMDS)
    ext = rng.choice([1, 1, 2, 3, 10])
    langs = canon_langs([(10, rng.choice([100, 101, 103]))]) if ext == 10 or rng.random() < 0.3 else []
    stems = rng.sample(FILE_STEMS, 3)
    pe, pi, po = [(s, ext) for s in stems]
    ign = rng.choice(IGNORE_CIDS)
    ordinary = rng.randint(5, len(contents))
    h = ([("L", langs)] if langs else []) + [("W", pe, ZERO_CIDS[0], t), ("W", pi, ign, t), ("W", po, ordinary, t),
                                             ("X", xc(), [], t + 2), ("X", rng.choice(["check", "files", "summary"]), [], t + 3), ("X", xc(), [], t + 4)]
    kind = rng.choice(["swap", "swap", "rename", "truncate", "none"])
    if kind == "swap":
        h += [("W", pe, ign, t + 5), ("W", pi, ZERO_CIDS[0], t + 5), ("X", xc(), [], t + 7), ("X", rng.choice(["check", "files", "summary"]), [], t + 8)]
    elif kind == "rename":
        h += [("R", pe, (pe[0], rng.choice([1, 2, 3]))), ("CP", pi, (stems[0], ext)), ("X", xc(), [], t + 7), ("X", rng.choice(["check", "files", "summary"]), [], t + 8)]
    elif kind == "truncate":
        h += [("W", po, ZERO_CIDS[0], t + 5), ("W", pe, ordinary, t + 5), ("X", xc(), [], t + 7), ("X", rng.choice(["check", "files", "summary"]), [], t + 8)]
    return h


def touch_history(rng, contents, tab, groups):
    """A file with a stored entry is rewritten with the SAME bytes (touch, branch switch, formatter) in second T, a
    cached run follows in T (metadata miss on identical content: the racy-clean rule forbids storing mtime T), then a
    same-size edit still in T, then later runs. Variants: the run one second after the touch (the refreshed entry is
    safe), a touch that goes through another content first."""
    t = T0 + rng.randrange(0, 1000)
    a, b = rng.sample(rng.choice(groups), 2) if groups else rng.sample(range(5, len(contents) + 1), 2)
    p = (rng.choice(FILE_STEMS), rng.choice([1, 2, 3]))
    xc = lambda: rng.choice(CMDS)
    T = t + rng.choice([3, 5, 100])
    h = [("W", p, a, t)]
    if rng.random() < 0.4:
        h.append(("W", (rng.choice(FILE_STEMS), rng.choice([1, 2])), rng.randint(1, len(contents)), t))
    h.append(("X", xc(), [], t + 2))
    kind = rng.choice(["same-second", "same-second", "same-second", "later", "via-other"])
    if kind == "via-other":
        h += [("W", p, b, T - 1), ("X", xc(), [], T - 1)]
    run_t = T + 1 if kind == "later" else T
    h += [("W", p, a, T), ("X", xc(), [], run_t), ("W", p, b, run_t), ("X", rng.choice(["check", "files", "summary"]), [], run_t),
          ("X", rng.choice(["check", "files", "summary"]), [], run_t + 4)]
    return h


def same_size_pairs(contents):
    by = {}
    for cid, t in enumerate(contents, 1):
        by.setdefault(len(t.encode()), []).append(cid)
    return [v for v in by.values() if len(v) >= 2]


def directed_history(rng, contents, tab):
    """Histories aimed at the D13 window and the rename collision: same size, same second."""
    groups = same_size_pairs(contents)
    if not groups:
        return rand_history(rng, len(contents))
    g = rng.choice(groups)
    a, b = rng.sample(g, 2)
    t = T0 + rng.randrange(0, 1000)
    p = (rng.choice(FILE_STEMS), rng.choice([1, 2, 10]))
    kind = rng.choice(["d13", "d13", "d13-later", "rename", "rename-dir", "safe", "forge", "foreign", "foreign", "symlink", "symlink", "symlink"])
    if kind == "symlink":
        return symlink_history(rng, contents, tab, groups)
    langs = rand_langs(rng)
    h = [("L", langs)] if langs else []
    if kind == "d13":            # write at t, run at t, rewrite same size at t, run (at t and later)
        h += [("W", p, a, t), ("X", rng.choice(CMDS), [], t), ("W", p, b, t), ("X", rng.choice(CMDS), [], t), ("X", rng.choice(CMDS), [], t + 5)]
    elif kind == "d13-later":    # run one second after the write: the entry is safe, a rewrite at t+1 changes the mtime
        h += [("W", p, a, t), ("X", rng.choice(CMDS), [], t + 1), ("W", p, b, t + 1), ("X", rng.choice(CMDS), [], t + 1), ("X", rng.choice(CMDS), [], t + 3)]
    elif kind in ("rename", "rename-dir"):
        q = (rng.choice(FILE_STEMS), p[1])
        if q == p:
            q = ((p[0] % 5) + 1, p[1])
        h += [("W", p, a, t), ("W", q, b, t), ("X", rng.choice(CMDS), [], t + 2), ("R", p, q), ("X", rng.choice(CMDS), [], t + 4)]
    elif kind == "foreign":      # the cache file of another release: every version but the current one, right hash and metadata,
        # statistics that differ from the truth, `ignored` field absent or present
        other = (50, 40, 5, 5, 0)            # no content of the pool has these statistics under any language
        h += [("W", p, a, t), ("X", rng.choice(CMDS), [], t + 2), ("C", "x", rng.choice(FOREIGN_VERSIONS), p, other, rng.randint(0, 1)),
              ("X", rng.choice(["check", "files", "summary"]), [], t + 3), ("X", rng.choice(CMDS), [], t + 4)]
    elif kind == "forge":        # well-formed in-place edit of one entry's statistics
        h += [("W", p, a, t), ("X", rng.choice(CMDS), [], t + 2), ("C", "f", p, (9, 7, 1, 1, 0)), ("X", rng.choice(CMDS), [], t + 3)]
    else:                        # same size, different second
        h += [("W", p, a, t), ("X", rng.choice(CMDS), [], t + 1), ("W", p, b, t + 2), ("X", rng.choice(CMDS), [], t + 2)]
    return h


def symlink_history(rng, contents, tab, groups):
    """A source file reached through a symbolic link and named explicitly (check --files, stats <path>): the link's own
    mtime is old; the target (inside or outside the scanned tree) is edited, deleted and re-created, or the link is
    re-pointed; runs name the link (and sometimes ordinary files) explicitly, with full scans in between."""
    t = T0 + rng.randrange(0, 1000)
    ext = rng.choice([1, 2])
    link = (rng.choice(LINK_STEMS), ext)
    tgt = (rng.choice(FILE_STEMS + OUTSIDE_STEMS + OUTSIDE_STEMS), ext)
    a, b = rng.sample(range(1, len(contents) + 1), 2)
    if rng.random() < 0.5 and groups:           # same-size edit of the target
        a, b = rng.sample(rng.choice(groups), 2)
    xc = lambda: rng.choice(CMDS)
    kind = rng.choice(["edit", "edit", "edit", "retarget", "retarget-same-meta", "recreate", "mixed"])
    h = [("W", tgt, a, t), ("K", link, tgt), ("XF", xc(), [link], t + 2)]
    if kind == "edit":
        h += [("W", tgt, b, t + 3), ("XF", xc(), [link], t + 4), ("X", xc(), [], t + 5), ("XF", xc(), [link], t + 6)]
    elif kind in ("retarget", "retarget-same-meta"):
        tgt2 = (rng.choice([s for s in FILE_STEMS if s != tgt[0]]), ext)
        if kind == "retarget-same-meta" and groups:
            a, b = rng.sample(rng.choice(groups), 2)
            h = [("W", tgt, a, t), ("W", tgt2, b, t), ("K", link, tgt), ("XF", xc(), [link], t + 2), ("K", link, tgt2), ("XF", xc(), [link], t + 4)]
        else:
            h = [("W", tgt, a, t), ("W", tgt2, b, t + 1), ("K", link, tgt), ("XF", xc(), [link], t + 3), ("K", link, tgt2), ("XF", xc(), [link], t + 4),
                 ("W", tgt2, a, t + 5), ("XF", xc(), [link, tgt2], t + 6)]
    elif kind == "recreate":
        h += [("D", tgt), ("X", xc(), [], t + 3), ("W", tgt, b, t + 4), ("XF", xc(), [link], t + 5)]
    else:
        other = (rng.choice([s for s in FILE_STEMS if s != tgt[0]]), rng.choice([1, 2]))
        h += [("W", other, b, t + 2), ("XF", xc(), [link, other], t + 3), ("W", tgt, b, t + 4), ("W", other, a, t + 4),
              ("XF", xc(), [other, link], t + 5), ("X", xc(), [], t + 6)]
    return h


def xlang_history(rng, contents, tab):
    """A file that has a stored cache entry is renamed or copied (cp -p) to a name whose extension means another
    language with other comment markers (built-in or custom), the content being one the two languages count
    differently: the entry of the old path (same content hash) must not be reused for the new one."""
    table = canon_langs(rng.choice([[], [], [(10, 100)], [(10, 101), (11, 102)], [(10, 103)], [(1, 100)], [(2, 103)]]))
    tl = dict(table)

    def lang(e):
        return tl.get(e, e if 0 < e < 10 else None)
    exts = [e for e in (1, 2, 3, 10, 11) if lang(e) is not None]
    cands = [(e1, e2, cid) for e1 in exts for e2 in exts if e1 != e2 and lang(e1) != lang(e2)
             for cid in range(1, len(contents) + 1) if tab.get((lang(e1), cid)) != tab.get((lang(e2), cid)) and tab.get((lang(e1), cid)) is not None]
    if not cands:
        return rand_history(rng, len(contents))
    e1, e2, cid = rng.choice(cands)
    t = T0 + rng.randrange(0, 1000)
    src = (rng.choice(FILE_STEMS), e1)
    dst = (rng.choice(FILE_STEMS), e2) if rng.random() < 0.5 else (src[0], e2)
    xc = lambda: rng.choice(CMDS)
    h = ([("L", table)] if table else []) + [("W", src, cid, t), ("X", xc(), [], t + rng.choice([1, 2, 100])),
                                           (rng.choice(["R", "CP"]), src, dst), ("X", rng.choice(["check", "files", "summary"]), [], t + 200), ("X", xc(), [], t + 201)]
    if rng.random() < 0.4:
        h += [("CP", dst, (rng.choice(FILE_STEMS), e1)), ("X", xc(), [], t + 300)]
    return h


def cwd_history(rng, contents, tab, groups):
    """Runs from the project root and from a sub-directory against the same project cache, with files of equal name,
    mtime second and size in both places (./f1.rs seen from src/ or lib/ and from the root)."""
    t = T0 + rng.randrange(0, 1000)
    ext = rng.choice([1, 2, 10])
    sub = rng.choice(SUBDIRS)
    inner = ({"src": 1, "lib": 10}[sub], ext)
    a, b = rng.sample(rng.choice(groups), 2) if groups else rng.sample(range(1, len(contents) + 1), 2)
    xc = lambda: rng.choice(CMDS)
    h = [("W", (9, ext), a, t), ("W", inner, b, t)]
    if rng.random() < 0.4:
        h.append(("W", ({"src": 10, "lib": 1}[sub], ext), rng.randint(1, len(contents)), t))
    first, second = (("XC", xc(), sub, t + 2), ("X", xc(), [], t + 3)) if rng.random() < 0.5 else (("X", xc(), [], t + 2), ("XC", xc(), sub, t + 3))
    h += [first, second]
    if rng.random() < 0.5:
        h += [("W", inner, a, t + 4), ("W", (9, ext), b, t + 4), ("XC", xc(), sub, t + 5), ("X", xc(), [], t + 6), ("XF", xc(), [inner, (9, ext)], t + 7)]
    return h


def norm_history(h):
    """History read back from JSON (lists) -> the tuple form the generators produce."""
    out = []
    for o in h:
        k = o[0]
        if k == "W":
            out.append(("W", tuple(o[1]), o[2], o[3]))
        elif k == "D":
            out.append(("D", tuple(o[1])))
        elif k in ("R", "CP"):
            out.append((k, tuple(o[1]), tuple(o[2])))
        elif k == "L":
            out.append(("L", [tuple(x) for x in o[1]]))
        elif k == "C":
            if o[1] == "f":
                out.append(("C", "f", tuple(o[2]), tuple(o[3])))
            elif o[1] == "x":
                out.append(("C", "x", o[2], tuple(o[3]), tuple(o[4]), o[5]))
            else:
                out.append(tuple(o))
        elif k == "K":
            out.append(("K", tuple(o[1]), tuple(o[2])))
        elif k == "XC":
            out.append(("XC", o[1], o[2], o[3]))
        else:
            out.append((k, o[1], [tuple(q) for q in o[2]], o[3]))
    return out


def boundary_history(rng, contents, tab):
    """SetLanguages A, write, run, SetLanguages B (a boundary-moving / renaming / reordering edit), run: on a file
    whose classification differs between A and B."""
    a, b, ext = rng.choice(BOUNDARY_PAIRS)
    if rng.random() < 0.5:
        a, b = b, a
    a, b = canon_langs(a), canon_langs(b)

    def lang(table):
        return dict(table).get(ext, ext if ext < 10 else None)
    la, lb = lang(a), lang(b)
    cands = [cid for cid in range(1, len(contents) + 1) if (tab.get((la, cid)) if la else "skip") != (tab.get((lb, cid)) if lb else "skip")]
    cid = rng.choice(cands) if cands else rng.randint(1, len(contents))
    t = T0 + rng.randrange(0, 1000)
    p = (rng.choice(FILE_STEMS), ext)
    h = [("L", a), ("W", p, cid, t)]
    if rng.random() < 0.5:
        h.append(("W", (rng.choice(FILE_STEMS), rng.choice([1, 2, 10])), rng.randint(1, len(contents)), t))
    h += [("X", rng.choice(CMDS), [], t + 2), ("L", b), ("X", rng.choice(CMDS), [], t + 3)]
    if rng.random() < 0.5:
        h += [("L", a), ("X", rng.choice(CMDS), [], t + 4)]
    return h


def ops_wire(h):
    """The history as the model sees it. A symbolic link is, for fs::metadata / fs::read, another name for the target's
    content and mtime: K (link) becomes Copy target link, and every later change of the target is mirrored on the
    link path; scans do not follow links and never see files outside the project (both go into the excluded list);
    a run that names its paths (XF) excludes everything else."""
    out = []
    live, links = set(), {}

    def mirror_write(p, c, t):
        for l, q in links.items():
            if q == p:
                out.append("W:%s:%d:%d" % (wpath(l), c, t))

    def mirror_gone(p):
        for l, q in links.items():
            if q == p:
                out.append("D:" + wpath(l))
    for o in h:
        if o[0] == "W":
            links.pop(o[1], None)
            live.add(o[1])
            out.append("W:%s:%d:%d" % (wpath(o[1]), o[2], o[3]))
            mirror_write(o[1], o[2], o[3])
        elif o[0] == "D":
            out.append("D:" + wpath(o[1]))
            if o[1] in links:
                del links[o[1]]
            else:
                live.discard(o[1])
                mirror_gone(o[1])
        elif o[0] == "R":
            if o[1] in links or o[1] not in live:
                continue                      # (the replay skips a rename of a link / of nothing as well)
            links.pop(o[2], None)
            live.discard(o[1])
            live.add(o[2])
            out.append("R:%s:%s" % (wpath(o[1]), wpath(o[2])))
            mirror_gone(o[1])
            for l, q in links.items():
                if q == o[2]:
                    out.append("P:%s:%s" % (wpath(o[2]), wpath(l)))
        elif o[0] == "CP":                    # cp -p: content and mtime of o[1] under the name o[2] as well
            if o[1] in links or o[1] not in live:
                continue
            links.pop(o[2], None)
            live.add(o[2])
            out.append("P:%s:%s" % (wpath(o[1]), wpath(o[2])))
        elif o[0] == "K":
            live.discard(o[1])
            links[o[1]] = o[2]
            out.append("P:%s:%s" % (wpath(o[2]), wpath(o[1])) if o[2] in live else "D:" + wpath(o[1]))
        elif o[0] == "L":
            out.append("L:" + "/".join("%d=%d" % x for x in wire_langs(o[1])))
        elif o[0] == "C" and o[1] == "f":
            out.append("C:f:%s:%s" % (wpath(o[2]), ".".join(map(str, o[3]))))
        elif o[0] == "C" and o[1] == "x":
            out.append("C:x%d:%s:%s" % (o[2], wpath(o[3]), ".".join(map(str, o[4]))))
        elif o[0] == "C":
            out.append("C:" + o[1])
        elif o[0] == "XF":
            ex = [p for p in sorted(live | set(links)) if p not in o[2]]
            out.append("X:%s:%s:%d" % (o[1], "/".join(wpath(p) for p in ex) or "-", o[3]))
        elif o[0] == "XC":                    # run started in a sub-directory: scans that directory only
            ex = [p for p in sorted(live | set(links)) if p in links or not STEMS[p[0]].startswith(o[2] + "/")]
            out.append("X:%s:%s:%d" % (o[1], "/".join(wpath(p) for p in ex) or "-", o[3]))
        else:
            ex = list(o[2]) + [p for p in sorted(live | set(links)) if (p in links or p[0] in OUTSIDE_STEMS) and p not in o[2]]
            out.append("X:%s:%s:%d" % (o[1], "/".join(wpath(p) for p in ex) or "-", o[3]))
    return ",".join(out)


# ------------------------------------------------------------------ CLI replay
def config_text(langs):
    t = '[content]\nextensions = ["rs", "py", "c", "foo", "bar", "zzz", "r", "s", "p", "y"]\nmax_lines = 3\n'
    by = {}
    for e, l in langs:
        by.setdefault(l, []).append(EXTS[e])
    for l, exts in by.items():
        name, single, multi = CUSTOM[l]
        t += "\n[languages.%s]\nextensions = %s\nsingle_line_comments = %s\nmulti_line_comments = %s\n" % (
            name, json.dumps(exts), json.dumps(single), json.dumps(multi))
    return t


def cmd_args(kind, excl, only=None):
    a = {"check": ["check", "--format", "json"], "summary": ["stats", "summary", "--format", "json"],
         "files": ["stats", "files", "--format", "json"], "snapshot": ["snapshot", "--force"]}[kind]
    for p in excl:
        a += ["-x", "**/" + os.path.basename(real_path(p))]
    for p in only or []:                    # explicitly named paths: check --files P, stats/snapshot P
        a += (["--files", "./" + real_path(p)] if kind == "check" else ["./" + real_path(p)])
    return ["--color", "never"] + a


def normalise(kind, out, proj):
    if kind == "snapshot":
        return "\n".join(l for l in out.splitlines() if not l.startswith("Snapshot recorded to"))
    return out


def parse_out(kind, out):
    """-> ('files', {real path: (t,c,m,b)}) or ('totals', (files, t, c, m, b)) or None."""
    try:
        if kind == "check":
            j = json.loads(out)
            return ("files", {r["path"]: (r["stats"]["total"], r["stats"]["code"], r["stats"]["comment"], r["stats"]["blank"]) for r in j["results"] if "stats" in r})
        if kind == "files":
            j = json.loads(out)
            return ("files", {r["path"]: (r["total"], r["code"], r["comment"], r["blank"]) for r in j["top_files"]})
        if kind == "summary":
            s = json.loads(out)["summary"]
            return ("totals", (s["total_files"], s["total_lines"], s["code"], s["comment"], s["blank"]))
        m = re.search(r"Files:\s+(\d+)\s+Total:\s+(\d+) lines\s+Code:\s+(\d+) lines\s+Comment:\s+(\d+) lines\s+Blank:\s+(\d+) lines", out)
        return ("totals", tuple(int(x) for x in m.groups())) if m else None
    except Exception:
        return None


def model_out(kind, seg):
    """Model output segment `1.1=t.c.m.b.i;...` in the shape parse_out gives."""
    files = {}
    if seg != "-":
        for it in seg.split(";"):
            p, s = it.split("=")
            a, b = p.split(".")
            files["./" + real_path((int(a), int(b)))] = tuple(int(x) for x in s.split("."))[:4]
    if kind in ("check", "files"):
        return ("files", files)
    vs = list(files.values())
    return ("totals", (len(vs),) + tuple(sum(v[i] for v in vs) for i in range(4)))


def abs_key(sb, p):
    """The cache key of model path p: std::path::absolute of the path as the tool sees it = the physical working
    directory joined with the relative path, `.` components dropped, `..` kept, symbolic links not resolved."""
    return os.path.realpath(sb.proj) + "/" + real_path(p)


def read_cache(sb, contents):
    """Canonical view of .sloc-guard/cache.json in the model driver's format (hash class left to the caller)."""
    p = os.path.join(sb.proj, ".sloc-guard", "cache.json")
    if not os.path.exists(p):
        return "ABSENT", None
    try:
        j = json.load(open(p))
        hs = {hashlib.sha256(t.encode()).hexdigest(): cid for cid, t in enumerate(contents, 1)}
        inv = {abs_key(sb, (s, e)): (s, e) for s in STEMS for e in EXTS}
        ents = []
        for k, e in j["files"].items():
            st = e["stats"]
            ents.append("%s@%d,%d=%d.%d.%d.%d.%d#%d" % (wpath(inv[k]), e["mtime"], e["size"], st["total"], st["code"], st["comment"], st["blank"],
                                                       st.get("ignored", 0), hs.get(e["hash"], 0)))
        return "v%d %s" % (j["version"], ";".join(sorted(ents)) or "-"), j["config_hash"]
    except Exception as ex:
        return "CORRUPT", None


def corrupt_cache(sb, kind, rng=None, offset=None, forge=None, foreign=None):
    p = os.path.join(sb.proj, ".sloc-guard", "cache.json")
    if kind == "x":
        # the well-formed cache file of another release: version v, same config hash and metadata, one entry with
        # the statistics that release computed, `ignored` field absent (older format) or present
        v, path, stats, ign = foreign
        try:
            j = json.load(open(p))
            if not (isinstance(j, dict) and isinstance(j.get("files"), dict)):
                return
            j["version"] = v
            e = j["files"].get(abs_key(sb, path))
            if e is not None:
                e["stats"] = dict(zip(("total", "code", "comment", "blank", "ignored"), stats))
            if not ign:
                for ent in j["files"].values():
                    ent["stats"].pop("ignored", None)
            open(p, "w").write(json.dumps(j, indent=2))
        except Exception:
            pass
        return
    if kind == "f":
        # in-place edit that keeps the file well-formed: replace the statistics of one entry
        try:
            j = json.load(open(p))
            e = j["files"].get(abs_key(sb, forge[0]))
            if e is not None:
                e["stats"] = dict(zip(("total", "code", "comment", "blank", "ignored"), forge[1]))
                open(p, "w").write(json.dumps(j, indent=2))
        except Exception:
            pass
        return
    if not os.path.exists(p):
        if kind in ("g",):
            os.makedirs(os.path.dirname(p), exist_ok=True)
            open(p, "wb").write(b"\x00\xffgarbage{")
        return
    data = open(p, "rb").read()
    if kind == "r":
        os.remove(p)
    elif kind == "g":
        if offset is None:
            mode = rng.choice(["trunc", "trunc", "garbage", "empty", "flip"]) if rng else "garbage"
            if mode == "trunc":
                data = data[:rng.randrange(0, max(1, len(data) - 1))]
            elif mode == "garbage":
                data = bytes(rng.randrange(256) for _ in range(rng.choice([1, 10, 100])))
            elif mode == "empty":
                data = b""
            else:
                k = rng.randrange(0, len(data) + 1)       # a raw NUL is invalid anywhere in a JSON text
                data = data[:k] + b"\x00" + data[k:]
        else:
            data = data[:offset]
        open(p, "wb").write(data)
    elif kind.startswith("v") or kind == "h":
        try:
            j = json.loads(data)
        except Exception:
            return                      # already unparsable: stays as it is (model: CCorrupt unchanged)
        if not (isinstance(j, dict) and isinstance(j.get("files"), dict)):
            return                      # valid JSON (e.g. the garbage byte `7`) but not a Cache: same
        if kind == "h":
            j["config_hash"] = "0" * 64
        else:
            j["version"] = int(kind[1:])
        open(p, "w").write(json.dumps(j, indent=2))


def replay_history(exe, contents, h, rng=None, threads="2", trunc_offsets=None):
    """Run the history on the real CLI. Returns list of per-Run dicts:
       kind, cached=(rc,out,err), uncached=(rc,out,err), cache (canonical view after the cached run), hash."""
    runs = []
    with Sandbox("sgv-c12-") as sb:
        langs = []
        sb.write(".sloc-guard.toml", config_text(langs))
        for o in h:
            if o[0] == "W":
                fp = os.path.join(sb.proj, real_path(o[1]))
                if os.path.islink(fp):
                    os.remove(fp)
                p = sb.write(real_path(o[1]), contents[o[2] - 1])
                os.utime(p, (o[3], o[3]))
            elif o[0] == "K":
                lp, tp = os.path.join(sb.proj, real_path(o[1])), os.path.normpath(os.path.join(sb.proj, real_path(o[2])))
                os.makedirs(os.path.dirname(lp), exist_ok=True)
                if os.path.lexists(lp):
                    os.remove(lp)
                os.symlink(os.path.relpath(tp, os.path.dirname(lp)), lp)
                os.utime(lp, (T0 - 5000, T0 - 5000), follow_symlinks=False)      # the link itself is old
            elif o[0] == "D":
                fp = os.path.join(sb.proj, real_path(o[1]))
                if os.path.lexists(fp):
                    os.remove(fp)
            elif o[0] == "R":
                a, b = os.path.join(sb.proj, real_path(o[1])), os.path.join(sb.proj, real_path(o[2]))
                if os.path.exists(a) and not os.path.islink(a):
                    os.makedirs(os.path.dirname(b), exist_ok=True)
                    os.rename(a, b)
            elif o[0] == "CP":
                a, b = os.path.join(sb.proj, real_path(o[1])), os.path.join(sb.proj, real_path(o[2]))
                if os.path.exists(a) and not os.path.islink(a):
                    os.makedirs(os.path.dirname(b), exist_ok=True)
                    if os.path.lexists(b):
                        os.remove(b)
                    shutil.copy2(a, b)                      # keeps the mtime, like cp -p
            elif o[0] == "L":
                langs = o[1]
                sb.write(".sloc-guard.toml", config_text(langs))
            elif o[0] == "C":
                if o[1] == "f":
                    corrupt_cache(sb, "f", forge=(o[2], o[3]))
                elif o[1] == "x":
                    corrupt_cache(sb, "x", foreign=(o[2], o[3], o[4], o[5]))
                else:
                    corrupt_cache(sb, o[1], rng, offset=o[2] if len(o) > 2 else None)
            else:
                env = {"SGV_NOW": str(o[3]), "RAYON_NUM_THREADS": threads}
                cwd = sb.proj
                if o[0] == "XC":
                    # (the configuration file is looked up in the working directory only, the project root - hence the cache -
                    # by walking up: name the project's configuration explicitly so that the run differs by its cwd only)
                    args, cwd = cmd_args(o[1], []) + ["-c", os.path.join(sb.proj, ".sloc-guard.toml")], os.path.join(sb.proj, o[2])
                    os.makedirs(cwd, exist_ok=True)
                else:
                    args = cmd_args(o[1], [], only=o[2]) if o[0] == "XF" else cmd_args(o[1], o[2])
                un = sb.run(exe, args + ["--no-sloc-cache"], cwd=cwd, env=env)
                ca = sb.run(exe, args, cwd=cwd, env=env)
                view, hsh = read_cache(sb, contents)
                runs.append(dict(kind=o[1], t=o[3], cached=(ca[0], normalise(o[1], ca[1], sb.proj), ca[2]),
                                 uncached=(un[0], normalise(o[1], un[1], sb.proj), un[2]), cache=view, hash=hsh, langs=list(langs),
                                 subdir=o[2] if o[0] == "XC" else None))
    return runs


# ------------------------------------------------------------------ two-universe histories (state directories vs the structure scan)
# The paired replay above runs every invocation twice in ONE project directory, so a side effect of the cached run on
# the directory tree (its state directory) is seen by the --no-sloc-cache twin as well. Here the whole history runs in
# two separate copies of the project: one where every invocation has the cache on, one where every invocation carries
# --no-sloc-cache; the outputs and exit codes are compared invocation by invocation.
NEST_CHAINS = [["sub"], ["services", "api"], ["pkg", "core", "inner"], ["a", "b", "c", "d"]]
U_TEXTS = ["fn main() {\n    run();\n}\n", "x = 1\n", "// c\nx=1;\n", "a\nb\nc\nd\n", ""]


def universe_case(rng, kind=None):
    """-> {"tag", "git", "files": [[rel, text, mtime]], "steps": [["run", cwd, cmd, t] | ["write", rel, text, t] | ["rm", rel]]}"""
    kind = kind or rng.choice(["nested", "nested", "nested", "nested2", "git", "git", "statelang", "statelang", "unwritable", "unwritable"])
    if kind == "statelang":
        return statelang_case(rng)
    if kind == "unwritable":
        return unwritable_case(rng)
    t = T0 + rng.randrange(0, 1000)
    files, steps = [], []
    xc = lambda: rng.choice(["check", "check", "summary", "files", "snapshot"])
    if kind in ("nested", "nested2"):
        chains = rng.sample(NEST_CHAINS, 1 if kind == "nested" else 2)
        k = rng.choice([1, 1, 2, 3])                     # sub-directories of each nested project
        nf = rng.choice([1, 2])                          # files directly in each nested project besides its configuration
        slack = rng.choice([0, 0, 0, 1])
        limits = {"max_dirs": max(k, len(chains)) + slack}
        if rng.random() < 0.5:
            limits["max_files"] = nf + 1 + slack         # (.sloc-guard.toml counts)
        if rng.random() < 0.3:
            limits["max_depth"] = max(len(c) for c in chains) + 1 + slack
        root_cfg = 'version = "2"\n\n[content]\nmax_lines = 3\n\n[structure]\n' + "".join("%s = %d\n" % kv for kv in sorted(limits.items()))
        files.append([".sloc-guard.toml", root_cfg, t])
        files.append(["top.rs", rng.choice(U_TEXTS), t])
        for ch in chains:
            d = "/".join(ch)
            files.append([d + "/.sloc-guard.toml", 'version = "2"\n\n[content]\nmax_lines = %d\n' % rng.choice([2, 100]), t])
            for i in range(nf):
                files.append(["%s/n%d.rs" % (d, i), rng.choice(U_TEXTS), t])
            for i in range(k):
                files.append(["%s/%s/m%d.rs" % (d, ["src", "lib", "tests"][i], i), rng.choice(U_TEXTS), t])
        order = [("/".join(ch), xc()) for ch in chains]
        if rng.random() < 0.3:
            steps.append(["run", "", "check", t + 1])   # the enclosing project first, before any nested state exists
        for d, c in order:
            steps.append(["run", d, c, t + 2])
        steps.append(["run", "", "check", t + 3])
        if rng.random() < 0.6:
            d = order[0][0]
            steps += [["write", d + "/src/m0.rs", rng.choice(U_TEXTS), t + 4], ["run", d, xc(), t + 5], ["run", d + "/src", xc(), t + 5],
                      ["run", "", rng.choice(["check", "summary", "files"]), t + 6], ["run", "", "check", t + 7]]
        return {"tag": "nested-structure", "kind": kind, "git": False, "files": files, "steps": steps, "limits": limits}
    # git: the state directory of a project whose root has .git/ is .git/sloc-guard/; the user's scanner.exclude need not
    # contain .git/** (it replaces the default list)
    excl = rng.choice([["target/**"], [], ["target/**"], [".git/**"]])
    gitdirs = 5                                          # `git init` creates branches hooks info objects refs
    slack = rng.choice([0, 0, 1])
    limits = {"max_dirs": gitdirs + slack}
    if rng.random() < 0.4:
        limits["max_files"] = 3 + slack                  # .git holds HEAD config description
    cfg = 'version = "2"\n\n[scanner]\nexclude = %s\n\n[content]\nmax_lines = 3\n\n[structure]\n%s' % (
        json.dumps(excl), "".join("%s = %d\n" % kv for kv in sorted(limits.items())))
    files = [[".sloc-guard.toml", cfg, t], ["src/a/m.rs", rng.choice(U_TEXTS), t], ["top.rs", rng.choice(U_TEXTS), t]]
    steps = [["run", "", xc(), t + 2], ["run", "", "check", t + 3]]
    if rng.random() < 0.5:
        steps += [["write", "src/a/m.rs", rng.choice(U_TEXTS), t + 4], ["run", "src", xc(), t + 5], ["run", "", "check", t + 6]]
    return {"tag": "git-state-dir", "kind": kind, "git": True, "files": files, "steps": steps, "limits": limits, "exclude": excl}


def statelang_case(rng, fixed=False):
    """A custom language claims the extension of the tool's own state files (cache.json, history.json, the baseline
    file are .json): they are no source files of the project, in a plain project (.sloc-guard/) and in a git project
    whose scanner.exclude does not list .git/** (.git/sloc-guard/)."""
    t = T0 if fixed else T0 + rng.randrange(0, 1000)
    git = (not fixed) and rng.random() < 0.4
    name = "JSON" if fixed else rng.choice(["JSON", "Data", "aaa"])
    cfg = 'version = "2"\n\n'
    if git:
        cfg += '[scanner]\nexclude = %s\n\n' % json.dumps(rng.choice([[], ["target/**"]]))
    cfg += '[content]\nextensions = ["rs", "json"]\nmax_lines = %d\n\n[languages.%s]\nextensions = ["json"]\nsingle_line_comments = ["//"]\n' % (
        3 if fixed else rng.choice([3, 5, 1000]), name)
    files = [[".sloc-guard.toml", cfg, t], ["a.rs", U_TEXTS[0], t]]
    if not fixed and rng.random() < 0.5:
        files.append(["data/x.json", '{\n  "k": 1\n}\n', t])
    if fixed:
        steps = [["run", "", "summary", t + 2], ["run", "", "summary", t + 3]]
    else:
        cmds = [rng.choice(["summary", "files", "snapshot", "check"]) for _ in range(rng.randint(2, 4))]
        steps = [["run", "", c, t + 2 + i] for i, c in enumerate(cmds)] + [["run", "", rng.choice(["summary", "files"]), t + 8]]
    return {"tag": "state-file-language", "kind": "fixed" if fixed else "statelang", "git": git, "files": files, "steps": steps, "limits": {}}


def unwritable_case(rng, fixed=None):
    """The cache cannot be written back: cache.json is replaced by a directory between runs, or a regular file occupies
    the name of the state directory. An unusable cache is ignored, never fatal and never a reason for another exit
    code, also when warnings count as errors (--strict, --warnings-as-errors, [check] warnings_as_errors)."""
    t = T0 if fixed else T0 + rng.randrange(0, 1000)
    blocker = fixed or rng.choice(["cachedir", "statefile", "cachedir-late"])
    strict = ["--strict"] if fixed else rng.choice([["--strict"], ["--strict"], ["--warnings-as-errors"], [], "config"])
    cfg = 'version = "2"\n\n[content]\nmax_lines = %d\n' % (100 if fixed else rng.choice([100, 100, 3, 2]))
    if strict == "config":
        cfg += '\n[check]\nwarnings_as_errors = true\n'
        strict = []
    files = [[".sloc-guard.toml", cfg, t], ["main.rs", U_TEXTS[0], t]]
    if not fixed and rng.random() < 0.5:
        files.append(["src/b.rs", rng.choice(U_TEXTS), t])
    steps = []
    if blocker == "statefile":
        steps.append(["block", "statefile"])
    else:
        steps.append(["run", "", "check", t + 2, strict])
        if blocker == "cachedir-late":
            steps.append(["run", "", rng.choice(["check", "summary", "files"]), t + 3, []])
        steps.append(["block", "cachedir"])
    steps.append(["run", "", "check", t + 4, strict])
    if not fixed:
        steps += [["write", "main.rs", rng.choice(U_TEXTS), t + 5], ["run", "", rng.choice(["check", "summary", "files"]), t + 6, []], ["run", "", "check", t + 7, strict]]
    return {"tag": "unwritable-cache", "kind": "fixed" if fixed else "unwritable", "git": False, "files": files, "steps": steps, "limits": {}, "blocker": blocker}


def universe_fixed():
    """Always run first: the two minimal witnesses (seeded C12-m7 layout; D91)."""
    t = T0
    nested = {"tag": "nested-structure", "kind": "fixed", "git": False, "limits": {"max_dirs": 1},
              "files": [[".sloc-guard.toml", 'version = "2"\n\n[structure]\nmax_dirs = 1\n', t],
                        ["services/api/.sloc-guard.toml", 'version = "2"\n\n[content]\nmax_lines = 100\n', t],
                        ["services/api/src/main.rs", U_TEXTS[0], t]],
              "steps": [["run", "services/api", "check", t + 2], ["run", "", "check", t + 3]]}
    git = {"tag": "git-state-dir", "kind": "fixed", "git": True, "limits": {"max_dirs": 5}, "exclude": ["target/**"],
           "files": [[".sloc-guard.toml", 'version = "2"\n\n[scanner]\nexclude = ["target/**"]\n\n[structure]\nmax_dirs = 5\n', t],
                     ["src/a/m.rs", U_TEXTS[0], t]],
           "steps": [["run", "", "check", t + 2], ["run", "", "check", t + 3]]}
    return [nested, git, statelang_case(None, fixed=True), unwritable_case(None, fixed="cachedir"), unwritable_case(None, fixed="statefile")]


def replay_universes(exe, case, threads="2"):
    """Run the case in two project copies. -> list of {"step", "cached": (rc, out, err), "uncached": (...)} per run step."""
    import subprocess
    res = {}
    for uni, flag in (("cached", []), ("uncached", ["--no-sloc-cache"])):
        outs = []
        with Sandbox("sgv-c12u-") as sb:
            if case.get("git"):
                subprocess.run(["git", "init", "-q", sb.proj], env=sb.env, capture_output=True, timeout=60)
            for rel, text, mt in case["files"]:
                os.utime(sb.write(rel, text), (mt, mt))
            for st in case["steps"]:
                if st[0] == "write":
                    os.utime(sb.write(st[1], st[2]), (st[3], st[3]))
                elif st[0] == "rm":
                    fp = os.path.join(sb.proj, st[1])
                    if os.path.lexists(fp):
                        os.remove(fp)
                elif st[0] == "block":
                    sd = os.path.join(sb.proj, ".sloc-guard")
                    if st[1] == "statefile":                     # a regular file where the state directory would go
                        if not os.path.lexists(sd):
                            open(sd, "w").close()
                    else:                                        # cache.json replaced by a directory
                        cj = os.path.join(sd, "cache.json")
                        if os.path.isfile(cj):
                            os.remove(cj)
                        os.makedirs(cj, exist_ok=True)
                else:
                    cwd, cmd, t = st[1:4]
                    extra = list(st[4]) if len(st) > 4 else []
                    rc, out, err = sb.run(exe, cmd_args(cmd, []) + extra + flag, cwd=os.path.join(sb.proj, cwd) if cwd else sb.proj,
                                          env={"SGV_NOW": str(t), "RAYON_NUM_THREADS": threads})
                    for root in (os.path.realpath(sb.proj), sb.proj):
                        out, err = out.replace(root, "<P>"), err.replace(root, "<P>")
                    outs.append((rc, normalise(cmd, out, sb.proj), err))
            # the project entries the tool left behind (for the report only)
            left = []
            for dp, dn, fn in os.walk(sb.proj):
                for d in dn:
                    if d in (".sloc-guard", "sloc-guard"):
                        left.append(os.path.relpath(os.path.join(dp, d), sb.proj))
            res[uni] = (outs, sorted(left))
    runs = [s for s in case["steps"] if s[0] == "run"]
    return [{"step": s, "cached": c, "uncached": u} for s, c, u in zip(runs, res["cached"][0], res["uncached"][0])], \
        {"cached": res["cached"][1], "uncached": res["uncached"][1]}
