"""C12: history generator, CLI replay (paired cached / --no-sloc-cache runs) and model wire format."""
import hashlib
import json
import os
from vlib import *  # noqa

T0 = 1_700_000_000
EXTS = {1: "rs", 2: "py", 3: "c", 10: "foo", 11: "bar", 0: "zzz",       # model extension id -> real extension
        12: "r", 13: "s", 14: "p", 15: "y"}                             # pieces of rs / py (extension-list boundary edits)
BUILTIN_SYNTAX = {1: "ext:rs", 2: "ext:py", 3: "ext:c"}
# custom languages: model language id -> (name, single-line markers, multi-line pairs)
CUSTOM = {100: ("Hashy", ["#"], []), 101: ("Semi", [";;"], [["<<", ">>"]]), 102: ("Dashy", ["--"], []), 103: ("Slashy", ["//"], [["/*", "*/"]]),
          # variants that differ from another definition only by where a list boundary lies, by an empty item,
          # by swapped markers, by the name, or by one more pair (same name = an edit of that definition)
          104: ("Hashy", ["#", "!"], []), 105: ("Hashy", ["#!"], []), 106: ("Hashy", ["#", ""], []),
          107: ("Semi", [";;"], [[">>", "<<"]]), 108: ("Semi2", [";;"], [["<<", ">>"]]), 109: ("Slashy", ["/", "/"], [["/*", "*/"]]),
          110: ("Semi", [";;"], [["<<", ">>"], ["/*", "*/"]]), 111: ("Semi", [";", ";"], [["<<", ">>"]])}
# (table A, table B, extension id of the file to look at): a SetLanguages A -> B (or B -> A) edit that a hash
# which loses list boundaries / names / order would not notice
BOUNDARY_PAIRS = [
    ([(10, 104)], [(10, 105)], 10),              # single_line_comments ["#","!"] <-> ["#!"]
    ([(10, 100)], [(10, 106)], 10),              # ["#"] <-> ["#",""]   (empty item)
    ([(10, 100)], [(10, 104)], 10),              # ["#"] <-> ["#","!"]
    ([(10, 103)], [(10, 109)], 10),              # ["//"] <-> ["/","/"]
    ([(10, 101)], [(10, 111)], 10),              # [";;"] <-> [";",";"]
    ([(1, 100)], [(12, 100), (13, 100)], 1),     # extensions ["rs"] <-> ["r","s"]: .rs is Hashy or built-in Rust
    ([(2, 103)], [(14, 103), (15, 103)], 2),     # extensions ["py"] <-> ["p","y"]
    ([(10, 100), (11, 100)], [(10, 100)], 11),   # extensions ["foo","bar"] <-> ["foo"]
    ([(10, 101)], [(10, 107)], 10),              # multi-line pair start/end swapped
    ([(10, 101)], [(10, 110)], 10),              # one more multi-line pair
    ([(10, 101)], [(10, 108)], 10),              # language renamed, identical content
    ([(10, 100)], [(10, 102)], 10),              # another language altogether
]
STEMS = {1: "src/f1", 2: "src/f2", 3: "src/g3", 4: "lib/h4", 5: "lib/deep/k5"}
LINES = ["x=12345;", "// ccccc", "# cccccc", ";; ccccc", "-- ccccc", "        ", "/* cc */", "<< cc >>", "y = f(1)",
         "!ccccccc", "#!cccccc", "/x=1234;", ">> cc <<", "; cccccc"]
DIRECTIVES = ["// sloc-guard:ignore-file", "# sloc-guard:ignore-file", ";; sloc-guard:ignore-file"]
CMDS = ["check", "summary", "files", "snapshot"]


def enc(s):
    return ",".join(str(ord(c)) for c in s) if s else "-"


def real_path(p):
    return "%s.%s" % (STEMS[p[0]], EXTS[p[1]])


def wpath(p):
    return "%d.%d" % p


def custom_syntax_wire(lid):
    _, single, multi = CUSTOM[lid]
    items = ["S=" + enc(s) for s in single] + ["M=%s:%s:0:0:0" % (enc(a), enc(b)) for a, b in multi]
    return ";".join(items) if items else ";"


def make_contents(rng, n=20):
    """Pool of texts; many share a size (every ordinary line is 8 characters + newline)."""
    pool, seen = [], set()
    while len(pool) < n:
        k = rng.choice([1, 2, 2, 3, 3, 4])
        lines = [rng.choice(LINES) for _ in range(k)]
        if rng.random() < 0.12:
            lines[0] = rng.choice(DIRECTIVES)
        t = "\n".join(lines) + "\n"
        if t not in seen:
            seen.add(t)
            pool.append(t)
    return pool


def truth_table(counter_exe, contents):
    """(language id, cid) -> (t,c,m,b,i) | None, computed with the real counter (sgv-counter), no cache involved."""
    langs = list(BUILTIN_SYNTAX.items()) + [(l, custom_syntax_wire(l)) for l in CUSTOM]
    lines, keys = [], []
    for cid, text in enumerate(contents, 1):
        for lid, sy in langs:
            lines.append("count\t%s\t%s" % (sy, enc(text)))
            keys.append((lid, cid))
    outs, rc, err = run_lines(counter_exe, lines, args=["run"])
    if len(outs) != len(lines):
        raise CheckBroken("sgv-counter died: " + err)
    tab = {}
    for k, o in zip(keys, outs):
        f = o.split(" ")
        if f[0] == "OK":
            tab[k] = tuple(int(x) for x in f[1:6])
        elif f[0] == "IGN":
            tab[k] = None
        else:
            raise CheckBroken("sgv-counter answer: " + o)
    return tab


def contents_wire(contents, tab):
    out = []
    for cid, text in enumerate(contents, 1):
        ts = []
        for (lid, c), v in sorted(tab.items()):
            if c == cid:
                ts.append("%d=%s" % (lid, "I" if v is None else ".".join(map(str, v))))
        out.append("%d:%d:%s" % (cid, len(text.encode()), "/".join(ts)))
    return ";".join(out)


def canon_langs(table):
    """Canonical table: definitions in name order (as compute_config_hash and TOML see them), extensions in the
    given order, one definition per name, one owner per extension."""
    groups, seen_ext = [], set()
    for e, l in table:
        if e in seen_ext:
            continue
        seen_ext.add(e)
        for g in groups:
            if g[0] == l:
                g[1].append(e)
                break
        else:
            if all(CUSTOM[g[0]][0] != CUSTOM[l][0] for g in groups):
                groups.append((l, [e]))
    groups.sort(key=lambda g: CUSTOM[g[0]][0])
    return [(e, l) for l, es in groups for e in es]


def table_key(table):
    """What the [languages] section says, as a value (the thing the hash must be injective on)."""
    by = {}
    for e, l in table:
        by.setdefault(l, []).append(EXTS[e])
    return tuple(sorted((CUSTOM[l][0], tuple(es), tuple(CUSTOM[l][1]), tuple(map(tuple, CUSTOM[l][2]))) for l, es in by.items()))


def rand_langs(rng, many=False):
    r0 = rng.random()
    if r0 < 0.30:
        a, b, _ = rng.choice(BOUNDARY_PAIRS)
        return canon_langs(rng.choice([a, b]))
    return canon_langs(_rand_langs(rng, many))


def _rand_langs(rng, many=False):
    """[languages]: list of (ext id, custom language id), single-owner extensions."""
    r = rng.random()
    if r < 0.35:
        return []
    exts = [10, 11, 1, 2]
    rng.shuffle(exts)
    k = 1 if (r < 0.85 and not many) else 2
    return [(e, rng.choice(list(CUSTOM))) for e in exts[:k]] if k == 1 else \
        [(e, l) for e, l in zip(exts[:2], rng.sample(list(CUSTOM), 2))]


def rand_history(rng, ncontents, nops=None, corrupt=True):
    """Structure-directed history: mostly writes/runs with small clock steps (0, 1, 2, 100), same-size rewrites,
    same-second rewrites, deletes, renames, [languages] changes, cache corruption."""
    nops = nops or rng.randint(5, 14)
    t = T0 + rng.randrange(0, 1000)
    paths = [(s, e) for s in STEMS for e in (1, 2, 10, 0, 3, 11)]
    live = {}
    h = []
    sizes = {}
    for _ in range(rng.randint(1, 3)):
        p = rng.choice(paths[:12])
        c = rng.randint(1, ncontents)
        h.append(("W", p, c, t))
        live[p] = c
    h.append(("X", rng.choice(CMDS), [], t + rng.choice([0, 0, 1, 5])))
    t = h[-1][3]
    for _ in range(nops):
        r = rng.random()
        t += rng.choice([0, 0, 0, 1, 1, 2, 100])
        if r < 0.30:
            p = rng.choice(list(live)) if live and rng.random() < 0.7 else rng.choice(paths)
            h.append(("W", p, rng.randint(1, ncontents), t))
            live[p] = h[-1][2]
        elif r < 0.36 and live:
            p = rng.choice(list(live))
            h.append(("D", p))
            del live[p]
        elif r < 0.46 and live:
            p = rng.choice(list(live))
            q = rng.choice(list(live)) if rng.random() < 0.5 else rng.choice(paths)
            if q != p:
                h.append(("R", p, q))
                live[q] = live.pop(p)
        elif r < 0.56:
            h.append(("L", rand_langs(rng)))
        elif r < 0.64 and corrupt:
            h.append(("C", rng.choice(["g", "v2", "v4", "v99", "h", "r", "g"])))
        else:
            ex = [rng.choice(paths)] if rng.random() < 0.15 else []
            h.append(("X", rng.choice(CMDS), ex, t))
    h.append(("X", rng.choice(CMDS), [], t + rng.choice([0, 1])))
    return h


def same_size_pairs(contents):
    by = {}
    for cid, t in enumerate(contents, 1):
        by.setdefault(len(t.encode()), []).append(cid)
    return [v for v in by.values() if len(v) >= 2]


def directed_history(rng, contents, tab):
    """Histories aimed at the D13 window and the rename collision: same size, same second."""
    groups = same_size_pairs(contents)
    if not groups:
        return rand_history(rng, len(contents))
    g = rng.choice(groups)
    a, b = rng.sample(g, 2)
    t = T0 + rng.randrange(0, 1000)
    p = (rng.choice(list(STEMS)), rng.choice([1, 2, 10]))
    kind = rng.choice(["d13", "d13", "d13-later", "rename", "rename-dir", "safe", "forge"])
    langs = rand_langs(rng)
    h = [("L", langs)] if langs else []
    if kind == "d13":            # write at t, run at t, rewrite same size at t, run (at t and later)
        h += [("W", p, a, t), ("X", rng.choice(CMDS), [], t), ("W", p, b, t), ("X", rng.choice(CMDS), [], t), ("X", rng.choice(CMDS), [], t + 5)]
    elif kind == "d13-later":    # run one second after the write: the entry is safe, a rewrite at t+1 changes the mtime
        h += [("W", p, a, t), ("X", rng.choice(CMDS), [], t + 1), ("W", p, b, t + 1), ("X", rng.choice(CMDS), [], t + 1), ("X", rng.choice(CMDS), [], t + 3)]
    elif kind in ("rename", "rename-dir"):
        q = (rng.choice(list(STEMS)), p[1])
        if q == p:
            q = ((p[0] % 5) + 1, p[1])
        h += [("W", p, a, t), ("W", q, b, t), ("X", rng.choice(CMDS), [], t + 2), ("R", p, q), ("X", rng.choice(CMDS), [], t + 4)]
    elif kind == "forge":        # well-formed in-place edit of one entry's statistics
        h += [("W", p, a, t), ("X", rng.choice(CMDS), [], t + 2), ("C", "f", p, (9, 7, 1, 1, 0)), ("X", rng.choice(CMDS), [], t + 3)]
    else:                        # same size, different second
        h += [("W", p, a, t), ("X", rng.choice(CMDS), [], t + 1), ("W", p, b, t + 2), ("X", rng.choice(CMDS), [], t + 2)]
    return h


def norm_history(h):
    """History read back from JSON (lists) -> the tuple form the generators produce."""
    out = []
    for o in h:
        k = o[0]
        if k == "W":
            out.append(("W", tuple(o[1]), o[2], o[3]))
        elif k == "D":
            out.append(("D", tuple(o[1])))
        elif k == "R":
            out.append(("R", tuple(o[1]), tuple(o[2])))
        elif k == "L":
            out.append(("L", [tuple(x) for x in o[1]]))
        elif k == "C":
            out.append(("C", "f", tuple(o[2]), tuple(o[3])) if o[1] == "f" else tuple(o))
        else:
            out.append(("X", o[1], [tuple(q) for q in o[2]], o[3]))
    return out


def boundary_history(rng, contents, tab):
    """SetLanguages A, write, run, SetLanguages B (a boundary-moving / renaming / reordering edit), run: on a file
    whose classification differs between A and B."""
    a, b, ext = rng.choice(BOUNDARY_PAIRS)
    if rng.random() < 0.5:
        a, b = b, a
    a, b = canon_langs(a), canon_langs(b)

    def lang(table):
        return dict(table).get(ext, ext if ext < 10 else None)
    la, lb = lang(a), lang(b)
    cands = [cid for cid in range(1, len(contents) + 1) if (tab.get((la, cid)) if la else "skip") != (tab.get((lb, cid)) if lb else "skip")]
    cid = rng.choice(cands) if cands else rng.randint(1, len(contents))
    t = T0 + rng.randrange(0, 1000)
    p = (rng.choice(list(STEMS)), ext)
    h = [("L", a), ("W", p, cid, t)]
    if rng.random() < 0.5:
        h.append(("W", (rng.choice(list(STEMS)), rng.choice([1, 2, 10])), rng.randint(1, len(contents)), t))
    h += [("X", rng.choice(CMDS), [], t + 2), ("L", b), ("X", rng.choice(CMDS), [], t + 3)]
    if rng.random() < 0.5:
        h += [("L", a), ("X", rng.choice(CMDS), [], t + 4)]
    return h


def ops_wire(h):
    out = []
    for o in h:
        if o[0] == "W":
            out.append("W:%s:%d:%d" % (wpath(o[1]), o[2], o[3]))
        elif o[0] == "D":
            out.append("D:" + wpath(o[1]))
        elif o[0] == "R":
            out.append("R:%s:%s" % (wpath(o[1]), wpath(o[2])))
        elif o[0] == "L":
            out.append("L:" + "/".join("%d=%d" % x for x in o[1]))
        elif o[0] == "C" and o[1] == "f":
            out.append("C:f:%s:%s" % (wpath(o[2]), ".".join(map(str, o[3]))))
        elif o[0] == "C":
            out.append("C:" + o[1])
        else:
            out.append("X:%s:%s:%d" % (o[1], "/".join(wpath(p) for p in o[2]) or "-", o[3]))
    return ",".join(out)


# ------------------------------------------------------------------ CLI replay
def config_text(langs):
    t = '[content]\nextensions = ["rs", "py", "c", "foo", "bar", "zzz", "r", "s", "p", "y"]\nmax_lines = 3\n'
    by = {}
    for e, l in langs:
        by.setdefault(l, []).append(EXTS[e])
    for l, exts in by.items():
        name, single, multi = CUSTOM[l]
        t += "\n[languages.%s]\nextensions = %s\nsingle_line_comments = %s\nmulti_line_comments = %s\n" % (
            name, json.dumps(exts), json.dumps(single), json.dumps(multi))
    return t


def cmd_args(kind, excl):
    a = {"check": ["check", "--format", "json"], "summary": ["stats", "summary", "--format", "json"],
         "files": ["stats", "files", "--format", "json"], "snapshot": ["snapshot", "--force"]}[kind]
    for p in excl:
        a += ["-x", "**/" + os.path.basename(real_path(p))]
    return ["--color", "never"] + a


def normalise(kind, out, proj):
    if kind == "snapshot":
        return "\n".join(l for l in out.splitlines() if not l.startswith("Snapshot recorded to"))
    return out


def parse_out(kind, out):
    """-> ('files', {real path: (t,c,m,b)}) or ('totals', (files, t, c, m, b)) or None."""
    try:
        if kind == "check":
            j = json.loads(out)
            return ("files", {r["path"]: (r["stats"]["total"], r["stats"]["code"], r["stats"]["comment"], r["stats"]["blank"]) for r in j["results"] if "stats" in r})
        if kind == "files":
            j = json.loads(out)
            return ("files", {r["path"]: (r["total"], r["code"], r["comment"], r["blank"]) for r in j["top_files"]})
        if kind == "summary":
            s = json.loads(out)["summary"]
            return ("totals", (s["total_files"], s["total_lines"], s["code"], s["comment"], s["blank"]))
        m = re.search(r"Files:\s+(\d+)\s+Total:\s+(\d+) lines\s+Code:\s+(\d+) lines\s+Comment:\s+(\d+) lines\s+Blank:\s+(\d+) lines", out)
        return ("totals", tuple(int(x) for x in m.groups())) if m else None
    except Exception:
        return None


def model_out(kind, seg):
    """Model output segment `1.1=t.c.m.b.i;...` in the shape parse_out gives."""
    files = {}
    if seg != "-":
        for it in seg.split(";"):
            p, s = it.split("=")
            a, b = p.split(".")
            files["./" + real_path((int(a), int(b)))] = tuple(int(x) for x in s.split("."))[:4]
    if kind in ("check", "files"):
        return ("files", files)
    vs = list(files.values())
    return ("totals", (len(vs),) + tuple(sum(v[i] for v in vs) for i in range(4)))


def read_cache(sb, contents):
    """Canonical view of .sloc-guard/cache.json in the model driver's format (hash class left to the caller)."""
    p = os.path.join(sb.proj, ".sloc-guard", "cache.json")
    if not os.path.exists(p):
        return "ABSENT", None
    try:
        j = json.load(open(p))
        hs = {hashlib.sha256(t.encode()).hexdigest(): cid for cid, t in enumerate(contents, 1)}
        inv = {"./" + real_path((s, e)): (s, e) for s in STEMS for e in EXTS}
        ents = []
        for k, e in j["files"].items():
            st = e["stats"]
            ents.append("%s@%d,%d=%d.%d.%d.%d.%d#%d" % (wpath(inv[k]), e["mtime"], e["size"], st["total"], st["code"], st["comment"], st["blank"],
                                                       st.get("ignored", 0), hs.get(e["hash"], 0)))
        return "v%d %s" % (j["version"], ";".join(sorted(ents)) or "-"), j["config_hash"]
    except Exception as ex:
        return "CORRUPT", None


def corrupt_cache(sb, kind, rng=None, offset=None, forge=None):
    p = os.path.join(sb.proj, ".sloc-guard", "cache.json")
    if kind == "f":
        # in-place edit that keeps the file well-formed: replace the statistics of one entry
        try:
            j = json.load(open(p))
            e = j["files"].get("./" + real_path(forge[0]))
            if e is not None:
                e["stats"] = dict(zip(("total", "code", "comment", "blank", "ignored"), forge[1]))
                open(p, "w").write(json.dumps(j, indent=2))
        except Exception:
            pass
        return
    if not os.path.exists(p):
        if kind in ("g",):
            os.makedirs(os.path.dirname(p), exist_ok=True)
            open(p, "wb").write(b"\x00\xffgarbage{")
        return
    data = open(p, "rb").read()
    if kind == "r":
        os.remove(p)
    elif kind == "g":
        if offset is None:
            mode = rng.choice(["trunc", "trunc", "garbage", "empty", "flip"]) if rng else "garbage"
            if mode == "trunc":
                data = data[:rng.randrange(0, max(1, len(data) - 1))]
            elif mode == "garbage":
                data = bytes(rng.randrange(256) for _ in range(rng.choice([1, 10, 100])))
            elif mode == "empty":
                data = b""
            else:
                k = rng.randrange(0, len(data) + 1)       # a raw NUL is invalid anywhere in a JSON text
                data = data[:k] + b"\x00" + data[k:]
        else:
            data = data[:offset]
        open(p, "wb").write(data)
    elif kind.startswith("v") or kind == "h":
        try:
            j = json.loads(data)
        except Exception:
            return                      # already unparsable: stays as it is (model: CCorrupt unchanged)
        if not (isinstance(j, dict) and isinstance(j.get("files"), dict)):
            return                      # valid JSON (e.g. the garbage byte `7`) but not a Cache: same
        if kind == "h":
            j["config_hash"] = "0" * 64
        else:
            j["version"] = int(kind[1:])
        open(p, "w").write(json.dumps(j, indent=2))


def replay_history(exe, contents, h, rng=None, threads="2", trunc_offsets=None):
    """Run the history on the real CLI. Returns list of per-Run dicts:
       kind, cached=(rc,out,err), uncached=(rc,out,err), cache (canonical view after the cached run), hash."""
    runs = []
    with Sandbox("sgv-c12-") as sb:
        langs = []
        sb.write(".sloc-guard.toml", config_text(langs))
        for o in h:
            if o[0] == "W":
                p = sb.write(real_path(o[1]), contents[o[2] - 1])
                os.utime(p, (o[3], o[3]))
            elif o[0] == "D":
                fp = os.path.join(sb.proj, real_path(o[1]))
                if os.path.exists(fp):
                    os.remove(fp)
            elif o[0] == "R":
                a, b = os.path.join(sb.proj, real_path(o[1])), os.path.join(sb.proj, real_path(o[2]))
                if os.path.exists(a):
                    os.makedirs(os.path.dirname(b), exist_ok=True)
                    os.rename(a, b)
            elif o[0] == "L":
                langs = o[1]
                sb.write(".sloc-guard.toml", config_text(langs))
            elif o[0] == "C":
                if o[1] == "f":
                    corrupt_cache(sb, "f", forge=(o[2], o[3]))
                else:
                    corrupt_cache(sb, o[1], rng, offset=o[2] if len(o) > 2 else None)
            else:
                env = {"SGV_NOW": str(o[3]), "RAYON_NUM_THREADS": threads}
                args = cmd_args(o[1], o[2])
                un = sb.run(exe, args + ["--no-sloc-cache"], env=env)
                ca = sb.run(exe, args, env=env)
                view, hsh = read_cache(sb, contents)
                runs.append(dict(kind=o[1], t=o[3], cached=(ca[0], normalise(o[1], ca[1], sb.proj), ca[2]),
                                 uncached=(un[0], normalise(o[1], un[1], sb.proj), un[2]), cache=view, hash=hsh, langs=list(langs)))
    return runs
