#!/usr/bin/env python3
"""Regenerate the table of section 14.6 of DESIGN.md from seeded/RESULTS.json + seeded/*/meta.json, fill the
`caught_by` field of every meta.json from the same results, and print the totals. A development tool."""
import glob, json, os, re
os.chdir("/verif")
results = json.load(open("seeded/RESULTS.json"))


def verdict(c):
    if c["exit"] == 0:
        return "missed"
    if c["input"]:
        return "input"
    if c["corr"]:
        return "corr"
    return "exit %d" % c["exit"]


def key(sid):
    p, k = sid.split("-m")
    return (p, int(k))


rows, tot = [], {"input": 0, "corr": 0, "missed": 0, "obsolete": 0, "other": 0}
notes = {"corr": [], "missed": [], "other": []}
for sid in sorted({os.path.basename(d) for d in glob.glob("seeded/C*-m*")}, key=key):
    mp = f"seeded/{sid}/meta.json"
    meta = json.load(open(mp))
    change = (meta.get("change") or "").replace("|", "\\|").replace("\n", " ")
    if "obsolete" in (meta.get("caught_by") or {}):
        rows.append(f"| {sid} | {change} | obsolete (see meta.json) | |")
        tot["obsolete"] += 1
        continue
    if sid not in results:
        continue
    ch = {k: v for k, v in results[sid]["checks"].items() if not k.startswith("_")}
    prop = sid.split("-")[0]
    own = verdict(ch[prop]) if prop in ch else "?"
    oth = ", ".join(f"{k}: {verdict(v)}" for k, v in sorted(ch.items()) if k != prop)
    rows.append(f"| {sid} | {change} | {own} | {oth} |")
    if own in ("input", "corr", "missed"):
        tot[own] += 1
    else:
        tot["other"] += 1
    if own != "input":
        notes.setdefault(own, []).append(sid)
    cb = {k: verdict(v) for k, v in sorted(ch.items())}
    if meta.get("caught_by") != cb:
        meta["caught_by"] = cb
        json.dump(meta, open(mp, "w"), indent=1, ensure_ascii=False)
        open(mp, "a").write("\n")
s = open("DESIGN.md").read()
head = "| change | what it does | own check | other checks run |\n|---|---|---|---|\n"
i = s.index(head) + len(head)
j = i
while s[j:j + 2] == "| ":
    j = s.index("\n", j) + 1
s = s[:i] + "\n".join(rows) + "\n" + s[j:]
open("DESIGN.md", "w").write(s)
print(tot, {k: v for k, v in notes.items() if v})
