(* Driver for the extracted git model (C19). One tab-separated case per line, one answer per line.
     parse   <hex>                               -> OK <hex base> <hex target> | ERR
     cmp     <tree A> <tree B>                   -> C <paths> D <paths>        (compare_trees_recursive)
     range   <tree A> <tree B> <canon>           -> OK <paths>                 (get_changed_files_range)
     diff    <tree A> <tree B> <canon> <files>   -> OK <files>                 (filter_by_git_diff, --diff)
     staged  <head|-> <index> <canon>            -> OK <paths>                 (get_staged_files)
     stagedf <head|-> <index> <canon> <files>    -> OK <files>                 (filter_by_git_diff, --staged)
     oideq   <tree A> <tree B>                   -> 0 | 1
     wf      <tree>                              -> 0 | 1
   tree  = prefix token stream: <n> then n entries; entry = b <0|1> <name> <oid> | l <name> <oid> |
           c <name> <oid> | t <name> <k> followed by k entries; names and ids are hex byte strings
   path  = hex of the slash-joined bytes; lists are space separated, - when empty
   index = entries b:<0|1>:<path>:<oid> | l:<path>:<oid> | c:<path>:<oid> | i:<path> (intent-to-add)
   canon = entries <path>=<path> (a path that is not listed does not resolve) *)
open Git_ex
let rec pos_of_int n = if n = 1 then XH else if n land 1 = 0 then XO (pos_of_int (n lsr 1)) else XI (pos_of_int (n lsr 1))
let n_of_int n = if n = 0 then N0 else Npos (pos_of_int n)
let rec int_of_pos = function XH -> 1 | XO p -> 2 * int_of_pos p | XI p -> 2 * int_of_pos p + 1
let int_of_n = function N0 -> 0 | Npos p -> int_of_pos p
let unhex (s : string) : int list =
  if s = "-" then [] else List.init (String.length s / 2) (fun i -> int_of_string ("0x" ^ String.sub s (2 * i) 2))
let str_of_hex s : str = List.map n_of_int (unhex s)
let hex_of_ints l = if l = [] then "-" else String.concat "" (List.map (Printf.sprintf "%02x") l)
let hex_of_str (s : str) = hex_of_ints (List.map int_of_n s)
(* path <-> slash-joined bytes *)
let path_of_hex s : path =
  if s = "-" then [] else
  let rec split cur acc = function
    | [] -> List.rev (List.rev cur :: acc)
    | 47 :: r -> split [] (List.rev cur :: acc) r
    | c :: r -> split (c :: cur) acc r in
  List.map (List.map n_of_int) (split [] [] (unhex s))
let hex_of_path (p : path) =
  hex_of_ints (List.concat (List.mapi (fun i nm -> (if i > 0 then [47] else []) @ List.map int_of_n nm) p))
let words s = if s = "-" || s = "" then [] else List.filter (fun w -> w <> "") (String.split_on_char ' ' s)
let parse_tree (s : string) : (name * gentry) list option =
  if s = "-" then None else begin
    let toks = ref (words s) in
    let next () = match !toks with t :: r -> toks := r; t | [] -> failwith "tree: truncated" in
    let rec entries k = if k = 0 then [] else let e = entry () in e :: entries (k - 1)
    and entry () =
      match next () with
      | "b" -> let x = next () in let nm = next () in let oid = next () in (str_of_hex nm, Blob (x = "1", str_of_hex oid))
      | "l" -> let nm = next () in let oid = next () in (str_of_hex nm, Link (str_of_hex oid))
      | "c" -> let nm = next () in let oid = next () in (str_of_hex nm, Commit (str_of_hex oid))
      | "t" -> let nm = next () in let k = int_of_string (next ()) in let es = entries k in (str_of_hex nm, Tree es)
      | t -> failwith ("tree: bad token " ^ t) in
    let n = int_of_string (next ()) in
    let es = entries n in
    if !toks <> [] then failwith "tree: trailing tokens";
    Some es
  end
let tree_or_empty s = match parse_tree s with Some es -> es | None -> []
let parse_index (s : string) : index =
  List.map (fun w -> match String.split_on_char ':' w with
    | ["b"; x; p; oid] -> (path_of_hex p, IBlob (x = "1", str_of_hex oid))
    | ["l"; p; oid] -> (path_of_hex p, ILink (str_of_hex oid))
    | ["c"; p; oid] -> (path_of_hex p, ICommit (str_of_hex oid))
    | ["i"; p] -> (path_of_hex p, IIntent)
    | _ -> failwith "index entry") (words s)
let parse_canon (s : string) =
  let tbl = Hashtbl.create 64 in
  List.iter (fun w -> match String.split_on_char '=' w with
    | [a; b] -> Hashtbl.replace tbl a (path_of_hex b)
    | _ -> failwith "canon entry") (words s);
  (* the oracle handed to the model: a lookup keyed by the spelled path *)
  fun (p : path) -> Hashtbl.find_opt tbl (hex_of_path p)
let parse_paths s = List.map path_of_hex (words s)
let show_set (ps : path list) = String.concat " " (List.sort_uniq compare (List.map hex_of_path ps))
let show_list (ps : path list) = String.concat " " (List.map hex_of_path ps)
let ok s = if s = "" then "OK" else "OK " ^ s
let answer line =
  match String.split_on_char '\t' line with
  | ["parse"; h] ->
    (match parse_diff_range (str_of_hex h) with
     | RangeErr -> "ERR"
     | RangeOk (b, t) -> Printf.sprintf "OK %s %s" (hex_of_str b) (hex_of_str t))
  | ["cmp"; a; b] ->
    let r = compare_trees_recursive (tree_or_empty a) (tree_or_empty b) in
    Printf.sprintf "C %s D %s" (show_set (paths_with Chg r)) (show_set (paths_with Del r))
  | ["range"; a; b; c] ->
    ok (show_set (get_changed_files_range (parse_canon c) (tree_or_empty a) (tree_or_empty b)))
  | ["diff"; a; b; c; f] ->
    ok (show_list (diff_files (parse_canon c) (tree_or_empty a) (tree_or_empty b) (parse_paths f)))
  | ["staged"; h; i; c] ->
    ok (show_set (get_staged_files (parse_canon c) (parse_tree h) (parse_index i)))
  | ["stagedf"; h; i; c; f] ->
    ok (show_list (staged_files (parse_canon c) (parse_tree h) (parse_index i) (parse_paths f)))
  | ["oideq"; a; b] -> if oid_eqb (Tree (tree_or_empty a)) (Tree (tree_or_empty b)) then "1" else "0"
  | ["wf"; a] -> if wfb (Tree (tree_or_empty a)) then "1" else "0"
  | _ -> "BADLINE"
let () =
  try while true do
    let line = input_line stdin in
    print_endline (try answer line with Failure m -> "BAD " ^ m)
  done with End_of_file -> ()
