(* Driver for the extracted state-file models (State/AtomicWrite.v, State/Concurrency.v).
   One request per line (tab separated), one answer per line.
     points
     crash <kind> <prior|-> <new> <size> <k>
     sched <prior|-> <polls> <pts,..> <pid:cmd;..> <pid,pid,..|->
   values: comma separated entry ids, e = empty list; - = absent.
   cmd: snap:<e> | snapu:<e> (no update lock) | asnap:<e> (check's auto-snapshot) | hist | ub:<ids> | cb | cc:<ids> *)
open State_ex
let rec pos_of_int n = if n = 1 then XH else if n land 1 = 0 then XO (pos_of_int (n lsr 1)) else XI (pos_of_int (n lsr 1))
let n_of_int n = if n = 0 then N0 else Npos (pos_of_int n)
let rec int_of_pos = function XH -> 1 | XO p -> 2 * int_of_pos p | XI p -> 2 * int_of_pos p + 1
let int_of_n = function N0 -> 0 | Npos p -> int_of_pos p
let rec nat_of_int n = if n <= 0 then O else S (nat_of_int (n - 1))
let rec int_of_nat = function O -> 0 | S k -> 1 + int_of_nat k
let char_of_ascii (Ascii (b0, b1, b2, b3, b4, b5, b6, b7)) =
  let b x i = if x then 1 lsl i else 0 in
  Char.chr (b b0 0 + b b1 1 + b b2 2 + b b3 3 + b b4 4 + b b5 5 + b b6 6 + b b7 7)
let rec ostr (s : State_ex.string) : String.t =
  match s with EmptyString -> "" | String (a, tl) -> String.make 1 (char_of_ascii a) ^ ostr tl
let ascii_of_char c =
  let n = Char.code c in let b i = (n lsr i) land 1 = 1 in
  Ascii (b 0, b 1, b 2, b 3, b 4, b 5, b 6, b 7)
let cstr (s : String.t) : State_ex.string =
  let r = ref EmptyString in
  for i = String.length s - 1 downto 0 do r := String (ascii_of_char s.[i], !r) done; !r

let value_of s = if s = "e" || s = "" then [] else List.map (fun t -> n_of_int (int_of_string t)) (String.split_on_char ',' s)
let show_value v = if v = [] then "e" else String.concat "," (List.map (fun x -> string_of_int (int_of_n x)) v)
let prior_of s = if s = "-" then None else Some (ser (value_of s))
(* classify a byte string the way the check classifies a real file *)
let show_bytes b =
  match b with
  | [] -> "empty"
  | _ -> (match parse b with Some v -> "val:" ^ show_value v | None -> "torn")
let show_file = function None -> "absent" | Some b -> show_bytes b
let kind_of = function "baseline" -> Baseline | "history" -> History | "cache" -> Cache | _ -> failwith "kind"
let show_outcome = function
  | Proceed v -> "proceed:" ^ show_value v
  | ProceedDiscarding -> "discard"
  | ExitNotFound -> "notfound"
  | ExitParse -> "parse"
let cmd_of s =
  match String.split_on_char ':' s with
  | ["snap"; e] -> cmd_snapshot (n_of_int (int_of_string e))
  | ["snapu"; e] -> cmd_snapshot_unlocked (n_of_int (int_of_string e))
  | ["asnap"; e] -> cmd_auto_snapshot (n_of_int (int_of_string e))
  | ["hist"] -> cmd_stats_history
  | ["ub"; v] -> cmd_update_baseline (value_of v)
  | ["cb"] -> cmd_check_baseline
  | ["cc"; v] -> cmd_check_cache (value_of v)
  | _ -> failwith ("cmd " ^ s)
let show_phase = function
  | PDone -> "done" | PFail -> "fail" | PLoad _ -> "loading" | PComp -> "comp" | PStart -> "start"
  | PSave _ -> "saving" | PAck -> "ack" | PUpd _ -> "upd" | PRel _ -> "rel"
let rest_point (r : proc) = if finished r then "exit" else match r.trace with x :: _ -> ostr x | [] -> "spawn"
let show_proc s p =
  match s.procs p with
  | None -> "?"
  | Some r ->
    Printf.sprintf "%d/%s/ack=%b/saved=%s/lerr=%b/loaded=%s/temp=%s/reads=%s/trace=%s"
      (int_of_n p) (show_phase r.ph) r.acked
      (match r.saved with None -> "none" | Some true -> "saved" | Some false -> "skipped")
      r.lerr (show_value r.loaded)
      (show_file (read_name s.sfs (Temp p)))
      (String.concat ";" (List.rev_map show_bytes r.reads))
      (String.concat "," (List.rev_map ostr r.trace))
let show_ev = function EvStuck -> "stuck" | EvPoll -> "poll" | EvAdv -> "adv" | EvTimeout -> "timeout"

let () =
  try while true do
    let line = input_line stdin in
    (try
      match String.split_on_char '\t' line with
      | ["points"] -> print_endline (String.concat "," (List.map ostr points))
      | ["crash"; kind; prior; nw; size; k] ->
        let nb = ser (value_of nw) in
        let f = crash (prior_of prior) nb (n_of_int (int_of_string size)) (nat_of_int (int_of_string k)) in
        let temp = match temp_of f with
          | None -> "absent"
          | Some b -> if b = nb then "full" else if b = [] then "empty" else "partial" in
        Printf.printf "target=%s\ttemp=%s\tnext=%s\n" (show_file (target f)) temp (show_outcome (load_kind (kind_of kind) f))
      | ["hist"; prior; hist; nw; size; k] ->
        (* a history of crashed saves of one recycled pid  c:size:k;...  then a save of <new> crashed at k (9 = complete) *)
        let h = if hist = "-" then [] else List.map (fun item ->
            match String.split_on_char ':' item with
            | [c; sz; k] -> ((ser (value_of c), n_of_int (int_of_string sz)), nat_of_int (int_of_string k))
            | _ -> failwith "hist") (String.split_on_char ';' hist) in
        let nb = ser (value_of nw) in
        let f0 = after_crashes (fs_init (prior_of prior)) h in
        let f = crash_from f0 nb (n_of_int (int_of_string size)) (nat_of_int (int_of_string k)) in
        let show_temp g = match temp_of g with None -> "absent" | Some b -> show_bytes b in
        Printf.printf "stale=%s\ttarget=%s\ttemp=%s\n" (show_temp f0) (show_file (target f)) (show_temp f)
      | ["wait"; timeout; mode] ->
        let next = if mode = "double" then (fun x -> State_ex.N.add x x) else (fun x -> x) in
        Printf.printf "%d\n" (int_of_n (total_wait (n_of_int (int_of_string timeout)) lock_poll_interval_ms next))
      | ["crashraw"; prior; nw; size; k] ->
        let f = crash (prior_of prior) (ser (value_of nw)) (n_of_int (int_of_string size)) (nat_of_int (int_of_string k)) in
        let enc = function None -> [7] | Some b -> 8 :: List.map int_of_n b in
        let code = function Proceed _ -> 1 | ProceedDiscarding -> 2 | ExitNotFound -> 3 | ExitParse -> 4 in
        print_endline (String.concat "," (List.map string_of_int
          (enc (target f) @ [99] @ enc (temp_of f) @ [99] @ [code (load_kind Baseline f); code (load_kind History f)])))
      | ["sched"; prior; polls; pts; cmds; sched] ->
        let pts = List.map cstr (List.filter (fun x -> x <> "") (String.split_on_char ',' pts)) in
        let cl = List.map (fun item ->
            match String.index_opt item '=' with
            | Some i -> (n_of_int (int_of_string (String.sub item 0 i)), cmd_of (String.sub item (i + 1) (String.length item - i - 1)))
            | None -> failwith "cmds") (String.split_on_char ';' cmds) in
        let pids = List.map fst cl in
        let s = ref (init_sys (prior_of prior) (nat_of_int (int_of_string polls)) cl) in
        let plan = Buffer.create 256 in
        let do_ev p =
          let (s', r) = event pts !s p in
          s := s';
          let where = match s'.procs p with Some pr -> rest_point pr | None -> "?" in
          Buffer.add_string plan (Printf.sprintf "%d:%s:%s " (int_of_n p) (show_ev r) where);
          r in
        if sched <> "-" then
          List.iter (fun t -> ignore (do_ev (n_of_int (int_of_string t)))) (String.split_on_char ',' sched);
        Buffer.add_string plan "/ ";
        (* drain: every process in pid order until it has finished *)
        List.iter (fun p ->
            let n = ref 0 in
            while !n < 400 && do_ev p <> EvStuck do incr n done) (List.sort (fun a b -> compare (int_of_n a) (int_of_n b)) pids);
        Printf.printf "%s\ttarget=%s\tvers=%s\t%s\n" (String.trim (Buffer.contents plan)) (show_file (final_target !s))
          (String.concat ";" (List.rev_map (fun (p, b) -> string_of_int (int_of_n p) ^ ">" ^ show_bytes b) !s.vers))
          (String.concat "\t" (List.map (show_proc !s) (List.sort (fun a b -> compare (int_of_n a) (int_of_n b)) pids)))
      | ["schedraw"; prior; polls; pts; cmds; sched] ->
        (* no drain; prints  final value / per process: acked, saved, finished  as numbers (cross-check against vm_compute) *)
        let pts = List.map cstr (List.filter (fun x -> x <> "") (String.split_on_char ',' pts)) in
        let cl = List.map (fun item ->
            match String.index_opt item '=' with
            | Some i -> (n_of_int (int_of_string (String.sub item 0 i)), cmd_of (String.sub item (i + 1) (String.length item - i - 1)))
            | None -> failwith "cmds") (String.split_on_char ';' cmds) in
        let s = ref (init_sys (prior_of prior) (nat_of_int (int_of_string polls)) cl) in
        if sched <> "-" then
          List.iter (fun t -> s := fst (event pts !s (n_of_int (int_of_string t)))) (String.split_on_char ',' sched);
        let fv = match final_target !s with
          | None -> [0]
          | Some b -> (match parse b with Some v -> 1 :: List.map int_of_n v | None -> [2]) in
        let per = List.concat_map (fun (p, _) ->
            match !s.procs p with
            | None -> [7]
            | Some r -> [ (if r.acked then 1 else 0);
                          (match r.saved with None -> 0 | Some true -> 1 | Some false -> 2);
                          (if finished r then 1 else 0) ]) (List.sort (fun (a, _) (b, _) -> compare (int_of_n a) (int_of_n b)) cl) in
        print_endline (String.concat "," (List.map string_of_int (fv @ [99] @ per)))
      | _ -> print_endline "BADLINE"
    with Failure m -> print_endline ("ERROR " ^ m))
  done with End_of_file -> ()
