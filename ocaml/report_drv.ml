(* Driver for the extracted report model (C20). One tab-separated case per line on stdin, one
   result per line on stdout.
     strings   : comma-separated scalar values, "-" for the empty string
     results   : ";"-separated  status|path|total|code|comment|blank[|1]   (status 0..3 = P W F G; a seventh
                 field 1 marks a structure result), "-" for none
     files     : ";"-separated  path|lang|total|code|comment|blank, "-" for none
     pi        : comma-separated naturals (selection code), "-" for the empty code
   commands  : summary R | listed FMT VERBOSE R | agg V R | totals F | bylang V PI F | bydir V DEPTH PI F
               | reg V PI BUILTIN CUSTOMS EXTS | roots ROOTS | esc S | uri BYTES | eff T C M B SKIPC SKIPB | exit R WARNONLY WAE RATCHET *)
open Report_ex
let rec pos_of_int n = if n = 1 then XH else if n land 1 = 0 then XO (pos_of_int (n lsr 1)) else XI (pos_of_int (n lsr 1))
let n_of_int n = if n = 0 then N0 else Npos (pos_of_int n)
let rec int_of_pos = function XH -> 1 | XO p -> 2 * int_of_pos p | XI p -> 2 * int_of_pos p + 1
let int_of_n = function N0 -> 0 | Npos p -> int_of_pos p
let rec nat_of_int n = if n <= 0 then O else S (nat_of_int (n - 1))
let dec s = if s = "" || s = "-" then [] else List.map (fun t -> n_of_int (int_of_string t)) (String.split_on_char ',' s)
let enc l = if l = [] then "-" else String.concat "," (List.map (fun c -> string_of_int (int_of_n c)) l)
let items s = if s = "" || s = "-" then [] else String.split_on_char ';' s
let pi_of s = if s = "" || s = "-" then [] else List.map (fun t -> nat_of_int (int_of_string t)) (String.split_on_char ',' s)
let status_of = function "0" -> Passed | "1" -> Warning | "2" -> Failed | _ -> Grandfathered
let status_str = function Passed -> "0" | Warning -> "1" | Failed -> "2" | Grandfathered -> "3"
let ls t c m b = { l_total = n_of_int (int_of_string t); l_code = n_of_int (int_of_string c);
                   l_comment = n_of_int (int_of_string m); l_blank = n_of_int (int_of_string b) }
let result_of s = match String.split_on_char '|' s with
  | [st; p; t; c; m; b] ->
    { r_path = dec p; r_status = status_of st; r_stats = ls t c m b; r_raw = Some (ls t c m b); r_limit = N0;
      r_reason = None; r_sugg = None; r_structure = false }
  | [st; p; t; c; m; b; "1"] ->
    (* a structure result: synthetic count in the statistics, no raw statistics *)
    { r_path = dec p; r_status = status_of st; r_stats = ls t c m b; r_raw = None; r_limit = N0;
      r_reason = None; r_sugg = None; r_structure = true }
  | _ -> failwith "bad result"
let file_of s = match String.split_on_char '|' s with
  | [p; l; t; c; m; b] -> { f_path = dec p; f_lang = dec l; f_stats = ls t c m b }
  | _ -> failwith "bad file"
let summ s = Printf.sprintf "%d %d %d %d %d" (int_of_n s.s_total) (int_of_n s.s_passed) (int_of_n s.s_warnings)
    (int_of_n s.s_failed) (int_of_n s.s_grandfathered)
let groups gs = if gs = [] then "-" else String.concat ";" (List.map (fun g ->
    Printf.sprintf "%s|%d|%d|%d|%d|%d" (enc g.g_key) (int_of_n g.g_files) (int_of_n g.g_lines) (int_of_n g.g_code)
      (int_of_n g.g_comment) (int_of_n g.g_blank)) gs)
let fmt_of = function "text" -> FText | "json" -> FJson | "sarif" -> FSarif | "markdown" -> FMarkdown | _ -> FHtml
let () =
  try while true do
    let line = input_line stdin in
    (try
      match String.split_on_char '\t' line with
      | ["summary"; r] ->
        let rs = List.map result_of (items r) in
        print_endline (summ (summarize rs) ^ " | " ^ summ (text_summary rs))
      | ["listed"; f; v; r] ->
        let rs = List.map result_of (items r) in
        let es = listed (fmt_of f) (v = "1") rs in
        print_endline (if es = [] then "-" else String.concat ";" (List.map (fun (p, st) -> status_str st ^ "|" ^ enc p) es))
      | ["agg"; v; r] ->
        let a = (if v = "0" then html_aggregate_v0 else html_aggregate) (List.map result_of (items r)) in
        Printf.printf "%d %d %d %d\n" (int_of_n a.l_total) (int_of_n a.l_code) (int_of_n a.l_comment) (int_of_n a.l_blank)
      | ["totals"; f] ->
        let t = project_totals (List.map file_of (items f)) in
        Printf.printf "%d %d %d %d %d\n" (int_of_n t.t_files) (int_of_n t.t_lines) (int_of_n t.t_code) (int_of_n t.t_comment) (int_of_n t.t_blank)
      | ["bylang"; v; pi; f] ->
        let fs = List.map file_of (items f) in
        print_endline (groups ((if v = "0" then by_language_v0 else by_language) (pi_of pi) fs))
      | ["bydir"; v; d; pi; f] ->
        let fs = List.map file_of (items f) in
        let depth = if d = "-" then None else Some (nat_of_int (int_of_string d)) in
        print_endline (groups ((if v = "0" then by_directory_v0 else by_directory) depth (pi_of pi) fs))
      | ["reg"; v; pi; b; c; e] ->
        let builtin = List.map (fun it -> match String.split_on_char '=' it with [x; n] -> (dec x, dec n) | _ -> failwith "bad builtin") (items b) in
        let customs = List.map (fun it -> match String.split_on_char '=' it with
            | [n; xs] -> { c_name = dec n; c_exts = (if xs = "" then [] else List.map dec (String.split_on_char '+' xs)) }
            | _ -> failwith "bad custom") (items c) in
        let f = if v = "0" then language_of_v0 else language_of in
        print_endline (String.concat ";" (List.map (fun x -> match f (pi_of pi) builtin customs (dec x) with
            | None -> "?" | Some n -> enc n) (items e)))
      | ["roots"; r] ->
        (* r = ";"-separated roots, each "." (the current directory) or "/"-separated encoded components *)
        let path_of x = if x = "." then [] else List.map dec (String.split_on_char '/' x) in
        let show p = if p = [] then "." else String.concat "/" (List.map enc p) in
        let roots = List.map path_of (items r) in
        let kept = drop_covered roots in
        print_endline ((if kept = [] then "-" else String.concat ";" (List.map show kept)) ^ "\t" ^ (if roots_overlap roots then "1" else "0"))
      | ["esc"; s] ->
        let s = dec s in
        let e = html_escape s in
        print_endline (enc e ^ "\t" ^ enc (html_escape_spec s) ^ "\t" ^ (if html_safe e then "1" else "0") ^ "\t" ^ enc (html_unescape e))
      | ["uri"; s] ->
        (* s = the UTF-8 bytes of a display path *)
        let e = uri_encode (dec s) in
        print_endline (enc e ^ "\t" ^ (if uri_ok e then "1" else "0") ^ "\t" ^ enc (uri_decode e))
      | ["eff"; t; c; m; b; sc; sb] ->
        let e = effective (ls t c m b) (sc = "1") (sb = "1") in
        Printf.printf "%d %d %d %d\n" (int_of_n e.l_total) (int_of_n e.l_code) (int_of_n e.l_comment) (int_of_n e.l_blank)
      | ["exit"; r; wo; wae; rf] ->
        Printf.printf "%d\n" (int_of_n (exit_code (List.map result_of (items r)) (wo = "1") (wae = "1") (rf = "1")))
      | _ -> print_endline "BADLINE"
    with Failure m -> print_endline ("ERR " ^ m));
    flush stdout
  done with End_of_file -> ()
