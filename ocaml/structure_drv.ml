(* Driver for the extracted structure model (C06, C07).  One case per line:
     <mode> <s-expression of integers>      mode = run | checkmap | pathfns | warnpoint | basedepth | stemfns | roots
   tokens are separated by blanks: "(" ")" and decimal integers.  One result s-expression per line.
   All decoding of the case happens inside the extracted Gallina (Structure/Run.v). *)
open Structure_ex
let rec pos_of_int n = if n = 1 then XH else if n land 1 = 0 then XO (pos_of_int (n lsr 1)) else XI (pos_of_int (n lsr 1))
let z_of_int n = if n = 0 then Z0 else if n > 0 then Zpos (pos_of_int n) else Zneg (pos_of_int (- n))
(* integers beyond 62 bits arrive as decimal strings: go through Z arithmetic on chunks *)
let rec int_of_pos = function XH -> 1 | XO p -> 2 * int_of_pos p | XI p -> 2 * int_of_pos p + 1
let rec string_of_pos p =
  (* exact decimal printing for positives of any size, by repeated division in OCaml strings *)
  let rec bits p acc = match p with XH -> 1 :: acc | XO q -> bits q (0 :: acc) | XI q -> bits q (1 :: acc) in
  let bs = bits p [] in
  (* decimal digits little endian *)
  let digits = ref [0] in
  let double_add b =
    let carry = ref b in
    digits := List.map (fun d -> let v = 2 * d + !carry in carry := v / 10; v mod 10) !digits;
    if !carry > 0 then digits := !digits @ [!carry] in
  List.iter double_add bs;
  String.concat "" (List.rev_map string_of_int !digits)
let string_of_z = function Z0 -> "0" | Zpos p -> string_of_pos p | Zneg p -> "-" ^ string_of_pos p
let z_of_string (s : string) : z =
  let neg = String.length s > 0 && s.[0] = '-' in
  let body = if neg then String.sub s 1 (String.length s - 1) else s in
  if String.length body <= 17 then z_of_int (int_of_string s)
  else begin
    (* big literal: build bits by repeated halving of the decimal string *)
    let digits = Array.init (String.length body) (fun i -> Char.code body.[i] - 48) in
    let is_zero () = Array.for_all (fun d -> d = 0) digits in
    let halve () = let rem = ref 0 in
      Array.iteri (fun i d -> let v = !rem * 10 + d in digits.(i) <- v / 2; rem := v mod 2) digits; !rem in
    let bits = ref [] in
    while not (is_zero ()) do bits := halve () :: !bits done;
    (* bits: most significant first *)
    let p = match !bits with
      | [] -> None
      | _ :: rest -> Some (List.fold_left (fun acc b -> if b = 1 then XI acc else XO acc) XH rest) in
    match p with None -> Z0 | Some p -> if neg then Zneg p else Zpos p
  end

let parse (toks : string list) : sx =
  let rec one = function
    | "(" :: rest -> let (items, rest') = many rest [] in (L items, rest')
    | t :: rest -> (I (z_of_string t), rest)
    | [] -> failwith "eof"
  and many toks acc = match toks with
    | ")" :: rest -> (List.rev acc, rest)
    | [] -> failwith "unbalanced"
    | _ -> let (x, rest) = one toks in many rest (x :: acc) in
  fst (one toks)

let rec print buf = function
  | I z -> Buffer.add_string buf (string_of_z z)
  | L l -> Buffer.add_string buf "("; List.iter (fun x -> Buffer.add_char buf ' '; print buf x) l; Buffer.add_string buf " )"

let () =
  try while true do
    let line = input_line stdin in
    let toks = List.filter (fun s -> s <> "") (String.split_on_char ' ' line) in
    (match toks with
     | mode :: rest ->
       (try
         let s = parse rest in
         let r = match mode with
           | "run" -> run_sx s
           | "checkmap" -> checkmap_sx s
           | "pathfns" -> pathfns_sx s
           | "warnpoint" -> warnpoint_sx s
           | "basedepth" -> basedepth_sx s
           | "stemfns" -> stemfns_sx s
           | "roots" -> roots_sx s
           | _ -> L [I (z_of_int (-2))] in
         let b = Buffer.create 1024 in print b r; print_endline (Buffer.contents b)
       with Failure m -> print_endline ("BAD " ^ m))
     | [] -> print_endline "BAD empty")
  done with End_of_file -> ()
