(* Driver for the extracted counter model: same line protocol as harness sgv-counter
   (modes count | classes; syntax given inline). One result per line. *)
open Counter_ex
let rec pos_of_int n = if n = 1 then XH else if n land 1 = 0 then XO (pos_of_int (n lsr 1)) else XI (pos_of_int (n lsr 1))
let n_of_int n = if n = 0 then N0 else Npos (pos_of_int n)
let rec int_of_pos = function XH -> 1 | XO p -> 2 * int_of_pos p | XI p -> 2 * int_of_pos p + 1
let int_of_n = function N0 -> 0 | Npos p -> int_of_pos p
let dec s = if s = "" || s = "-" then [] else List.map (fun t -> n_of_int (int_of_string t)) (String.split_on_char ',' s)
let parse_syntax (s : string) : syntax =
  let singles = ref [] and multis = ref [] in
  List.iter (fun item ->
    if String.length item >= 2 then begin
      let v = String.sub item 2 (String.length item - 2) in
      match item.[0] with
      | 'S' -> singles := dec v :: !singles
      | 'M' ->
        (match String.split_on_char ':' v with
         | [a; b; n; ls; k] ->
           let kind = match k with "0" -> Static | "1" -> LuaLong | _ -> RustRaw in
           multis := { ml_start = dec a; ml_end = dec b; ml_nest = (n = "1"); ml_linestart = (ls = "1"); ml_kind = kind } :: !multis
         | _ -> failwith "bad M")
      | _ -> failwith "bad item"
    end) (String.split_on_char ';' s);
  { single = List.rev !singles; multi = List.rev !multis }
let fmt = function
  | None -> "IGN"
  | Some s -> Printf.sprintf "OK %d %d %d %d %d" (int_of_n s.total) (int_of_n s.code) (int_of_n s.comment) (int_of_n s.blank) (int_of_n s.ignored)
let () =
  try while true do
    let line = input_line stdin in
    match String.split_on_char '\t' line with
    | [mode; sy; src] ->
      let sy = parse_syntax sy in
      let src = dec src in
      (match mode with
       | "count" ->
         let a = count sy src and b = count_reader sy src in
         if a = b then print_endline (fmt a) else print_endline (fmt a ^ " DISAGREE reader=[" ^ fmt b ^ "]")
       | "classes" ->
         let cs = classes_of sy src in
         print_endline ("CLS " ^ String.concat "" (List.map (function
           | None -> "F" | Some Code -> "C" | Some Comment -> "M" | Some Blank -> "B" | Some Ignored -> "I") cs))
       | _ -> print_endline "BADMODE")
    | _ -> print_endline "BADLINE"
  done with End_of_file -> ()
