(* Driver for the extracted threshold model (C05). Reads tab-separated lines
     run <cfg> <inst> <cli> <mv> <ev> <ext> <stats>
   cfg as for harness sgv-threshold; inst = ~ | f64 bits; cli = ~ | <max|~>:<cc>:<cb>:<wt bits|~>:<ext+ext..|~>;
   mv / ev = strings of 0/1 (- for empty); ext = ~ | codepoints; stats = t,c,m,b,i.
   Prints the same KEY=value fields as the harness (without MV/EV/EXT).
   pct <limit> <bits> prints pct_point. *)
open Threshold_ex

(* ---- arbitrary-size decimal <-> N (no zarith: the extraction keeps N inductive) *)
let n_of_dec (s : string) : n =
  let d = Array.init (String.length s) (fun i -> Char.code s.[i] - 48) in
  Array.iter (fun x -> if x < 0 || x > 9 then failwith ("bad number " ^ s)) d;
  let is_zero () = Array.for_all (fun x -> x = 0) d in
  let div2 () =
    let r = ref 0 in
    Array.iteri (fun i x -> let v = !r * 10 + x in d.(i) <- v / 2; r := v mod 2) d;
    !r in
  let rec bits () = if is_zero () then [] else let b = div2 () in b :: bits () in
  let rec pos = function
    | [1] -> XH
    | 0 :: t -> XO (pos t)
    | 1 :: t -> XI (pos t)
    | _ -> failwith "pos" in
  match bits () with [] -> N0 | bl -> Npos (pos bl)

let dec_of_n (x : n) : string =
  match x with
  | N0 -> "0"
  | Npos p ->
    let rec bits p acc = match p with XH -> 1 :: acc | XO q -> bits q (0 :: acc) | XI q -> bits q (1 :: acc) in
    let digits = ref [0] in
    List.iter (fun b ->
      let carry = ref b in
      digits := List.map (fun d -> let v = d * 2 + !carry in carry := v / 10; v mod 10) !digits;
      if !carry > 0 then digits := !digits @ [!carry]) (bits p []);
    String.concat "" (List.rev_map string_of_int !digits)

let dec_str s = if s = "" || s = "-" then [] else List.map n_of_dec (String.split_on_char ',' s)
let enc_str (l : str) = if l = [] then "-" else String.concat "," (List.map dec_of_n l)
let str_of_ascii (s : string) : str = List.init (String.length s) (fun i -> n_of_dec (string_of_int (Char.code s.[i])))
let opt f s = if s = "~" then None else Some (f s)
let enc_opt = function None -> "~" | Some s -> enc_str s
let bool_of s = (s = "1")
let bits_of s = if s = "-" || s = "" then [] else List.init (String.length s) (fun i -> s.[i] = '1')

let parse_config (s : string) : config =
  let g = ref None and xs = ref [] and es = ref [] and rs = ref [] in
  List.iter (fun item ->
    if String.length item >= 2 then begin
      let v = String.sub item 2 (String.length item - 2) in
      let f = Array.of_list (String.split_on_char ':' v) in
      match String.sub item 0 2 with
      | "G=" -> g := Some (n_of_dec f.(0), n_of_dec f.(1), opt n_of_dec f.(2), bool_of f.(3), bool_of f.(4))
      | "X=" -> xs := dec_str f.(0) :: !xs
      | "E=" -> es := dec_str f.(0) :: !es
      | "R=" ->
        rs := { r_pattern = dec_str f.(0); r_max = n_of_dec f.(1); r_wt = opt n_of_dec f.(2); r_wa = opt n_of_dec f.(3);
                r_sc = opt bool_of f.(4); r_sb = opt bool_of f.(5); r_reason = opt dec_str f.(6) } :: !rs
      | _ -> failwith "bad config item"
    end) (String.split_on_char ';' s);
  match !g with
  | None -> failwith "no G item"
  | Some (mx, wt, wa, sc, sb) ->
    { c_exts = List.rev !es; c_max = mx; c_wt = wt; c_wa = wa; c_sc = sc; c_sb = sb;
      c_exclude = List.rev !xs; c_rules = List.rev !rs }

let parse_cli (s : string) : cli_overrides =
  match String.split_on_char ':' s with
  | [m; cc; cb; wt; ex] ->
    { cli_max_lines = opt n_of_dec m; cli_count_comments = bool_of cc; cli_count_blank = bool_of cb;
      cli_warn_threshold = opt n_of_dec wt;
      cli_ext = opt (fun e -> List.map dec_str (String.split_on_char '+' e)) ex }
  | _ -> failwith "bad cli"

let parse_stats s =
  match List.map n_of_dec (String.split_on_char ',' s) with
  | [t; c; m; b; i] -> { ls_total = t; ls_code = c; ls_comment = m; ls_blank = b; ls_ignored = i }
  | _ -> failwith "bad stats"
let fmt_stats s = String.concat "," (List.map dec_of_n [s.ls_total; s.ls_code; s.ls_comment; s.ls_blank; s.ls_ignored])

let fmt_result (r : check_result) =
  Printf.sprintf "%s;%s;%s;%s;%s"
    (match r.res_status with Passed -> "P" | Warning -> "W" | Failed -> "F")
    (dec_of_n r.res_limit) (enc_opt r.res_reason) (fmt_stats r.res_stats)
    (match r.res_raw with None -> "~" | Some s -> fmt_stats s)

let fmt_source = function
  | RuleAbsolute i -> "RA:" ^ dec_of_n i
  | RulePercentage (i, t) -> "RP:" ^ dec_of_n i ^ ":" ^ dec_of_n t
  | GlobalAbsolute -> "GA"
  | GlobalPercentage t -> "GP:" ^ dec_of_n t

let b01 b = if b then "1" else "0"

let fmt_expl (e : explanation) =
  let matched = match e.ex_matched with
    | MExcluded p -> "X:" ^ enc_str p
    | MRule (i, p, r) -> "R:" ^ dec_of_n i ^ ":" ^ enc_str p ^ ":" ^ enc_opt r
    | MDefault -> "D" in
  let chain = List.map (fun c ->
    let src = match c.cand_source with
      | Some i -> "content.rules[" ^ dec_of_n i ^ "]"
      | None -> "content.max_lines (default)" in
    Printf.sprintf "%s:%s:%s:%s" (enc_str (str_of_ascii src)) (enc_opt c.cand_pattern) (dec_of_n c.cand_limit)
      (match c.cand_status with Matched -> "M" | Superseded -> "S" | NoMatch -> "N")) e.ex_chain in
  Printf.sprintf "%s|%s|%s|%s|%s|%s|%s%s|%s" (b01 e.ex_excluded) matched (dec_of_n e.ex_limit) (dec_of_n e.ex_warn_at)
    (fmt_source e.ex_source) (dec_of_n e.ex_wt) (b01 e.ex_sc) (b01 e.ex_sb) (String.concat "/" chain)

let answer line =
  match String.split_on_char '\t' line with
  | ["pct"; l; b] -> dec_of_n (pct_point (n_of_dec l) (n_of_dec b))
  | ["run"; cfg; inst; cli; mv; ev; ext; stats] ->
    let cfg = parse_config cfg in
    let ck = if cli = "~" then new_checker cfg else check_checker cfg (parse_cli cli) in
    let ck = match opt n_of_dec inst with Some t -> with_warning_threshold ck t | None -> ck in
    let xck = explain_checker cfg in
    let mv = bits_of mv and ev = bits_of ev in
    let ext = opt dec_str ext in
    let stats = parse_stats stats in
    let sp = should_process ck ev mv ext in
    let (sc, sb) = skip_settings_for ck mv in
    let eff = compute_effective_stats stats sc sb in
    let chk = check ck mv stats None in
    let pfc = process_for_check ck mv stats in
    let valo = if cli = "~" then validate_content cfg else validate_content (apply_cli_overrides cfg (parse_cli cli)) in
    Printf.sprintf "VAL=%s\tVALO=%s\tSP=%s\tXC=%s\tSK=%s%s\tEFF=%s\tCHK=%s\tPFC=%s\tEXP=%s\tXEXP=%s"
      (b01 (validate_content cfg)) (b01 valo) (b01 sp) (b01 (any_true ev)) (b01 sc) (b01 sb) (fmt_stats eff) (fmt_result chk) (fmt_result pfc)
      (fmt_expl (explain ck ev mv)) (fmt_expl (explain xck ev mv))
  | _ -> "BADLINE"

let () =
  try while true do
    let line = input_line stdin in
    print_endline (try answer line with Failure m -> "DRVERR " ^ m | Invalid_argument m -> "DRVERR " ^ m)
  done with End_of_file -> ()
