(* driver for the extracted C01 pipeline. One run per line, records separated by ';', fields by ' ':
     RUN ce baseline ratchet_cli ratchet_cfg warn_only wae      (ratchet: - w a s)
     F path scanned selected counted count limit warn
     S path vt status code limit        (vt: f d m p<tag>; status: P W F G)
     D key
     BC key lines | BS key f|d count     (baseline file on disk; absent when no B record and NOBL given)
     NOBL                                (no baseline file on disk)
   output: exit code, then the reported results as path|kind|status separated by spaces

   Composed mode (Check/Compose.v check_command): when the line carries a CMD record the per-file facts are not read
   from F records but computed by the threshold model from the content configuration, the CLI overrides and, per
   file, the walk / counter / globset data:
     CMD max_lines warn_threshold_bits warn_at|~ skip_comments skip_blank       ([content] globals)
     E ext                                   (content.extensions, in order)
     X pattern                               (content.exclude, in order)
     R pattern max_lines wt_bits|~ warn_at|~ sc|~ sb|~     (content.rules, in order)
     CLI max_lines|~ count_comments count_blank wt_bits|~ ext+ext|~            (check overrides)
     I path scanned ev mv ext|~ total,code,comment,blank,ignored|~             (ev / mv: exclude and rule match vectors, 0/1 strings, - empty)
   the RUN record keeps the flags (its ce field is ignored: config_rejected decides). Output as above followed by
   " ## rej=<0|1>" and the computed facts path|scanned|selected|counted|count|limit|warn. *)
open Pipeline_ex
let rec pos_of_int n = if n = 1 then XH else if n land 1 = 0 then XO (pos_of_int (n lsr 1)) else XI (pos_of_int (n lsr 1))
let n_of_int n = if n = 0 then N0 else Npos (pos_of_int n)
let rec int_of_pos = function XH -> 1 | XO p -> 2 * int_of_pos p | XI p -> 2 * int_of_pos p + 1
let int_of_n = function N0 -> 0 | Npos p -> int_of_pos p
let dec s = if s = "" || s = "-" then [] else List.map (fun t -> n_of_int (int_of_string t)) (String.split_on_char ',' s)
let enc l = if l = [] then "-" else String.concat "," (List.map (fun n -> string_of_int (int_of_n n)) l)
let b s = s = "1"
(* arbitrary-size decimals (f64 bit patterns exceed the native int) *)
let n_of_dec (s : string) : n =
  let d = Array.init (String.length s) (fun i -> Char.code s.[i] - 48) in
  Array.iter (fun x -> if x < 0 || x > 9 then failwith ("bad number " ^ s)) d;
  let is_zero () = Array.for_all (fun x -> x = 0) d in
  let div2 () = let r = ref 0 in Array.iteri (fun i x -> let v = !r * 10 + x in d.(i) <- v / 2; r := v mod 2) d; !r in
  let rec bits () = if is_zero () then [] else let x = div2 () in x :: bits () in
  let rec pos = function [1] -> XH | 0 :: t -> XO (pos t) | 1 :: t -> XI (pos t) | _ -> failwith "pos" in
  match bits () with [] -> N0 | bl -> Npos (pos bl)
let dec_of_n (x : n) : string =
  match x with
  | N0 -> "0"
  | Npos p ->
    let rec bits p acc = match p with XH -> 1 :: acc | XO q -> bits q (0 :: acc) | XI q -> bits q (1 :: acc) in
    let digits = ref [0] in
    List.iter (fun bt ->
      let carry = ref bt in
      digits := List.map (fun d -> let v = d * 2 + !carry in carry := v / 10; v mod 10) !digits;
      if !carry > 0 then digits := !digits @ [!carry]) (bits p []);
    String.concat "" (List.rev_map string_of_int !digits)
let opt f s = if s = "~" then None else Some (f s)
let bits_of s = if s = "-" || s = "" then [] else List.init (String.length s) (fun i -> s.[i] = '1')
let b01 x = if x then "1" else "0"
let rm = function "w" -> Some RWarn | "a" -> Some RAuto | "s" -> Some RStrict | _ -> None
let st = function "P" -> Passed | "W" -> Warning | "F" -> Failed | _ -> Grandfathered
let st_s = function Passed -> "P" | Warning -> "W" | Failed -> "F" | Grandfathered -> "G"
let vt s = match s.[0] with 'f' -> FileCount | 'd' -> DirCount | 'm' -> MaxDepth | _ -> Placement (n_of_int (int_of_string (String.sub s 1 (String.length s - 1))))
let kind_s = function Content -> "c" | Structure FileCount -> "sf" | Structure DirCount -> "sd" | Structure MaxDepth -> "sm" | Structure (Placement t) -> "sp" ^ string_of_int (int_of_n t)
let () =
  try while true do
    let line = input_line stdin in
    let recs = List.map (fun r -> List.filter (fun x -> x <> "") (String.split_on_char ' ' r)) (String.split_on_char ';' line) in
    let mkFlags a u rc rg wo wae ff = { f_baseline = a; f_update = u; f_ratchet_cli = rc; f_ratchet_cfg = rg; f_warn_only = wo; f_wae = wae; f_fail_fast = ff } in
    let mkFact p a s c cnt lim w h = { ff_path = p; ff_scanned = a; ff_selected = s; ff_counted = c; ff_count = cnt; ff_limit = lim; ff_warn = w; ff_hash = h } in
    let mkResult p k s c l h = { r_path = p; r_kind = k; r_status = s; r_code = c; r_limit = l; r_hash = h } in
    let ce = ref false and fl = ref (mkFlags false None None None false false false) in
    let fs = ref [] and sres = ref [] and dirs = ref [] and bl = ref [] and nobl = ref false in
    let cmd = ref None and exts = ref [] and excl = ref [] and rules = ref [] and ins = ref [] in
    let cli = ref { cli_max_lines = None; cli_count_comments = false; cli_count_blank = false; cli_warn_threshold = None; cli_ext = None } in
    List.iter (function
      | ["RUN"; c; bsl; rc; rg; wo; wae] -> ce := b c; fl := mkFlags (b bsl) None (rm rc) (rm rg) (b wo) (b wae) false
      | ["F"; p; a; s; c; cnt; lim; w] -> fs := mkFact (dec p) (b a) (b s) (b c) (n_of_int (int_of_string cnt)) (n_of_int (int_of_string lim)) (n_of_int (int_of_string w)) [] :: !fs
      | ["S"; p; v; s; code; lim] -> sres := mkResult (dec p) (Structure (vt v)) (st s) (n_of_int (int_of_string code)) (n_of_int (int_of_string lim)) [] :: !sres
      | ["D"; k] -> dirs := dec k :: !dirs
      | ["BC"; k; l] -> bl := (dec k, EContent (n_of_int (int_of_string l), [])) :: !bl
      | ["BS"; k; t; c] -> bl := (dec k, EStructure ((if t = "f" then Files else Dirs), n_of_int (int_of_string c))) :: !bl
      | ["NOBL"] -> nobl := true
      | ["CMD"; mx; wt; wa; sc; sb] -> cmd := Some (n_of_dec mx, n_of_dec wt, opt n_of_dec wa, b sc, b sb)
      | ["E"; e] -> exts := dec e :: !exts
      | ["X"; p] -> excl := dec p :: !excl
      | ["R"; p; mx; wt; wa; sc; sb] ->
        rules := { r_pattern = dec p; r_max = n_of_dec mx; r_wt = opt n_of_dec wt; r_wa = opt n_of_dec wa;
                   r_sc = opt b sc; r_sb = opt b sb; r_reason = None } :: !rules
      | ["CLI"; mx; cc; cb; wt; ex] ->
        cli := { cli_max_lines = opt n_of_dec mx; cli_count_comments = b cc; cli_count_blank = b cb; cli_warn_threshold = opt n_of_dec wt;
                 cli_ext = opt (fun e -> List.map dec (String.split_on_char '+' e)) ex }
      | ["I"; p; sc; ev; mv; ext; stats] ->
        let st = opt (fun x -> match List.map n_of_dec (String.split_on_char ',' x) with
                               | [t; c; m; bl; i] -> { ls_total = t; ls_code = c; ls_comment = m; ls_blank = bl; ls_ignored = i }
                               | _ -> failwith "bad stats") stats in
        ins := { fi_path = dec p; fi_scanned = b sc; fi_ev = bits_of ev; fi_mv = bits_of mv; fi_ext = opt dec ext; fi_stats = st; fi_hash = [] } :: !ins
      | [] -> ()
      | _ -> failwith "bad record") recs;
    let disk = if !nobl then None else Some (List.rev !bl) in
    let show out = string_of_int (int_of_n out.o_exit) ^ " " ^
      String.concat " " (List.map (fun r -> enc r.r_path ^ "|" ^ kind_s r.r_kind ^ "|" ^ st_s r.r_status) out.o_results) in
    match !cmd with
    | None -> print_endline (show (check_run !ce !fl (List.rev !fs) (List.rev !sres) (List.rev !dirs) disk))
    | Some (mx, wt, wa, sc, sb) ->
      let cfg = { c_exts = List.rev !exts; c_max = mx; c_wt = wt; c_wa = wa; c_sc = sc; c_sb = sb;
                  c_exclude = List.rev !excl; c_rules = List.rev !rules } in
      let ins = List.rev !ins in
      let out = check_command cfg !cli !fl ins (List.rev !sres) (List.rev !dirs) disk in
      let ck = check_checker cfg !cli in
      let facts = List.map (fun i -> let f = fact_of ck i in
        Printf.sprintf "%s|%s|%s|%s|%s|%s|%s" (enc f.ff_path) (b01 f.ff_scanned) (b01 f.ff_selected) (b01 f.ff_counted)
          (dec_of_n f.ff_count) (dec_of_n f.ff_limit) (dec_of_n f.ff_warn)) ins in
      print_endline (show out ^ " ## rej=" ^ b01 (config_rejected cfg !cli) ^ " " ^ String.concat " " facts)
  done with End_of_file -> ()
