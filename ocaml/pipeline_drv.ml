(* driver for the extracted C01 pipeline. One run per line, records separated by ';', fields by ' ':
     RUN ce baseline ratchet_cli ratchet_cfg warn_only wae      (ratchet: - w a s)
     F path scanned selected counted count limit warn
     S path vt status code limit        (vt: f d m p<tag>; status: P W F G)
     D key
     BC key lines | BS key f|d count     (baseline file on disk; absent when no B record and NOBL given)
     NOBL                                (no baseline file on disk)
   output: exit code, then the reported results as path|kind|status separated by spaces *)
open Pipeline_ex
let rec pos_of_int n = if n = 1 then XH else if n land 1 = 0 then XO (pos_of_int (n lsr 1)) else XI (pos_of_int (n lsr 1))
let n_of_int n = if n = 0 then N0 else Npos (pos_of_int n)
let rec int_of_pos = function XH -> 1 | XO p -> 2 * int_of_pos p | XI p -> 2 * int_of_pos p + 1
let int_of_n = function N0 -> 0 | Npos p -> int_of_pos p
let dec s = if s = "" || s = "-" then [] else List.map (fun t -> n_of_int (int_of_string t)) (String.split_on_char ',' s)
let enc l = if l = [] then "-" else String.concat "," (List.map (fun n -> string_of_int (int_of_n n)) l)
let b s = s = "1"
let rm = function "w" -> Some RWarn | "a" -> Some RAuto | "s" -> Some RStrict | _ -> None
let st = function "P" -> Passed | "W" -> Warning | "F" -> Failed | _ -> Grandfathered
let st_s = function Passed -> "P" | Warning -> "W" | Failed -> "F" | Grandfathered -> "G"
let vt s = match s.[0] with 'f' -> FileCount | 'd' -> DirCount | 'm' -> MaxDepth | _ -> Placement (n_of_int (int_of_string (String.sub s 1 (String.length s - 1))))
let kind_s = function Content -> "c" | Structure FileCount -> "sf" | Structure DirCount -> "sd" | Structure MaxDepth -> "sm" | Structure (Placement t) -> "sp" ^ string_of_int (int_of_n t)
let () =
  try while true do
    let line = input_line stdin in
    let recs = List.map (fun r -> List.filter (fun x -> x <> "") (String.split_on_char ' ' r)) (String.split_on_char ';' line) in
    let mkFlags a u rc rg wo wae ff = { f_baseline = a; f_update = u; f_ratchet_cli = rc; f_ratchet_cfg = rg; f_warn_only = wo; f_wae = wae; f_fail_fast = ff } in
    let mkFact p a s c cnt lim w h = { ff_path = p; ff_scanned = a; ff_selected = s; ff_counted = c; ff_count = cnt; ff_limit = lim; ff_warn = w; ff_hash = h } in
    let mkResult p k s c l h = { r_path = p; r_kind = k; r_status = s; r_code = c; r_limit = l; r_hash = h } in
    let ce = ref false and fl = ref (mkFlags false None None None false false false) in
    let fs = ref [] and sres = ref [] and dirs = ref [] and bl = ref [] and nobl = ref false in
    List.iter (function
      | ["RUN"; c; bsl; rc; rg; wo; wae] -> ce := b c; fl := mkFlags (b bsl) None (rm rc) (rm rg) (b wo) (b wae) false
      | ["F"; p; a; s; c; cnt; lim; w] -> fs := mkFact (dec p) (b a) (b s) (b c) (n_of_int (int_of_string cnt)) (n_of_int (int_of_string lim)) (n_of_int (int_of_string w)) [] :: !fs
      | ["S"; p; v; s; code; lim] -> sres := mkResult (dec p) (Structure (vt v)) (st s) (n_of_int (int_of_string code)) (n_of_int (int_of_string lim)) [] :: !sres
      | ["D"; k] -> dirs := dec k :: !dirs
      | ["BC"; k; l] -> bl := (dec k, EContent (n_of_int (int_of_string l), [])) :: !bl
      | ["BS"; k; t; c] -> bl := (dec k, EStructure ((if t = "f" then Files else Dirs), n_of_int (int_of_string c))) :: !bl
      | ["NOBL"] -> nobl := true
      | [] -> ()
      | _ -> failwith "bad record") recs;
    let disk = if !nobl then None else Some (List.rev !bl) in
    let out = check_run !ce !fl (List.rev !fs) (List.rev !sres) (List.rev !dirs) disk in
    print_endline (string_of_int (int_of_n out.o_exit) ^ " " ^
      String.concat " " (List.map (fun r -> enc r.r_path ^ "|" ^ kind_s r.r_kind ^ "|" ^ st_s r.r_status) out.o_results))
  done with End_of_file -> ()
