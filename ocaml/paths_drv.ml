(* driver for the extracted path normaliser: lines  norm<TAB>cwd<TAB>path  (code points) -> normalised code points *)
open Paths_ex
let rec pos_of_int n = if n = 1 then XH else if n land 1 = 0 then XO (pos_of_int (n lsr 1)) else XI (pos_of_int (n lsr 1))
let n_of_int n = if n = 0 then N0 else Npos (pos_of_int n)
let rec int_of_pos = function XH -> 1 | XO p -> 2 * int_of_pos p | XI p -> 2 * int_of_pos p + 1
let int_of_n = function N0 -> 0 | Npos p -> int_of_pos p
let dec s = if s = "" || s = "-" then [] else List.map (fun t -> n_of_int (int_of_string t)) (String.split_on_char ',' s)
let enc l = if l = [] then "-" else String.concat "," (List.map (fun n -> string_of_int (int_of_n n)) l)
let () =
  try while true do
    let line = input_line stdin in
    match String.split_on_char '\t' line with
    | ["norm"; cwd; p] -> print_endline (enc (norm (dec cwd) (dec p)))
    | _ -> print_endline "BADLINE"
  done with End_of_file -> ()
