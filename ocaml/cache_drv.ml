(* Driver for the extracted cache model. One history per line:
     <contents> TAB <ops>
   contents = `;`-separated  cid:size:lang=T.C.M.B.I/lang=I/...      (I alone = IgnoredFile)
   ops      = `,`-separated  W:stem.ext:cid:t | D:stem.ext | R:stem.ext:stem.ext | P:stem.ext:stem.ext (copy / link) | L:ext=lang/ext=lang
                             | C:g | C:v<N> | C:h | C:r | C:f:stem.ext:T.C.M.B.I | C:x<N>:stem.ext:T.C.M.B.I (foreign version N with other statistics) | X:<cmd>:<excluded paths /-separated or ->:t
   Output: one segment per Run, ` | `-separated:
     <cached out> || <uncached out> || <cache file after the run>
   followed by ` ## RW=b RR=b FORGE=b MONO=b TRANSP=b`. *)
open Cache_ex
let rec pos_of_int n = if n = 1 then XH else if n land 1 = 0 then XO (pos_of_int (n lsr 1)) else XI (pos_of_int (n lsr 1))
let n_of_int n = if n = 0 then N0 else Npos (pos_of_int n)
let rec int_of_pos = function XH -> 1 | XO p -> 2 * int_of_pos p | XI p -> 2 * int_of_pos p + 1
let int_of_n = function N0 -> 0 | Npos p -> int_of_pos p
let nos s = n_of_int (int_of_string s)
let split c s = if s = "" || s = "-" then [] else String.split_on_char c s
let path s = match String.split_on_char '.' s with [a; b] -> (nos a, nos b) | _ -> failwith ("path " ^ s)
let stats s = match List.map nos (String.split_on_char '.' s) with
  | [t; c; m; b; i] -> { s_total = t; s_code = c; s_comment = m; s_blank = b; s_ignored = i }
  | _ -> failwith "stats"
let fmt_stats s = Printf.sprintf "%d.%d.%d.%d.%d" (int_of_n s.s_total) (int_of_n s.s_code) (int_of_n s.s_comment) (int_of_n s.s_blank) (int_of_n s.s_ignored)
let fmt_path (a, b) = Printf.sprintf "%d.%d" (int_of_n a) (int_of_n b)
let fmt_out o =
  let l = List.sort compare (List.map (fun (p, s) -> fmt_path p ^ "=" ^ fmt_stats s) o) in
  if l = [] then "-" else String.concat ";" l
(* compute_config_hash as an injective function: every distinct [languages] table gets a fresh id *)
let hash_ids : (langs, n) Hashtbl.t = Hashtbl.create 16
let chash (l : langs) : n =
  try Hashtbl.find hash_ids l with Not_found ->
    let id = n_of_int (Hashtbl.length hash_ids + 1) in Hashtbl.add hash_ids l id; id
(* every path the generator can spell is valid UTF-8, i.e. has a cache key *)
let keyable (_ : path) = true
let fmt_cache w = match w.w_cache with
  | CAbsent -> "ABSENT" | CCorrupt -> "CORRUPT"
  | CValid (v, h, es) ->
    let l = List.sort compare (List.map (fun (p, e) ->
      Printf.sprintf "%s@%d,%d=%s#%d" (fmt_path p) (int_of_n e.ce_mtime) (int_of_n e.ce_size) (fmt_stats e.ce_stats) (int_of_n e.ce_hash)) es) in
    Printf.sprintf "v%d %s %s" (int_of_n v) (match h with None -> "HBAD" | Some x -> if x = chash w.w_cfg then "HCUR" else "HOLD")
      (if l = [] then "-" else String.concat ";" l)
let b01 b = if b then "1" else "0"
let () =
  try while true do
    let line = input_line stdin in
    (try
      match String.split_on_char '\t' line with
      | [cs; ops] ->
        let sizes = Hashtbl.create 16 and truths = Hashtbl.create 16 in
        List.iter (fun c -> match String.split_on_char ':' c with
          | [cid; size; ts] ->
            Hashtbl.replace sizes (int_of_string cid) (nos size);
            List.iter (fun t -> match String.split_on_char '=' t with
              | [l; "I"] -> Hashtbl.replace truths (int_of_string l, int_of_string cid) None
              | [l; s] -> Hashtbl.replace truths (int_of_string l, int_of_string cid) (Some (stats s))
              | _ -> failwith "truth") (split '/' ts)
          | _ -> failwith "content") (split ';' cs);
        let truth l c = try Hashtbl.find truths (int_of_n l, int_of_n c) with Not_found -> None in
        let csize c = try Hashtbl.find sizes (int_of_n c) with Not_found -> N0 in
        let op s = match String.split_on_char ':' s with
          | ["W"; p; c; t] -> Write (path p, nos c, nos t)
          | ["D"; p] -> Delete (path p)
          | ["R"; p; q] -> Rename (path p, path q)
          | ["P"; p; q] -> Copy (path p, path q)
          | ["L"; l] -> SetLanguages (List.map (fun x -> match String.split_on_char '=' x with [e; g] -> (nos e, nos g) | _ -> failwith "lang") (split '/' l))
          | ["C"; "g"] -> Corrupt KGarbage
          | ["C"; "h"] -> Corrupt KBadHash
          | ["C"; "r"] -> Corrupt KRemove
          | ["C"; "f"; p; st] -> Corrupt (KForge (path p, stats st))
          | ["C"; x; p; st] -> Corrupt (KForeign (nos (String.sub x 1 (String.length x - 1)), path p, stats st))
          | ["C"; v] -> Corrupt (KVersion (nos (String.sub v 1 (String.length v - 1))))
          | ["X"; k; ex; t] ->
            let k = match k with "check" -> Check | "summary" -> StatsSummary | "files" -> StatsFiles | _ -> Snapshot in
            Run (k, List.map path (split '/' ex), nos t)
          | _ -> failwith ("op " ^ s) in
        let h = List.map op (split ',' ops) in
        let segs = ref [] in
        let w = ref world0 in
        List.iter (fun o ->
          let (w', r) = step truth csize chash keyable !w o in
          w := w';
          match r with
          | Some (a, b) -> segs := (fmt_out a ^ " || " ^ fmt_out b ^ " || " ^ fmt_cache w') :: !segs
          | None -> ()) h;
        print_endline (String.concat " | " (List.rev !segs) ^
          Printf.sprintf " ## RW=%s RR=%s FORGE=%s MONO=%s TRANSP=%s" (b01 (has_racy_write truth csize chash keyable h)) (b01 (has_racy_rename truth csize chash keyable h)) (b01 (has_forgery truth csize chash keyable h))
            (b01 (monotone_clock h)) (b01 (transparent truth csize chash keyable h)))
      | _ -> print_endline "BADLINE"
    with Failure m -> print_endline ("MODELFAIL " ^ m))
  done with End_of_file -> ()
