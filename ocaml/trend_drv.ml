(* Driver for the extracted trend / duration model: same line protocol as harness sgv-trend
   (modes dur | add | ret | snap | delta | since) plus
     tot <pfiles>   -> summary / snapshot / check totals, restricted_run, k16_filter_mismatch
     step <cfg> <cmd> <now> <pfiles> <tag> <entries>   -> history after one CLI command
   A u64 / i64 overflow met by the model is reported as `OVF ...` (wrapped values follow). *)
open Trend_ex
let rec uint_of_chars s i = if i >= String.length s then Nil else
  let r = uint_of_chars s (i + 1) in
  match s.[i] with '0' -> D0 r | '1' -> D1 r | '2' -> D2 r | '3' -> D3 r | '4' -> D4 r | '5' -> D5 r
                 | '6' -> D6 r | '7' -> D7 r | '8' -> D8 r | '9' -> D9 r | _ -> failwith "digit"
let n_of_string s = N.of_uint (uint_of_chars s 0)
let rec string_of_uint = function
  | Nil -> "" | D0 r -> "0" ^ string_of_uint r | D1 r -> "1" ^ string_of_uint r | D2 r -> "2" ^ string_of_uint r
  | D3 r -> "3" ^ string_of_uint r | D4 r -> "4" ^ string_of_uint r | D5 r -> "5" ^ string_of_uint r
  | D6 r -> "6" ^ string_of_uint r | D7 r -> "7" ^ string_of_uint r | D8 r -> "8" ^ string_of_uint r | D9 r -> "9" ^ string_of_uint r
let nz s = if s = "" then "0" else s
let string_of_n x = nz (string_of_uint (N.to_uint x))
let string_of_z x = match Z.to_int x with Pos u -> nz (string_of_uint u) | Neg u -> "-" ^ nz (string_of_uint u)
let dec s = if s = "" || s = "-" then [] else List.map n_of_string (String.split_on_char ',' s)
let opt s = if s = "-" then None else Some (n_of_string s)
let cfg s = match String.split_on_char ',' s with
  | [a; b; c; d] -> { max_entries = opt a; max_age_days = opt b; min_interval = opt c; min_code_delta = opt d }
  | _ -> failwith "cfg"
let totals s = match List.map n_of_string (String.split_on_char ':' s) with
  | [f; l; c; m; b] -> { t_files = f; t_lines = l; t_code = c; t_comment = m; t_blank = b }
  | _ -> failwith "totals"
let entry s = match List.map n_of_string (String.split_on_char ':' s) with
  | [t; f; l; c; m; b; g] -> { ts = t; e_tot = { t_files = f; t_lines = l; t_code = c; t_comment = m; t_blank = b }; e_tag = g }
  | _ -> failwith "entry"
let entries s = if s = "-" then [] else List.map entry (String.split_on_char ';' s)
let fmt_tot t = String.concat ":" (List.map string_of_n [t.t_files; t.t_lines; t.t_code; t.t_comment; t.t_blank])
let fmt_entries h = if h = [] then "-" else
  String.concat ";" (List.map (fun e -> string_of_n e.ts ^ ":" ^ fmt_tot e.e_tot ^ ":" ^ string_of_n e.e_tag) h)
let b01 b = if b then "1" else "0"
let fmt_delta c = function
  | None -> "NONE"
  | Some (d, ov) ->
    (if ov then "OVF " else "") ^
    Printf.sprintf "D %s %s %s %s %s %s %s SIG%s" (string_of_z d.d_files) (string_of_z d.d_lines) (string_of_z d.d_code)
      (string_of_z d.d_comment) (string_of_z d.d_blank) (string_of_n d.d_prev_ts) (string_of_n d.d_prev_tag)
      (b01 (is_significant d c))
let pfile s = match String.split_on_char ':' s with
  | [l; c; m; b; fl] ->
    { pf_lines = n_of_string l; pf_code = n_of_string c; pf_comment = n_of_string m; pf_blank = n_of_string b;
      pf_counted = fl.[0] = '1'; pf_ext_ok = fl.[1] = '1'; pf_excluded = fl.[2] = '1'; pf_rule = fl.[3] = '1';
      pf_selected = fl.[4] = '1'; pf_dropped = fl.[5] = '1' }
  | _ -> failwith "pfile"
let pfiles s = if s = "-" then [] else List.map pfile (String.split_on_char ';' s)
let err = function EEmpty -> "EMPTY" | EMissingUnit -> "NOUNIT" | EMissingNumber -> "NONUM" | EBadNumber -> "BADNUM"
                 | EZero -> "ZERO" | EBadUnit -> "BADUNIT" | ETooLarge -> "TOOLARGE"
let run f = match f with
  | ["dur"; s] -> (match parse_duration (dec s) with
      | DOk v -> "OK " ^ string_of_n v | DErr e -> "ERR " ^ err e | DOverflow w -> "OVF " ^ string_of_n w)
  | ["add"; c; now; h] -> "OK " ^ b01 (should_add (cfg c) (n_of_string now) (entries h))
  | ["ret"; c; now; h] ->
    let h = entries h in
    let (h', ov) = apply_retention (cfg c) (n_of_string now) h in
    (if ov then "OVF " else "OK ") ^ string_of_int (List.length h - List.length h') ^ " " ^ fmt_entries h'
  | ["snap"; c; force; now; t; tag; h] ->
    (match snapshot_op (cfg c) (force = "1") (n_of_string now) (totals t) (n_of_string tag) (entries h) with
     | Skipped -> "SKIP"
     | Saved (h', ov) -> (if ov then "OVF " else "SAVED ") ^ fmt_entries h')
  | ["delta"; c; since; now; t; h] ->
    fmt_delta (cfg c) (trend_delta (opt since) (n_of_string now) (entries h) (totals t))
  | ["since"; c; s; now; t; h] ->
    let (d, ov) = since_of_string (Some (dec s)) in
    let r = fmt_delta (cfg c) (trend_delta d (n_of_string now) (entries h) (totals t)) in
    if ov && not (String.length r >= 3 && String.sub r 0 3 = "OVF") then "OVF " ^ r else r
  | ["tot"; fs] ->
    let fs = pfiles fs in
    Printf.sprintf "TOT %s %s %s R%s K%s" (fmt_tot (summary_totals fs)) (fmt_tot (snapshot_totals fs)) (fmt_tot (check_totals fs))
      (b01 (restricted_run fs)) (b01 (k16_filter_mismatch fs))
  | ["step"; c; k; now; fs; tag; h] ->
    let k = match String.split_on_char ':' k with
      | ["snapshot"; f; d] -> CSnapshot (f = "1", d = "1")
      | ["check"; a; p; r] -> CCheck (a = "1", p = "1", r = "1")
      | _ -> CStats in
    let (h', ov) = step (cfg c) k (n_of_string now) (pfiles fs) (n_of_string tag) (entries h) in
    (if ov then "OVF " else "H ") ^ fmt_entries h'
  | _ -> "BADLINE"
let () =
  try while true do
    let line = input_line stdin in
    print_endline (try run (String.split_on_char '\t' line) with Failure m -> "MODELFAIL " ^ m)
  done with End_of_file -> ()
