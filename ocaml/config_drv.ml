(* Driver for the extracted configuration models (C16: Toml/Merge/Extends, C18: Remote).
   One tab-separated case per line on stdin, one result per line on stdout. Same value syntax as
   harness sgv-config:
     value := s <enc> | i <dec> | f <bits dec> | b 0|1 | d <enc> | a <n> v.. | t <n> <enc key> v ..
     enc   := comma separated scalar values, - for the empty string; ! stands for None
   Cases: see the match in [main]. *)
open Config_ex

(* ---- arbitrary-size decimal <-> positive *)
let div2 (ds : int list) : int list * int =   (* most significant digit first *)
  let rec go ds carry acc = match ds with
    | [] -> (List.rev acc, carry)
    | d :: t -> let v = carry * 10 + d in go t (v land 1) ((v lsr 1) :: acc) in
  let (q, r) = go ds 0 [] in
  let rec trim = function 0 :: (_ :: _ as t) -> trim t | l -> l in
  (trim q, r)
let digits_of_string s = List.init (String.length s) (fun i -> Char.code s.[i] - 48)
let rec pos_of_digits ds =   (* ds > 0 *)
  let (q, r) = div2 ds in
  if q = [0] then XH else if r = 0 then XO (pos_of_digits q) else XI (pos_of_digits q)
let n_of_dec s = let ds = digits_of_string s in
  if List.for_all (fun d -> d = 0) ds then N0 else Npos (pos_of_digits ds)
let z_of_dec s =
  if s <> "" && s.[0] = '-' then (match n_of_dec (String.sub s 1 (String.length s - 1)) with N0 -> Z0 | Npos p -> Zneg p)
  else (match n_of_dec s with N0 -> Z0 | Npos p -> Zpos p)
let dbl_add (ds : int list) (bit : int) : int list =   (* ds*2+bit, msd first *)
  let rec go ds carry acc = match ds with
    | [] -> if carry > 0 then carry :: acc else acc
    | d :: t -> let v = d * 2 + carry in go t (v / 10) ((v mod 10) :: acc) in
  go (List.rev ds) bit []
let rec digits_of_pos = function
  | XH -> [1]
  | XO p -> dbl_add (digits_of_pos p) 0
  | XI p -> dbl_add (digits_of_pos p) 1
let dec_of_pos p = String.concat "" (List.map string_of_int (digits_of_pos p))
let dec_of_n = function N0 -> "0" | Npos p -> dec_of_pos p
let dec_of_z = function Z0 -> "0" | Zpos p -> dec_of_pos p | Zneg p -> "-" ^ dec_of_pos p
let rec nat_of_int n = if n <= 0 then O else S (nat_of_int (n - 1))

let dec s = if s = "" || s = "-" then [] else List.map n_of_dec (String.split_on_char ',' s)
let enc (l : str) = if l = [] then "-" else String.concat "," (List.map dec_of_n l)
let dec_opt s = if s = "!" then None else Some (dec s)
let enc_opt = function None -> "!" | Some s -> enc s

(* ---- values *)
let parse_value (s : string) : tv =
  let toks = ref (List.filter (fun x -> x <> "") (String.split_on_char ' ' s)) in
  let next () = match !toks with [] -> failwith "value: eof" | x :: t -> toks := t; x in
  let rec go () =
    match next () with
    | "s" -> TStr (dec (next ()))
    | "i" -> TInt (z_of_dec (next ()))
    | "f" -> TFloat (n_of_dec (next ()))
    | "b" -> TBool (next () = "1")
    | "d" -> TDate (dec (next ()))
    | "a" -> let n = int_of_string (next ()) in TArr (List.init n (fun _ -> go ()))
    | "t" -> let n = int_of_string (next ()) in
      TTab (List.init n (fun _ -> let k = dec (next ()) in let v = go () in (k, v)))
    | x -> failwith ("value: bad token " ^ x) in
  (* List.init evaluates in index order in OCaml >= 4.06 for short lists and also for long ones *)
  let v = go () in
  if !toks <> [] then failwith "value: trailing tokens"; v
let rec fmt_value (v : tv) : string =
  match v with
  | TStr s -> "s " ^ enc s
  | TInt z -> "i " ^ dec_of_z z
  | TFloat b -> "f " ^ dec_of_n b
  | TBool b -> if b then "b 1" else "b 0"
  | TDate s -> "d " ^ enc s
  | TArr l -> String.concat " " (("a " ^ string_of_int (List.length l)) :: List.map fmt_value l)
  | TTab l -> String.concat " " (("t " ^ string_of_int (List.length l)) :: List.map (fun (k, v) -> enc k ^ " " ^ fmt_value v) l)

(* ---- C16 *)
let fmt_chain ch = if ch = [] then "!" else String.concat ";" (List.map enc ch)
let fmt_err = function
  | EFileAccess p -> "ERR FileAccess " ^ enc p
  | ESyntax p -> "ERR Syntax " ^ enc p
  | ETooDeep (d, ch) -> "ERR TooDeep " ^ dec_of_n d ^ " " ^ fmt_chain ch
  | ECircular ch -> "ERR Circular " ^ fmt_chain ch
  | EReset (p, i) -> "ERR Reset " ^ enc p ^ " " ^ dec_of_n i
  | EPreset n -> "ERR Preset " ^ enc n
  | ERemote k -> "ERR Remote " ^ dec_of_n k
  | EResolution p -> "ERR Resolution " ^ enc p
  | EBadKey k -> "ERR BadKey " ^ enc k
let fmt_res = function
  | Ok (v, pu) -> "OK " ^ enc_opt pu ^ " " ^ fmt_value v
  | Err e -> fmt_err e
  | OutOfFuel -> "OUTOFFUEL"

(* fs items: file;<path>;<canon|!>;M|S|V <value>   preset;<name>;<value>
             remote;<url>;<sha|!>;E <kind>|S|V <value> *)
let parse_fs (items : string list) : fsys =
  let files = ref [] and presets = ref [] and remotes = ref [] in
  List.iter (fun it ->
    match String.split_on_char ';' it with
    | ["file"; p; c; body] ->
      let r = if body = "M" then RdMissing else if body = "S" then RdSyntax
        else RdOk (parse_value (String.sub body 2 (String.length body - 2))) in
      files := (dec p, (dec_opt c, r)) :: !files
    | ["preset"; n; v] -> presets := (dec n, parse_value v) :: !presets
    | ["remote"; u; h; body] ->
      let r = if body = "S" then FSyntax
        else if body.[0] = 'E' then FErr (n_of_dec (String.sub body 2 (String.length body - 2)))
        else FOk (parse_value (String.sub body 2 (String.length body - 2))) in
      remotes := ((dec u, dec_opt h), r) :: !remotes
    | _ -> failwith ("fs item: " ^ it)) items;
  { fs_read = (fun p -> match List.assoc_opt p !files with Some (_, r) -> r | None -> RdMissing);
    fs_canon = (fun p -> match List.assoc_opt p !files with Some (c, _) -> c | None -> None);
    fs_preset = (fun n -> List.assoc_opt n !presets);
    fs_remote = (fun u h -> match List.assoc_opt (u, h) !remotes with Some r -> r | None -> FErr (Npos XH)) }

(* ---- C18 *)
let parse_policy = function "normal" -> Normal | "offline" -> Offline | "refresh" -> Refresh | x -> failwith ("policy " ^ x)
(* cache entry: ! absent | <mtime>:<enc text> | G<mtime>:<bytes, comma separated> (a file whose bytes
   are not UTF-8) | D<mtime> (a directory at the entry path) *)
let parse_cache s = if s = "!" then None else
    let rest = String.sub s 1 (String.length s - 1) in
    if s.[0] = 'D' then Some { c_body = []; c_mtime = n_of_dec rest; c_kind = EDir }
    else if s.[0] = 'G' then
      (match String.split_on_char ':' rest with
       | [m; b] -> Some { c_body = dec b; c_mtime = n_of_dec m; c_kind = EGarbled }
       | _ -> failwith "cache")
    else
    match String.split_on_char ':' s with
    | [m; b] -> Some { c_body = dec b; c_mtime = n_of_dec m; c_kind = EText }
    | _ -> failwith "cache"
let fmt_cache = function
  | None -> "!"
  | Some e ->
    (match e.c_kind with
     | EText -> dec_of_n e.c_mtime ^ ":" ^ enc e.c_body
     | EGarbled -> "G" ^ dec_of_n e.c_mtime ^ ":" ^ enc e.c_body
     | EDir -> "D" ^ dec_of_n e.c_mtime)
let parse_server s = match String.split_on_char ':' s with
  | ["B"; b] -> SBody (dec b) | ["F"; k] -> SFail (n_of_dec k) | _ -> failwith "server"
let parse_htable s : str -> str =
  let tbl = if s = "!" then [] else List.map (fun it -> match String.split_on_char '=' it with
      | [b; h] -> (dec b, dec h) | _ -> failwith "htable") (String.split_on_char ';' s) in
  fun b -> match List.assoc_opt b tbl with Some h -> h | None -> failwith "H: body not in table"
let fmt_outcome = function
  | OContent s -> "CONTENT " ^ enc s
  | OMismatch a -> "MISMATCH " ^ enc a
  | OMiss -> "MISS"
  | OFail k -> "FAIL " ^ dec_of_n k
let parse_cp = function
  | "before_rename" -> BeforeRename | "after_rename" -> AfterRename | _ -> failwith "crash point"
let parse_step s = match String.split_on_char ';' s with
  | [p; now; e; srv] -> { st_policy = parse_policy p; st_now = n_of_dec now; st_expected = dec_opt e; st_server = parse_server srv }
  | _ -> failwith "step"

let handle (f : string list) : string =
  match f with
  | ["merge"; a; b] -> fmt_value (merge (parse_value a) (parse_value b))
  | ["marr"; a; b] ->
    (match parse_value a, parse_value b with
     | TArr x, TArr y -> fmt_value (merge_arrays x y) | _ -> "BADARGS")
  | ["isreset"; a] -> if is_reset_element (parse_value a) then "1" else "0"
  | ["strip"; a] -> fmt_value (strip (parse_value a))
  | ["hasany"; a] -> if has_any (parse_value a) then "1" else "0"
  | ["validate"; a] ->
    let v = parse_value a in
    (match validate v [] with
     | None -> if valid v then "OK" else "OK-BUT-VALID-FALSE"
     | Some (p, i) -> if valid v then "ERR-BUT-VALID-TRUE" else "ERR " ^ enc p ^ " " ^ dec_of_n i)
  | ["fold"; base] -> fmt_value (parse_value base)
  | "fold" :: base :: rest ->   (* left fold of merge, for the hand-flattened oracle *)
    fmt_value (List.fold_left (fun acc m -> merge acc (parse_value m)) (parse_value base) rest)
  | "resolve" :: noext :: path :: items ->
    fmt_res (load_top (parse_fs items) (dec path) (noext = "1"))
  | ["join"; b; e] -> enc (join_parent (dec b) (dec e))
  | ["fetch"; p; now; c; e; srv; ht] ->
    let ((o, c'), n) = fetch (parse_htable ht) (parse_policy p) (n_of_dec now) (parse_cache c) (dec_opt e) (parse_server srv) in
    fmt_outcome o ^ " | " ^ fmt_cache c' ^ " | " ^ dec_of_n n
  | "seq" :: c :: ht :: steps ->
    let (os, c') = run (parse_htable ht) (List.map parse_step steps) (parse_cache c) in
    String.concat " ; " (List.map (fun (o, n) -> fmt_outcome o ^ " " ^ dec_of_n n) os) ^ " | " ^ fmt_cache c'
  | "useq" :: urls :: ht :: steps ->   (* a history over several URLs sharing one, initially empty, cache directory *)
    let us = Array.of_list (List.map dec (String.split_on_char ';' urls)) in
    let parse_ustep s = match String.split_on_char ';' s with
      | [i; p; now; e; srv] ->
        { us_url = us.(int_of_string i);
          us_step = { st_policy = parse_policy p; st_now = n_of_dec now; st_expected = dec_opt e; st_server = parse_server srv } }
      | _ -> failwith "ustep" in
    let (os, d) = run_urls (parse_htable ht) (List.map parse_ustep steps) [] in
    String.concat " ; " (List.map (fun (o, n) -> fmt_outcome o ^ " " ^ dec_of_n n) os) ^ " | " ^
    (if d = [] then "!" else String.concat " & " (List.map (fun (_, e) -> fmt_cache (Some e)) d))
  | ["crash"; cp; p; now; c; e; srv; ht] ->
    (match fetch_crash (parse_htable ht) (parse_cp cp) (parse_policy p) (n_of_dec now) (parse_cache c) (dec_opt e) (parse_server srv) with
     | None -> "NOCRASH" | Some c' -> "CRASHED " ^ fmt_cache c')
  | ["consts"] -> "MAX " ^ dec_of_n mAX ^ " TTL " ^ dec_of_n tTL
  | _ -> "BADLINE"

let () =
  try while true do
    let line = input_line stdin in
    let r = try handle (String.split_on_char '\t' line) with Failure m -> "DRIVER-ERROR " ^ m | Not_found -> "DRIVER-ERROR notfound" in
    print_endline r
  done with End_of_file -> ()
