(* Driver for the extracted configuration-gate model (C17).
   argv: seven 0/1 digits = behav (rule_wt expires revalidate_cli validate_builds dur_checked count_exclude strict_dates).
   stdin: one case per line  CFG\t<config tokens>\tFLAGS\t<flag tokens>   or   PARSEFAIL\t...
          or  DUR\t<codepoints>  /  DATE\t<codepoints>  / CUT\t<now>\t<days>
   stdout: one result per line (see fmt_case). Token format = harness sgv-gate. *)
open Gate_ex

let rec pos_of_int n = if n = 1 then XH else if n land 1 = 0 then XO (pos_of_int (n lsr 1)) else XI (pos_of_int (n lsr 1))
let n_of_int n = if n = 0 then N0 else Npos (pos_of_int n)
let ten = n_of_int 10
(* decimal string of any size -> N, using the extracted arithmetic *)
let n_of_dec (s : string) : n =
  let acc = ref N0 in
  String.iter (fun ch ->
    if ch < '0' || ch > '9' then failwith ("bad number " ^ s);
    acc := N.add (N.mul !acc ten) (n_of_int (Char.code ch - 48))) s;
  !acc
let z_of_dec (s : string) : z =
  if String.length s > 0 && s.[0] = '-' then Z.opp (Z.of_N (n_of_dec (String.sub s 1 (String.length s - 1))))
  else Z.of_N (n_of_dec s)
let rec int_of_pos = function XH -> 1 | XO p -> 2 * int_of_pos p | XI p -> 2 * int_of_pos p + 1
let int_of_n = function N0 -> 0 | Npos p -> int_of_pos p
let rec dec_of_pos p = (* decimal printing of arbitrary positives via repeated halving is overkill; values printed are small *)
  string_of_int (int_of_pos p)
let dec s = if s = "" || s = "-" then [] else List.map (fun t -> n_of_dec t) (String.split_on_char ',' s)

(* token stream *)
type ts = { toks : string array; mutable pos : int }
let mk s = { toks = Array.of_list (List.filter (fun x -> x <> "") (String.split_on_char ' ' s)); pos = 0 }
let next t = if t.pos >= Array.length t.toks then failwith "out of tokens" else (let x = t.toks.(t.pos) in t.pos <- t.pos + 1; x)
let p_bool t = next t = "1"
let p_n t = n_of_dec (next t)
let p_z t = z_of_dec (next t)
let p_str t = dec (next t)
let p_int t = int_of_string (next t)
let p_opt f t = match next t with "N" -> None | "S" -> Some (f t) | x -> failwith ("bad option tag " ^ x)
let p_list f t = let k = p_int t in List.init k (fun _ -> f t)

let p_content_rule t =
  let ok = p_bool t in let ml = p_n t in let wt = p_opt p_n t in let wa = p_opt p_n t in let ex = p_opt p_str t in
  { cr_pattern_ok = ok; cr_max_lines = ml; cr_warn_threshold = wt; cr_warn_at = wa; cr_expires = ex }

let p_sibling t =
  match next t with
  | "D" -> let m = p_str t in let ok = p_bool t in let req = p_list p_str t in SDirected (m, ok, req)
  | "G" -> SGroup (p_list p_str t)
  | x -> failwith ("bad sibling tag " ^ x)

let p_struct_rule t =
  let scope = p_bool t in
  let mf = p_opt p_z t in let md = p_opt p_z t in let mdp = p_opt p_z t in
  let wt = p_opt p_n t in let wft = p_opt p_n t in let wdt = p_opt p_n t in
  let wfa = p_opt p_z t in let wda = p_opt p_z t in
  let ae = p_n t in let ap = p_list p_bool t in let af = p_list p_bool t in let ad = p_list p_bool t in
  let de = p_n t in let dp = p_list p_bool t in let df = p_list p_bool t in let dd = p_list p_bool t in
  let nm = p_opt p_bool t in let sib = p_list p_sibling t in let ex = p_opt p_str t in
  { sr_scope_ok = scope; sr_max_files = mf; sr_max_dirs = md; sr_max_depth = mdp;
    sr_warn_threshold = wt; sr_warn_files_threshold = wft; sr_warn_dirs_threshold = wdt;
    sr_warn_files_at = wfa; sr_warn_dirs_at = wda; sr_allow_ext = ae; sr_allow_patterns = ap;
    sr_allow_files = af; sr_allow_dirs = ad; sr_deny_ext = de; sr_deny_patterns = dp; sr_deny_files = df;
    sr_deny_dirs = dd; sr_naming = nm; sr_siblings = sib; sr_expires = ex }

let p_config t =
  let version = p_opt p_str t in
  let sx = p_list p_bool t in
  let ml = p_n t in let wt = p_n t in let wa = p_opt p_n t in
  let cx = p_list p_bool t in
  let rules = p_list p_content_rule t in
  let mf = p_opt p_z t in let md = p_opt p_z t in let mdp = p_opt p_z t in
  let swt = p_opt p_n t in let swft = p_opt p_n t in let swdt = p_opt p_n t in
  let wfa = p_opt p_z t in let wda = p_opt p_z t in
  let ce = p_list p_bool t in
  let de = p_n t in
  let dp = p_list (fun t -> let a = p_bool t in let b = p_bool t in (a, b)) t in
  let df = p_list p_bool t in let dd = p_list p_bool t in
  let ae = p_n t in let af = p_list p_bool t in let ad = p_list p_bool t in
  let srules = p_list p_struct_rule t in
  let te = p_opt p_n t in let ta = p_opt p_n t in let ti = p_opt p_n t in
  let rex = p_list p_str t in let rb = p_opt p_str t in let rs = p_opt p_str t in
  let br = p_opt p_n t in let wae = p_bool t in let ff = p_bool t in
  { c_version = version; c_scanner_exclude = sx; c_max_lines = ml; c_warn_threshold = wt; c_warn_at = wa;
    c_content_exclude = cx; c_rules = rules; s_max_files = mf; s_max_dirs = md; s_max_depth = mdp;
    s_warn_threshold = swt; s_warn_files_threshold = swft; s_warn_dirs_threshold = swdt;
    s_warn_files_at = wfa; s_warn_dirs_at = wda; s_count_exclude = ce; s_deny_ext = de; s_deny_patterns = dp;
    s_deny_files = df; s_deny_dirs = dd; s_allow_ext = ae; s_allow_files = af; s_allow_dirs = ad;
    s_rules = srules; t_max_entries = te; t_max_age_days = ta; t_min_interval_secs = ti;
    r_exclude = rex; r_breakdown_by = rb; r_trend_since = rs; b_ratchet = br;
    k_warnings_as_errors = wae; k_fail_fast = ff }

let p_flags t =
  let hp = p_bool t in let ml = p_opt p_n t in let wt = p_opt p_n t in
  let mf = p_opt p_z t in let md = p_opt p_z t in let mdp = p_opt p_z t in
  { f_has_path = hp; f_max_lines = ml; f_warn_threshold = wt; f_max_files = mf; f_max_dirs = md; f_max_depth = mdp }

let kind_name = function
  | RPathRequired -> "PathRequired" | RParse -> "Parse" | RVersion -> "Version"
  | RContentWarnThreshold -> "ContentWarnThreshold" | RContentWarnAt -> "ContentWarnAt"
  | RContentRuleWarnAt -> "ContentRuleWarnAt" | RContentRuleWarnThreshold -> "ContentRuleWarnThreshold"
  | RContentRuleExpires -> "ContentRuleExpires"
  | RGlobScannerExclude -> "GlobScannerExclude" | RGlobContentExclude -> "GlobContentExclude"
  | RReportExclude -> "ReportExclude" | RBreakdownBy -> "BreakdownBy" | RTrendSince -> "TrendSince"
  | RStructThreshold -> "StructThreshold" | RStructWarnAtNeg -> "StructWarnAtNeg" | RStructWarnAtLimit -> "StructWarnAtLimit"
  | RRuleThreshold -> "RuleThreshold" | RRuleWarnAtNeg -> "RuleWarnAtNeg" | RRuleWarnAtLimit -> "RuleWarnAtLimit"
  | RStructRuleExpires -> "StructRuleExpires" | RGlobContentRule -> "GlobContentRule"
  | RLimit -> "Limit" | RRuleLimit -> "RuleLimit"
  | RSiblingEmptyMatch -> "SiblingEmptyMatch" | RSiblingEmptyRequire -> "SiblingEmptyRequire"
  | RSiblingEmptyPattern -> "SiblingEmptyPattern" | RSiblingNoStem -> "SiblingNoStem" | RSiblingGroupSize -> "SiblingGroupSize"
  | RMixGlobal -> "MixGlobal" | RMixRule -> "MixRule" | RGlobScope -> "GlobScope" | RGlobSiblingMatch -> "GlobSiblingMatch"
  | RGlobRuleList -> "GlobRuleList" | RRegex -> "Regex" | RGlobCountExclude -> "GlobCountExclude" | RGlobGlobalList -> "GlobGlobalList"

let fmt_err ((k, i), j) = Printf.sprintf "R:%s:%d:%d" (kind_name k) (int_of_n i) (int_of_n j)
let fmt_out = function Accept _ -> "A" | Reject (k, i, j) -> fmt_err ((k, i), j) | Crash -> "C"
let fmt_sem = function SemOk -> "OK" | SemErr e -> fmt_err e | SemPanic -> "C"
let fmt_check = function None -> "OK" | Some e -> fmt_err e
let b01 b = if b then "1" else "0"

let () =
  let bits = if Array.length Sys.argv > 1 then Sys.argv.(1) else "0000000" in
  let g i = String.length bits > i && bits.[i] = '1' in
  let bh = { b_rule_wt = g 0; b_expires = g 1; b_revalidate_cli = g 2; b_validate_builds = g 3; b_dur_checked = g 4; b_count_exclude = g 5; b_strict_dates = g 6 } in
  let classes c fl =
    String.concat "," (List.filter (fun x -> x <> "") [
      (if k_rule_warn_threshold bh c then "K17_rule_warn_threshold" else "");
      (if k_expires bh c then "K17_expires" else "");
      (if k_cli_after_validation bh c fl then "K17_cli_after_validation" else "");
      (if k_overflow bh c then "K17_overflow" else "");
      (if k_dormant_glob bh c then "K17_dormant_glob" else "");
      (if k_lenient_date bh c then "K17_lenient_date" else "")]) in
  let case doc fl =
    let per p tag =
      Printf.sprintf "%s check=%s validate=%s show=%s" tag (fmt_out (gate_check bh p doc fl))
        (fmt_out (gate_validate_cmd bh p doc)) (fmt_out (gate_show bh p doc)) in
    let lib = match doc with
      | DocInvalid -> "sem=- sem2=- ctx=- en=- dom=- known=-"
      | DocConfig c ->
        let c' = apply_cli_overrides c fl in
        let k = classes c' fl in
        Printf.sprintf "sem=%s sem2=%s ctx=%s en=%s dom=%s known=%s" (fmt_sem (validate_semantics bh Debug c))
          (fmt_sem (validate_semantics bh Debug c'))
          (fmt_check (context_from_config c')) (b01 (structure_enabled c')) (b01 (in_domain c')) (if k = "" then "-" else k) in
    print_endline (per Debug "D" ^ " | " ^ per Release "R" ^ " | " ^ lib) in
  try while true do
    let line = input_line stdin in
    (try
      match String.split_on_char '\t' line with
      | "PARSEFAIL" :: _ :: "FLAGS" :: fl :: _ -> case DocInvalid (p_flags (mk fl))
      | "PARSEFAIL" :: _ -> case DocInvalid { f_has_path = false; f_max_lines = None; f_warn_threshold = None; f_max_files = None; f_max_dirs = None; f_max_depth = None }
      | "CFG" :: cfg :: "FLAGS" :: fl :: _ ->
        let c = p_config (mk cfg) in
        let f = p_flags (mk fl) in
        case (DocConfig c) f
      | ["DUR"; s] ->
        let f p chk = match parse_duration chk p (dec s) with DurOk _ -> "OK" | DurErr -> "ERR" | DurPanic -> "PANIC" in
        Printf.printf "DUR %s %s %s\n" (f Debug false) (f Release false) (f Debug true)
      | ["DATE"; s] -> Printf.printf "DATE %s %s\n" (b01 (date_valid (dec s))) (b01 (date_strict (dec s)))
      | ["CUT"; now; days] ->
        let f p chk = match retention_cutoff chk p (n_of_dec now) (n_of_dec days) with CutOk _ -> "OK" | CutPanic -> "PANIC" in
        Printf.printf "CUT %s %s %s\n" (f Debug false) (f Release false) (f Debug true)
      | _ -> print_endline "BADLINE"
    with Failure m -> print_endline ("BADCASE " ^ m));
    flush stdout
  done with End_of_file -> ()
