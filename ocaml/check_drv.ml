(* Driver for the extracted check-tail model (Check/*.v): same line protocol as harness sgv-check
   for the library-level commands, plus step / ffsub / ffseq which only the model answers.
   Library-level baselines arrive as the harness builds them (Baseline::set_* normalise the key:
   rekey) and are read back from the saved file (Baseline::load: rekey again).
   Fields are tab-separated; lists use ';' ('_' = empty list, 'N' = no baseline); records ':';
   strings are comma-separated scalar values ('-' = empty). *)
open Check_ex
let rec pos_of_int n = if n = 1 then XH else if n land 1 = 0 then XO (pos_of_int (n lsr 1)) else XI (pos_of_int (n lsr 1))
let n_of_int n = if n = 0 then N0 else Npos (pos_of_int n)
let rec int_of_pos = function XH -> 1 | XO p -> 2 * int_of_pos p | XI p -> 2 * int_of_pos p + 1
let int_of_n = function N0 -> 0 | Npos p -> int_of_pos p
let dec s = if s = "" || s = "-" then [] else List.map (fun t -> n_of_int (int_of_string t)) (String.split_on_char ',' s)
let enc l = if l = [] then "-" else String.concat "," (List.map (fun c -> string_of_int (int_of_n c)) l)
let dlist f s = if s = "_" || s = "" then [] else List.map f (String.split_on_char ';' s)
let elist f l = if l = [] then "_" else String.concat ";" (List.map f l)

let parse_kind k =
  if k = "c" || k.[0] = 'n' then Content
  else match k with
    | "sF" -> Structure FileCount | "sD" -> Structure DirCount | "sM" -> Structure MaxDepth
    | _ -> Structure (Placement (n_of_int (int_of_string (String.sub k 2 (String.length k - 2)))))
let parse_status = function "P" -> Passed | "W" -> Warning | "F" -> Failed | "G" -> Grandfathered | _ -> failwith "status"
let status_char r = match r.r_status with Passed -> "P" | Warning -> "W" | Failed -> "F" | Grandfathered -> "G"
let parse_result s = match String.split_on_char ':' s with
  | [p; k; st; c; l; h] ->
    { r_path = dec p; r_kind = parse_kind k; r_status = parse_status st;
      r_code = n_of_int (int_of_string c); r_limit = n_of_int (int_of_string l); r_hash = dec h }
  | _ -> failwith ("bad result " ^ s)
let parse_entry s = match String.split_on_char ':' s with
  | [k; "C"; l; h] -> (dec k, EContent (n_of_int (int_of_string l), dec h))
  | [k; "S"; "f"; c] -> (dec k, EStructure (Files, n_of_int (int_of_string c)))
  | [k; "S"; "d"; c] -> (dec k, EStructure (Dirs, n_of_int (int_of_string c)))
  | _ -> failwith ("bad entry " ^ s)
let fmt_entry (k, e) = match e with
  | EContent (l, h) -> Printf.sprintf "%s:C:%d:%s" (enc k) (int_of_n l) (enc h)
  | EStructure (Files, c) -> Printf.sprintf "%s:S:f:%d" (enc k) (int_of_n c)
  | EStructure (Dirs, c) -> Printf.sprintf "%s:S:d:%d" (enc k) (int_of_n c)
(* canonical form: the map read through lookup (first binding wins), sorted by encoded key *)
let fmt_bl (b : baseline) =
  let seen = Hashtbl.create 16 in
  let l = List.filter (fun (k, _) -> let s = enc k in if Hashtbl.mem seen s then false else (Hashtbl.add seen s (); true)) b in
  elist (fun x -> x) (List.sort compare (List.map fmt_entry l))
let parse_bl s : baseline = dlist parse_entry s
let parse_obl s = if s = "N" then None else Some (parse_bl s)
let fmt_obl = function None -> "N" | Some b -> fmt_bl b
let fmt_keys ks = elist (fun x -> x) (List.sort_uniq compare (List.map enc ks))
let parse_umode = function "a" -> UAll | "c" -> UContent | "s" -> UStructure | "n" -> UNew | _ -> failwith "umode"
let parse_rmode = function "w" -> Some RWarn | "a" -> Some RAuto | "s" -> Some RStrict | _ -> None
let b c = (c = '1')
let parse_flags s =
  (* b u rc rg wo wae ff, one char each *)
  { f_baseline = b s.[0];
    f_update = (if s.[1] = '-' then None else Some (parse_umode (String.make 1 s.[1])));
    f_ratchet_cli = parse_rmode (String.make 1 s.[2]);
    f_ratchet_cfg = parse_rmode (String.make 1 s.[3]);
    f_warn_only = b s.[4]; f_wae = b s.[5]; f_fail_fast = b s.[6] }
let statuses rs = if rs = [] then "_" else String.concat "" (List.map status_char rs)
let () =
  try while true do
    let line = input_line stdin in
    (try
      match String.split_on_char '\t' line with
      | ["exit"; rs; fl] ->
        print_endline (string_of_int (int_of_n (determine_exit_code (dlist parse_result rs) (b fl.[0]) (b fl.[1]) (b fl.[2]))))
      | ["apply"; rs; bl] ->
        print_endline (statuses (apply_baseline_comparison (dlist parse_result rs) (rekey (parse_bl bl))))
      | ["ratchet"; rs; bl] ->
        print_endline (fmt_keys (check_baseline_ratchet (dlist parse_result rs) (rekey (parse_bl bl))))
      | ["tighten"; bl; ks] ->
        print_endline (fmt_bl (rekey (tighten_baseline (rekey (parse_bl bl)) (dlist dec ks))))
      | ["update"; rs; m; obl] ->
        let ex = match parse_obl obl with None -> None | Some b -> Some (rekey b) in
        print_endline (fmt_bl (rekey (update_baseline_from_results (dlist parse_result rs) (parse_umode m) ex)))
      | ["step"; fl; rs; dirs; disk] ->
        let o = check_step (parse_flags fl) (dlist parse_result rs) (dlist dec dirs) (parse_obl disk) in
        Printf.printf "%s\t%d\t%s\t%s\n" (statuses o.o_results) (int_of_n o.o_exit) (fmt_obl o.o_disk) (fmt_keys o.o_stale)
      | ["ffsub"; r; r'; obl] ->
        print_endline (if ff_subb (parse_obl obl) (dlist parse_result r) (dlist parse_result r') then "1" else "0")
      | ["ffseq"; r; obl] ->
        print_endline (string_of_int (List.length (ff_seq (parse_obl obl) (dlist parse_result r))))
      | _ -> print_endline "BADLINE"
    with Failure m -> print_endline ("BAD " ^ m) | Invalid_argument m -> print_endline ("BAD " ^ m))
  done with End_of_file -> ()
