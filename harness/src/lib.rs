//! Shared helpers for the verification harness binaries.

/// Encode a string as comma-separated Unicode scalar values (`-` for empty).
#[must_use]
pub fn enc(s: &str) -> String {
    if s.is_empty() {
        return "-".to_string();
    }
    s.chars()
        .map(|c| (c as u32).to_string())
        .collect::<Vec<_>>()
        .join(",")
}

/// Decode the `enc` format.
#[must_use]
pub fn dec(s: &str) -> String {
    if s.is_empty() || s == "-" {
        return String::new();
    }
    s.split(',')
        .map(|t| char::from_u32(t.parse::<u32>().expect("codepoint")).expect("scalar"))
        .collect()
}

/// Decode lowercase hex into bytes.
#[must_use]
pub fn unhex(s: &str) -> Vec<u8> {
    if s == "-" {
        return Vec::new();
    }
    (0..s.len() / 2)
        .map(|i| u8::from_str_radix(&s[2 * i..2 * i + 2], 16).expect("hex"))
        .collect()
}

/// Silence the default panic message (we report panics ourselves).
pub fn quiet_panics() {
    std::panic::set_hook(Box::new(|_| {}));
}
