//! Check-tail harness (C09, C10, C11; exit-code part of C01).
//!
//! Library-level calls through `sloc_guard::commands::check::verif`. Reads tab-separated lines:
//!   exit    <results> <wo><wae><rf>         -> exit code
//!   apply   <results> <baseline>            -> status letters after apply_baseline_comparison
//!   ratchet <results> <baseline>            -> stale paths (sorted)
//!   tighten <baseline> <keys>               -> baseline read back from the file tighten_baseline saved
//!   update  <results> <mode> <baseline|N>   -> baseline read back from the file the update saved
//! Lists use ';' ('_' = empty, 'N' = no baseline), records ':', strings are comma-separated scalar
//! values ('-' = empty; in a result path the units U+DC80..U+DCFF are raw bytes, see dec_path).
//! result = path:kind:status:code:limit:hash (hash is ignored here: the
//! implementation hashes the file at `path` itself). The state file lives in the directory given
//! as first argument; the current directory holds the files whose hashes the generator knows.
use sgv::{dec, enc, quiet_panics};
use sloc_guard::baseline::{Baseline, BaselineEntry, StructureViolationType};
use sloc_guard::checker::{CheckResult, ViolationCategory, ViolationType};
use sloc_guard::cli::BaselineUpdateMode;
use sloc_guard::commands::check::verif::{
    apply_baseline_comparison, check_baseline_ratchet, determine_exit_code, tighten_baseline,
    update_baseline_from_results,
};
use sloc_guard::counter::LineStats;
use std::io::{self, BufRead, Write};
use std::path::{Path, PathBuf};

fn dlist(s: &str) -> Vec<&str> {
    if s == "_" || s.is_empty() {
        Vec::new()
    } else {
        s.split(';').collect()
    }
}

/// A result path: units U+DC80..U+DCFF stand for the raw bytes 0x80..0xFF (Python's
/// surrogateescape), so a path that is not valid UTF-8 can be sent; every other unit is a
/// scalar value and contributes its UTF-8 encoding.
fn dec_path(s: &str) -> PathBuf {
    use std::os::unix::ffi::OsStringExt;
    let mut bytes: Vec<u8> = Vec::new();
    if !(s.is_empty() || s == "-") {
        for t in s.split(',') {
            let u: u32 = t.parse().expect("unit");
            if (0xDC80..=0xDCFF).contains(&u) {
                bytes.push((u - 0xDC00) as u8);
            } else {
                let c = char::from_u32(u).expect("scalar");
                bytes.extend_from_slice(c.encode_utf8(&mut [0u8; 4]).as_bytes());
            }
        }
    }
    PathBuf::from(std::ffi::OsString::from_vec(bytes))
}

fn placement(tag: u32) -> ViolationType {
    match tag {
        0 => ViolationType::DisallowedFile,
        1 => ViolationType::DisallowedDirectory,
        2 => ViolationType::DeniedFile {
            pattern_or_extension: ".bin".to_string(),
        },
        3 => ViolationType::DeniedDirectory {
            pattern: "**/tmp/".to_string(),
        },
        4 => ViolationType::NamingConvention {
            expected_pattern: "^[a-z]+$".to_string(),
        },
        5 => ViolationType::MissingSibling {
            expected_sibling_pattern: "{stem}.test.rs".to_string(),
        },
        _ => ViolationType::GroupIncomplete {
            group_patterns: vec!["a".to_string(), "b".to_string()],
            missing_patterns: vec!["b".to_string()],
        },
    }
}

fn parse_result(s: &str) -> CheckResult {
    let f: Vec<&str> = s.split(':').collect();
    assert!(f.len() == 6, "bad result");
    let path = dec_path(f[0]);
    let (cat, reason): (Option<ViolationCategory>, Option<String>) = match f[1] {
        "c" => (Some(ViolationCategory::Content), None),
        "n" => (None, None),
        // no category but a legacy structure-looking reason: must still be treated as content
        "nS" => (None, Some("structure: files count exceeded".to_string())),
        k => {
            let vt = match k {
                "sF" => ViolationType::FileCount,
                "sD" => ViolationType::DirCount,
                "sM" => ViolationType::MaxDepth,
                _ => placement(k[2..].parse().expect("tag")),
            };
            (
                Some(ViolationCategory::Structure {
                    violation_type: vt,
                    triggering_rule: None,
                }),
                Some("structure: x".to_string()),
            )
        }
    };
    let code: usize = f[3].parse().expect("code");
    let limit: usize = f[4].parse().expect("limit");
    let stats = LineStats {
        total: code,
        code,
        comment: 0,
        blank: 0,
        ignored: 0,
    };
    match f[2] {
        "P" => CheckResult::Passed {
            path,
            stats,
            raw_stats: None,
            limit,
            override_reason: reason,
            violation_category: cat,
        },
        "W" => CheckResult::Warning {
            path,
            stats,
            raw_stats: None,
            limit,
            override_reason: reason,
            suggestions: None,
            violation_category: cat,
        },
        "F" => CheckResult::Failed {
            path,
            stats,
            raw_stats: None,
            limit,
            override_reason: reason,
            suggestions: None,
            violation_category: cat,
        },
        "G" => CheckResult::Grandfathered {
            path,
            stats,
            raw_stats: None,
            limit,
            override_reason: reason,
            violation_category: cat,
        },
        _ => panic!("status"),
    }
}

fn parse_results(s: &str) -> Vec<CheckResult> {
    dlist(s).into_iter().map(parse_result).collect()
}

fn parse_bl(s: &str) -> Baseline {
    let mut b = Baseline::new();
    for e in dlist(s) {
        let f: Vec<&str> = e.split(':').collect();
        let k = dec(f[0]);
        match f[1] {
            "C" => b.set_content(&k, f[2].parse().expect("lines"), dec(f[3])),
            _ => b.set_structure(
                &k,
                if f[2] == "f" {
                    StructureViolationType::Files
                } else {
                    StructureViolationType::Dirs
                },
                f[3].parse().expect("count"),
            ),
        }
    }
    b
}

fn fmt_bl(b: &Baseline) -> String {
    let mut v: Vec<String> = b
        .files()
        .iter()
        .map(|(k, e)| match e {
            BaselineEntry::Content { lines, hash } => format!("{}:C:{}:{}", enc(k), lines, enc(hash)),
            BaselineEntry::Structure {
                violation_type,
                count,
            } => format!(
                "{}:S:{}:{}",
                enc(k),
                if *violation_type == StructureViolationType::Files {
                    "f"
                } else {
                    "d"
                },
                count
            ),
        })
        .collect();
    v.sort();
    if v.is_empty() {
        "_".to_string()
    } else {
        v.join(";")
    }
}

fn status_letters(rs: &[CheckResult]) -> String {
    if rs.is_empty() {
        return "_".to_string();
    }
    rs.iter()
        .map(|r| {
            if r.is_passed() {
                'P'
            } else if r.is_warning() {
                'W'
            } else if r.is_failed() {
                'F'
            } else {
                'G'
            }
        })
        .collect()
}

fn handle(line: &str, state_file: &Path) -> String {
    let f: Vec<&str> = line.split('\t').collect();
    match f.as_slice() {
        ["exit", rs, fl] => {
            let fl = fl.as_bytes();
            determine_exit_code(
                &parse_results(rs),
                fl[0] == b'1',
                fl[1] == b'1',
                fl[2] == b'1',
            )
            .to_string()
        }
        ["apply", rs, bl] => {
            let mut rs = parse_results(rs);
            let before: Vec<(PathBuf, usize, usize)> = rs
                .iter()
                .map(|r| (r.path().to_path_buf(), r.stats().code, r.limit()))
                .collect();
            apply_baseline_comparison(&mut rs, &parse_bl(bl));
            let after: Vec<(PathBuf, usize, usize)> = rs
                .iter()
                .map(|r| (r.path().to_path_buf(), r.stats().code, r.limit()))
                .collect();
            // only the status may change
            if before == after {
                status_letters(&rs)
            } else {
                format!("{} FIELDS-CHANGED", status_letters(&rs))
            }
        }
        ["ratchet", rs, bl] => {
            let r = check_baseline_ratchet(&parse_results(rs), &parse_bl(bl));
            let mut v: Vec<String> = r.stale_paths.iter().map(|k| enc(k)).collect();
            v.sort();
            v.dedup();
            let s = if v.is_empty() { "_".to_string() } else { v.join(";") };
            if r.stale_entries == r.stale_paths.len() && r.is_outdated() == !r.stale_paths.is_empty() {
                s
            } else {
                format!("{s} COUNT-MISMATCH")
            }
        }
        ["tighten", bl, ks] => {
            let mut b = parse_bl(bl);
            let ks: Vec<String> = dlist(ks).into_iter().map(dec).collect();
            let _ = std::fs::remove_file(state_file);
            match tighten_baseline(&mut b, &ks, state_file) {
                Ok(o) if o.is_saved() => {
                    let disk = Baseline::load(state_file).expect("load back");
                    if disk == b {
                        fmt_bl(&disk)
                    } else {
                        format!("{} MEMORY-DIFFERS {}", fmt_bl(&disk), fmt_bl(&b))
                    }
                }
                Ok(_) => "SKIPPED".to_string(),
                Err(e) => format!("ERR {e}"),
            }
        }
        ["update", rs, m, obl] => {
            let mode = match *m {
                "a" => BaselineUpdateMode::All,
                "c" => BaselineUpdateMode::Content,
                "s" => BaselineUpdateMode::Structure,
                _ => BaselineUpdateMode::New,
            };
            let existing = if *obl == "N" { None } else { Some(parse_bl(obl)) };
            let _ = std::fs::remove_file(state_file);
            match update_baseline_from_results(&parse_results(rs), mode, state_file, existing.as_ref()) {
                Ok(o) if o.is_saved() => fmt_bl(&Baseline::load(state_file).expect("load back")),
                Ok(_) => "SKIPPED".to_string(),
                Err(e) => format!("ERR {e}"),
            }
        }
        _ => "BADLINE".to_string(),
    }
}

fn main() {
    quiet_panics();
    let dir = std::env::args().nth(1).expect("state dir");
    let state_file = PathBuf::from(dir).join(format!("bl-{}.json", std::process::id()));
    let out = io::stdout();
    let mut out = out.lock();
    for l in io::stdin().lock().lines() {
        let l = l.unwrap();
        let sf = state_file.clone();
        let r = std::panic::catch_unwind(move || handle(&l, &sf));
        match r {
            Ok(s) => writeln!(out, "{s}").unwrap(),
            Err(_) => writeln!(out, "PANIC").unwrap(),
        }
        out.flush().unwrap();
    }
    let _ = std::fs::remove_file(&state_file);
}
