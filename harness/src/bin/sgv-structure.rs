//! Structure harness (C06, C07).
//!
//! Line protocol, first argument selects the mode:
//!   case      one JSON object per line: {"proj","root","gitignore","nodes":[[relpath,kind],..]}, optional "extra_exclude"
//!             (command-line -x patterns) and "roots" (several requested scan roots; they pass through resolve_scan_paths)
//!             -> the library pipeline of `check` (config loader, CheckContext::from_config, scanner,
//!             StructureChecker::{check, check_siblings, explain}) on the real tree under `proj`,
//!             plus the ORACLE COLUMNS of every node computed with the real compiled matchers.
//!   checkmap  {"toml": "...", "stats": [[path, files, dirs, depth], ..]} -> StructureChecker::check on
//!             an arbitrary DirStats map (+ the limit-scope column of every key, + explain)
//!   roots     {"roots": [..]} -> resolve_scan_paths on the request + the marked normalised key of every root
//!   pathfns   codepoints of a name -> std Path::extension / file_stem
//!   warnpoint "<limit> <bits>" -> ((limit as f64) * f64::from_bits(bits)).ceil() as usize
//! Every call runs under catch_unwind.
use serde_json::{Value, json};
use sgv::{dec, enc, quiet_panics};
use sloc_guard::checker::{DirStats, StructureChecker, StructureViolation};
use sloc_guard::commands::context::CheckContext;
use sloc_guard::config::{
    Config, ConfigLoader, FileConfigLoader, SiblingRule, verif_validate_config_semantics,
};
use sloc_guard::scanner::StructureScanConfig;
use sloc_guard::verif_hooks::{normalize_for_matching, resolve_scan_paths};
use std::collections::HashMap;
use std::io::{self, BufRead, Write};
use std::path::{Path, PathBuf};

fn first(v: Vec<usize>) -> Value {
    v.into_iter().next().map_or(Value::Null, |i| json!(i))
}

fn viol(v: &StructureViolation) -> Value {
    json!({
        "path": v.path.to_string_lossy(),
        "type": serde_json::to_value(&v.violation_type).unwrap_or(Value::Null),
        "actual": v.actual,
        "limit": v.limit,
        "warn": v.is_warning,
        "rule": v.triggering_rule_pattern,
        "reason": v.override_reason,
    })
}

fn compile(scope: &str) -> Option<globset::GlobMatcher> {
    globset::Glob::new(scope).ok().map(|g| g.compile_matcher())
}

/// limit-scope column: every structure rule's scope matcher on the NORMALISED path (what
/// resolve_limits / explain / check_siblings' rule selection (fixes/D81) evaluate since fixes/D07)
fn lim_scope(config: &Config, p: &Path) -> Vec<bool> {
    let p = &normalize_for_matching(p);
    config
        .structure
        .rules
        .iter()
        .map(|r| compile(&r.scope).is_some_and(|m| m.is_match(p)))
        .collect()
}

fn plc_scope(sc: Option<&StructureScanConfig>, p: &Path) -> Vec<bool> {
    sc.map_or_else(Vec::new, |c| {
        c.allowlist_rules
            .iter()
            .map(|r| r.matches_directory(p))
            .collect()
    })
}

fn columns(config: &Config, sc: Option<&StructureScanConfig>, raw: &Path, kind: &str) -> Value {
    // names come from the raw walked path, path patterns see the normalised path (fixes/D07)
    let name = raw.file_name().unwrap_or_default();
    let name_s = name.to_string_lossy();
    let norm = normalize_for_matching(raw);
    let p: &Path = &norm;
    let (se_name, se_path, se_dir, ce_name, ce_path) = sc.map_or((false, false, false, false, false), |c| {
        (
            c.scanner_exclude.is_match(name),
            c.scanner_exclude.is_match(p),
            c.scanner_exclude_dir_names.iter().any(|d| *d == name_s),
            c.count_exclude.is_match(name),
            c.count_exclude.is_match(p),
        )
    });
    let g = sc.map_or_else(
        || json!([false, false, null, null, null, null, null, null]),
        |c| {
            json!([
                c.global_allow_files.is_match(name),
                c.global_allow_dirs.is_match(name),
                first(c.global_deny_files.matches(name)),
                first(c.global_deny_patterns.matches(name)),
                first(c.global_deny_patterns.matches(p)),
                first(c.global_deny_dir_patterns.matches(name)),
                first(c.global_deny_dir_patterns.matches(p)),
                first(c.global_deny_dir_basenames.matches(name)),
            ])
        },
    );
    let r: Vec<Value> = sc.map_or_else(Vec::new, |c| {
        c.allowlist_rules
            .iter()
            .map(|r| {
                json!([
                    r.allow_files.is_match(name),
                    r.allow_patterns.is_match(name),
                    r.allow_patterns.is_match(p),
                    r.allow_dirs.is_match(name),
                    first(r.deny_files.matches(name)),
                    first(r.deny_patterns.matches(name)),
                    first(r.deny_patterns.matches(p)),
                    first(r.deny_dirs.matches(name)),
                    r.filename_matches_naming_pattern(raw),
                ])
            })
            .collect()
    });
    // directed sibling file matchers on the file name (a &str in the code)
    let sib: Vec<Vec<bool>> = config
        .structure
        .rules
        .iter()
        .map(|rule| {
            rule.siblings
                .iter()
                .map(|s| match s {
                    SiblingRule::Directed { match_pattern, .. } => name
                        .to_str()
                        .is_some_and(|n| compile(match_pattern).is_some_and(|m| m.is_match(n))),
                    SiblingRule::Group { .. } => false,
                })
                .collect()
        })
        .collect();
    let is_dir = kind == "d";
    json!({
        "se_name": se_name, "se_path": se_path, "se_dir": se_dir, "ce_name": ce_name, "ce_path": ce_path,
        "lim": if is_dir { lim_scope(config, raw) } else { Vec::new() },
        "plc": if is_dir { plc_scope(sc, raw) } else { Vec::new() },
        "g": g, "r": r, "sib": sib,
    })
}

fn explain_json(checker: &StructureChecker, p: &Path) -> Value {
    let e = checker.explain(p);
    let v = serde_json::to_value(&e).unwrap_or(Value::Null);
    // the implementation's own answer to: does rule i's scope match this directory (limit / explain site)
    let chain: Vec<bool> = v
        .get("rule_chain")
        .and_then(Value::as_array)
        .map(|a| {
            a.iter()
                .filter(|c| c.get("pattern").is_some_and(|p| !p.is_null()))
                .map(|c| c.get("status").and_then(Value::as_str) != Some("no_match"))
                .collect()
        })
        .unwrap_or_default();
    json!({
        "chain": chain,
        "matched": v.get("matched_rule").cloned().unwrap_or(Value::Null),
        "max_files": e.effective_max_files,
        "max_dirs": e.effective_max_dirs,
        "max_depth": e.effective_max_depth,
        "warn_bits": e.warn_threshold.to_bits().to_string(),
    })
}

fn run_case(j: &Value) -> Value {
    let proj = j["proj"].as_str().unwrap_or(".");
    let root = j["root"].as_str().unwrap_or("t");
    let gitignore = j["gitignore"].as_bool().unwrap_or(false);
    if std::env::set_current_dir(proj).is_err() {
        return json!({"fatal": "chdir"});
    }
    let loaded = FileConfigLoader::default().load_from_path(Path::new(".sloc-guard.toml"));
    let config = match loaded {
        Ok(r) => r.config,
        Err(e) => return json!({"cfg_err": e.to_string(), "stage": "load"}),
    };
    if let Err(e) = verif_validate_config_semantics(&config) {
        return json!({"cfg_err": e.to_string(), "stage": "semantics"});
    }
    // runner.rs: scanner.exclude of the configuration followed by the command line's -x/--exclude patterns
    let mut exclude = config.scanner.exclude.clone();
    if let Some(extra) = j["extra_exclude"].as_array() {
        exclude.extend(extra.iter().filter_map(|v| v.as_str().map(String::from)));
    }
    let use_gitignore = config.scanner.gitignore && gitignore;
    let ctx = match CheckContext::from_config(&config, config.content.warn_threshold, exclude, use_gitignore) {
        Ok(c) => c,
        Err(e) => return json!({"cfg_err": e.to_string(), "stage": "context"}),
    };
    let sc = ctx.structure_scan_config.as_ref();
    // check_scan.rs: the requested roots go through resolve_scan_paths (outermost roots only, the first of equal
    // spellings), then through ONE scan_all_with_structure
    let requested: Vec<PathBuf> = j["roots"].as_array().map_or_else(
        || vec![PathBuf::from(root)],
        |a| a.iter().filter_map(|v| v.as_str().map(PathBuf::from)).collect(),
    );
    let walked = resolve_scan_paths(&requested, &[]);
    let scan = match ctx.scanner.scan_all_with_structure(&walked, sc) {
        Ok(s) => s,
        Err(e) => return json!({"fatal": e.to_string()}),
    };
    let mut stats: Vec<Value> = scan
        .dir_stats
        .iter()
        .map(|(p, s)| json!([p.to_string_lossy(), s.file_count, s.dir_count, s.depth]))
        .collect();
    stats.sort_by_key(|v| v[0].as_str().unwrap_or("").to_string());
    let files: Vec<String> = scan.files.iter().map(|p| p.to_string_lossy().to_string()).collect();
    let placement: Vec<Value> = scan.allowlist_violations.iter().map(viol).collect();
    let checker = ctx.structure_checker.as_ref();
    let enabled = checker.is_some_and(StructureChecker::is_enabled);
    let (limits, sib): (Vec<Value>, Vec<Value>) = match checker {
        Some(c) if enabled => (
            c.check(&scan.dir_stats).iter().map(viol).collect(),
            c.check_siblings(&scan.files).iter().map(viol).collect(),
        ),
        _ => (Vec::new(), Vec::new()),
    };
    let mut oracle = serde_json::Map::new();
    let mut explain = serde_json::Map::new();
    if let Some(nodes) = j["nodes"].as_array() {
        for n in nodes {
            let (Some(p), Some(k)) = (n[0].as_str(), n[1].as_str()) else {
                continue;
            };
            oracle.insert(p.to_string(), columns(&config, sc, Path::new(p), k));
            if k == "d"
                && enabled
                && let Some(c) = checker
            {
                explain.insert(p.to_string(), explain_json(c, Path::new(p)));
            }
        }
    }
    let rparent = Path::new(root).parent().unwrap_or_else(|| Path::new(""));
    json!({
        "scan_enabled": sc.is_some(),
        "checker_enabled": enabled,
        "stats": stats, "files": files, "placement": placement, "limits": limits, "siblings": sib,
        "oracle": oracle, "explain": explain,
        "rp": plc_scope(sc, rparent), "rl": lim_scope(&config, rparent),
        "walked": walked.iter().map(|p| p.to_string_lossy().to_string()).collect::<Vec<_>>(),
    })
}

fn run_checkmap(j: &Value) -> Value {
    let toml_text = j["toml"].as_str().unwrap_or("");
    let config: Config = match toml::from_str(toml_text) {
        Ok(c) => c,
        Err(e) => return json!({"cfg_err": e.to_string(), "stage": "parse"}),
    };
    let checker = match StructureChecker::new(&config.structure) {
        Ok(c) => c,
        Err(e) => return json!({"cfg_err": e.to_string(), "stage": "checker"}),
    };
    let mut map: HashMap<PathBuf, DirStats> = HashMap::new();
    let mut scopes = serde_json::Map::new();
    let mut explain = serde_json::Map::new();
    if let Some(st) = j["stats"].as_array() {
        for s in st {
            let p = s[0].as_str().unwrap_or("");
            let g = |i: usize| usize::try_from(s[i].as_u64().unwrap_or(0)).unwrap_or(0);
            map.insert(PathBuf::from(p), DirStats { file_count: g(1), dir_count: g(2), depth: g(3) });
            scopes.insert(p.to_string(), json!(lim_scope(&config, Path::new(p))));
            explain.insert(p.to_string(), explain_json(&checker, Path::new(p)));
        }
    }
    let limits: Vec<Value> = checker.check(&map).iter().map(viol).collect();
    json!({"enabled": checker.is_enabled(), "limits": limits, "scopes": scopes, "explain": explain})
}

/// roots mode: {"roots": [..]} -> the walked roots (indices into the request) as resolve_scan_paths selects them,
/// and the MARKED NORMALISED KEY of every requested root (marker "." = relative to the current directory,
/// "/" = absolute, then the components of normalize_for_matching) for the model
fn run_roots(j: &Value) -> Value {
    let roots: Vec<PathBuf> = j["roots"]
        .as_array()
        .map_or_else(Vec::new, |a| a.iter().filter_map(|v| v.as_str().map(PathBuf::from)).collect());
    let walked = resolve_scan_paths(&roots, &[]);
    // the result is a subsequence of the request: recover the indices greedily
    let mut idx = Vec::new();
    let mut from = 0usize;
    let mut subsequence = true;
    for w in &walked {
        match roots[from..].iter().position(|r| r == w) {
            Some(k) => {
                idx.push(from + k);
                from += k + 1;
            }
            None => subsequence = false,
        }
    }
    let keys: Vec<Vec<String>> = roots
        .iter()
        .map(|r| {
            let n = normalize_for_matching(r);
            let mut k = vec![if n.is_absolute() { "/".to_string() } else { ".".to_string() }];
            k.extend(n.components().filter_map(|c| match c {
                std::path::Component::RootDir | std::path::Component::Prefix(_) => None,
                other => Some(other.as_os_str().to_string_lossy().to_string()),
            }));
            k
        })
        .collect();
    json!({"walked": idx, "subsequence": subsequence, "keys": keys,
           "walked_paths": walked.iter().map(|p| p.to_string_lossy().to_string()).collect::<Vec<_>>()})
}

fn main() {
    quiet_panics();
    let mode = std::env::args().nth(1).unwrap_or_default();
    let stdin = io::stdin();
    let stdout = io::stdout();
    let mut out = stdout.lock();
    for line in stdin.lock().lines() {
        let Ok(line) = line else { break };
        let res = std::panic::catch_unwind(|| match mode.as_str() {
            "case" | "checkmap" | "roots" => {
                let j: Value = serde_json::from_str(&line).unwrap_or(Value::Null);
                let r = match mode.as_str() {
                    "case" => run_case(&j),
                    "checkmap" => run_checkmap(&j),
                    _ => run_roots(&j),
                };
                r.to_string()
            }
            "pathfns" => {
                let name = dec(&line);
                let p = Path::new(&name);
                let f = |o: Option<&std::ffi::OsStr>| o.map_or("N".to_string(), |s| format!("S{}", enc(&s.to_string_lossy())));
                format!("{} {}", f(p.extension()), f(p.file_stem()))
            }
            "warnpoint" => {
                let f: Vec<&str> = line.split(' ').collect();
                let limit: i64 = f[0].parse().unwrap_or(0);
                let bits: u64 = f[1].parse().unwrap_or(0);
                #[allow(clippy::cast_possible_truncation, clippy::cast_sign_loss, clippy::cast_precision_loss)]
                let w = ((limit as f64) * f64::from_bits(bits)).ceil() as usize;
                w.to_string()
            }
            _ => "BADMODE".to_string(),
        });
        let s = res.unwrap_or_else(|_| "PANIC".to_string());
        if writeln!(out, "{s}").is_err() {
            break;
        }
        let _ = out.flush();
    }
}
