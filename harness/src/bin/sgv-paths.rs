//! Path normaliser harness (C08): lines `norm\t<cwd>\t<path>` (code points). The process changes its
//! current directory to <cwd> when that directory exists; otherwise the line is answered for the
//! process's actual cwd only if it equals <cwd>.
use sgv::{dec, enc, quiet_panics};
use std::io::{self, BufRead, Write};
use std::path::Path;

fn main() {
    quiet_panics();
    let out = io::stdout();
    let mut out = out.lock();
    for l in io::stdin().lock().lines() {
        let l = l.unwrap();
        let f: Vec<&str> = l.split('\t').collect();
        if f.len() != 3 || f[0] != "norm" {
            writeln!(out, "BADLINE").unwrap();
            continue;
        }
        let cwd = dec(f[1]);
        let p = dec(f[2]);
        let _ = std::fs::create_dir_all(&cwd);
        let _ = std::env::set_current_dir(&cwd);
        let r = std::panic::catch_unwind(|| {
            sloc_guard::verif_hooks::normalize_for_matching(Path::new(&p))
                .to_string_lossy()
                .to_string()
        });
        match r {
            Ok(s) => writeln!(out, "{}", enc(&s)).unwrap(),
            Err(_) => writeln!(out, "PANIC").unwrap(),
        }
    }
}
