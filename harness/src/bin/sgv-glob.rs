//! Glob oracle: lines `<pattern>\t<path>` (raw UTF-8, no tabs inside) -> `1` / `0` / `ERR`,
//! using globset exactly as the crate does (`Glob::new(pattern)`, default options).
use globset::Glob;
use std::collections::HashMap;
use std::io::{self, BufRead, Write};

fn main() {
    let out = io::stdout();
    let mut out = out.lock();
    let mut cache: HashMap<String, Option<globset::GlobMatcher>> = HashMap::new();
    for l in io::stdin().lock().lines() {
        let l = l.unwrap();
        let mut it = l.splitn(2, '\t');
        let pat = it.next().unwrap_or("").to_string();
        let path = it.next().unwrap_or("");
        let m = cache
            .entry(pat.clone())
            .or_insert_with(|| Glob::new(&pat).ok().map(|g| g.compile_matcher()));
        match m {
            Some(g) => writeln!(out, "{}", u8::from(g.is_match(path))).unwrap(),
            None => writeln!(out, "ERR").unwrap(),
        }
    }
}
