// The real CLI entry point of /repo, compiled against the hooked library.
include!("/repo/src/main.rs");
