//! Trend harness (C15): library-level trend / duration functions.
//!
//! Reads tab-separated lines, prints one result per line; every call under catch_unwind
//! (`PANIC` on unwind). Built in the debug AND the release profile (overflow behaviour).
//!   dur   <enc str>
//!   add   <cfg> <now> <entries>                        should_add
//!   ret   <cfg> <now> <entries>                        apply_retention
//!   snap  <cfg> <force> <now> <totals> <tag> <entries> should_add / add_entry / apply_retention
//!   delta <cfg> <since secs|-> <now> <totals> <entries> compute_delta / compute_delta_since + is_significant
//!   since <cfg> <enc str> <now> <totals> <entries>     the run_trend composition (parse, fall back)
//! cfg     = max_entries,max_age_days,min_interval_secs,min_code_delta  (each a number or `-`)
//! totals  = files:lines:code:comment:blank
//! entries = `;`-separated ts:files:lines:code:comment:blank:tag   (`-` for none; tag 0 = no git ref)
use sgv::{dec, quiet_panics};
use sloc_guard::config::TrendConfig;
use sloc_guard::output::ProjectStatistics;
use sloc_guard::stats::{TrendDelta, TrendEntry, TrendHistory, parse_duration};
use std::io::{self, BufRead, Write};

fn opt<T: std::str::FromStr>(s: &str) -> Option<T> {
    if s == "-" { None } else { s.parse().ok() }
}

fn cfg(s: &str) -> TrendConfig {
    let f: Vec<&str> = s.split(',').collect();
    TrendConfig {
        max_entries: opt(f[0]),
        max_age_days: opt(f[1]),
        min_interval_secs: opt(f[2]),
        min_code_delta: opt(f[3]),
        auto_snapshot_on_check: None,
    }
}

fn entry(s: &str) -> TrendEntry {
    let f: Vec<&str> = s.split(':').collect();
    let tag: u64 = f[6].parse().expect("tag");
    TrendEntry {
        timestamp: f[0].parse().expect("ts"),
        total_files: f[1].parse().expect("n"),
        total_lines: f[2].parse().expect("n"),
        code: f[3].parse().expect("n"),
        comment: f[4].parse().expect("n"),
        blank: f[5].parse().expect("n"),
        git_ref: if tag == 0 { None } else { Some(tag.to_string()) },
        git_branch: None,
    }
}

fn history(s: &str) -> TrendHistory {
    let mut h = TrendHistory::new();
    if s != "-" {
        for e in s.split(';') {
            h.add_entry(entry(e));
        }
    }
    h
}

fn totals(s: &str) -> ProjectStatistics {
    let f: Vec<usize> = s.split(':').map(|x| x.parse().expect("n")).collect();
    ProjectStatistics {
        total_files: f[0],
        total_lines: f[1],
        total_code: f[2],
        total_comment: f[3],
        total_blank: f[4],
        ..Default::default()
    }
}

fn tag_of(r: &Option<String>) -> String {
    r.clone().unwrap_or_else(|| "0".to_string())
}

fn fmt_entries(h: &TrendHistory) -> String {
    if h.is_empty() {
        return "-".to_string();
    }
    h.entries()
        .iter()
        .map(|e| {
            format!(
                "{}:{}:{}:{}:{}:{}:{}",
                e.timestamp,
                e.total_files,
                e.total_lines,
                e.code,
                e.comment,
                e.blank,
                tag_of(&e.git_ref)
            )
        })
        .collect::<Vec<_>>()
        .join(";")
}

fn fmt_delta(d: &Option<TrendDelta>, c: &TrendConfig) -> String {
    match d {
        None => "NONE".to_string(),
        Some(d) => format!(
            "D {} {} {} {} {} {} {} SIG{}",
            d.files_delta,
            d.lines_delta,
            d.code_delta,
            d.comment_delta,
            d.blank_delta,
            d.previous_timestamp.map_or("-".to_string(), |t| t.to_string()),
            tag_of(&d.previous_git_ref),
            u8::from(d.is_significant(c))
        ),
    }
}

fn err_kind(m: &str) -> &'static str {
    if m.contains("cannot be empty") {
        "EMPTY"
    } else if m.contains("Missing unit") {
        "NOUNIT"
    } else if m.contains("Missing number") {
        "NONUM"
    } else if m.contains("Invalid duration number") {
        "BADNUM"
    } else if m.contains("greater than zero") {
        "ZERO"
    } else if m.contains("Invalid duration unit") {
        "BADUNIT"
    } else if m.contains("too large") {
        "TOOLARGE"
    } else {
        "OTHER"
    }
}

fn run(f: &[&str]) -> String {
    match f[0] {
        "dur" => match parse_duration(&dec(f[1])) {
            Ok(v) => format!("OK {v}"),
            Err(e) => format!("ERR {}", err_kind(&e.message())),
        },
        "add" => {
            let h = history(f[3]);
            format!("OK {}", u8::from(h.should_add(&cfg(f[1]), f[2].parse().expect("now"))))
        }
        "ret" => {
            let mut h = history(f[3]);
            let removed = h.apply_retention(&cfg(f[1]), f[2].parse().expect("now"));
            format!("OK {removed} {}", fmt_entries(&h))
        }
        "snap" => {
            // the sequence of commands/snapshot.rs with the clock as a parameter
            let c = cfg(f[1]);
            let force = f[2] == "1";
            let now: u64 = f[3].parse().expect("now");
            let mut h = history(f[6]);
            if !(force || h.should_add(&c, now)) {
                return "SKIP".to_string();
            }
            let tag: u64 = f[5].parse().expect("tag");
            let e = TrendEntry::new(&totals(f[4]))
                .with_timestamp(now)
                .with_git_context(if tag == 0 { None } else { Some(tag.to_string()) }, None);
            h.add_entry(e);
            h.apply_retention(&c, now);
            format!("SAVED {}", fmt_entries(&h))
        }
        "delta" => {
            let c = cfg(f[1]);
            let now: u64 = f[3].parse().expect("now");
            let cur = totals(f[4]);
            let h = history(f[5]);
            let d = match opt::<u64>(f[2]) {
                None => h.compute_delta(&cur),
                Some(s) => h.compute_delta_since(s, &cur, now),
            };
            fmt_delta(&d, &c)
        }
        "since" => {
            let c = cfg(f[1]);
            let now: u64 = f[3].parse().expect("now");
            let cur = totals(f[4]);
            let h = history(f[5]);
            let d = match parse_duration(&dec(f[2])) {
                Ok(s) => h.compute_delta_since(s, &cur, now),
                Err(_) => h.compute_delta(&cur),
            };
            fmt_delta(&d, &c)
        }
        _ => "BADMODE".to_string(),
    }
}

fn main() {
    quiet_panics();
    let out = io::stdout();
    let mut out = out.lock();
    for l in io::stdin().lock().lines() {
        let l = l.unwrap();
        let f: Vec<&str> = l.split('\t').collect();
        let r = std::panic::catch_unwind(|| run(&f)).unwrap_or_else(|_| "PANIC".to_string());
        writeln!(out, "{r}").unwrap();
    }
}
