//! Counter harness (C02, C03, C04).
//!
//! `sgv-counter dump` prints the built-in registry.
//! Otherwise reads tab-separated lines `<mode>\t<syntax>\t<src>`:
//!   mode   = count | bytes | classes
//!   syntax = `ext:<ext>` or `;`-separated items `S=<str>` / `M=<start>:<end>:<nest>:<linestart>:<kind>`
//!   src    = codepoints (`count`, `classes`) or hex bytes (`bytes`)
use sgv::{dec, enc, quiet_panics, unhex};
use sloc_guard::counter::{CountResult, SlocCounter};
use sloc_guard::language::{CommentSyntax, LanguageRegistry, MultiLineComment, PatternKind};
use std::io::{self, BufRead, Write};

fn parse_syntax(reg: &LanguageRegistry, s: &str) -> CommentSyntax {
    if let Some(ext) = s.strip_prefix("ext:") {
        return reg
            .get_by_extension(ext)
            .expect("known extension")
            .comment_syntax
            .clone();
    }
    // `cfg:` = a custom language as the configuration defines it, taken through the registry constructor
    // (with_custom_languages_checked) exactly like `[languages.X]` tables are
    if let Some(items) = s.strip_prefix("cfg:") {
        let mut cfg = sloc_guard::config::CustomLanguageConfig {
            extensions: vec!["zzv".to_string()],
            single_line_comments: Vec::new(),
            multi_line_comments: Vec::new(),
        };
        for item in items.split(';').filter(|x| !x.is_empty()) {
            if let Some(v) = item.strip_prefix("S=") {
                cfg.single_line_comments.push(dec(v));
            } else if let Some(v) = item.strip_prefix("M=") {
                let f: Vec<&str> = v.split(':').collect();
                cfg.multi_line_comments.push((dec(f[0]), dec(f[1])));
            }
        }
        let mut map = std::collections::HashMap::new();
        map.insert("Zzv".to_string(), cfg);
        let (custom_reg, _) = LanguageRegistry::with_custom_languages_checked(&map);
        return custom_reg
            .get_by_extension("zzv")
            .expect("custom extension")
            .comment_syntax
            .clone();
    }
    let mut single = Vec::new();
    let mut multi = Vec::new();
    for item in s.split(';').filter(|x| !x.is_empty()) {
        if let Some(v) = item.strip_prefix("S=") {
            single.push(dec(v));
        } else if let Some(v) = item.strip_prefix("M=") {
            let f: Vec<&str> = v.split(':').collect();
            multi.push(MultiLineComment {
                start: dec(f[0]),
                end: dec(f[1]),
                supports_nesting: f[2] == "1",
                must_be_at_line_start: f[3] == "1",
                pattern_kind: match f[4] {
                    "1" => PatternKind::LuaLongBracket,
                    "2" => PatternKind::RustRawString,
                    _ => PatternKind::Static,
                },
            });
        }
    }
    CommentSyntax {
        single_line: single,
        multi_line: multi,
    }
}

fn fmt(r: &CountResult) -> String {
    match r {
        CountResult::Stats(s) => format!(
            "OK {} {} {} {} {}",
            s.total, s.code, s.comment, s.blank, s.ignored
        ),
        CountResult::IgnoredFile => "IGN".to_string(),
    }
}

fn three(sy: &CommentSyntax, src: &str) -> String {
    let c = SlocCounter::new(sy);
    let a = c.count(src);
    let b = c
        .count_reader(io::BufReader::new(src.as_bytes()))
        .expect("reader");
    let d = c.count_from_bytes(src.as_bytes());
    let again = c.count(src);
    let agree = a == b && a == d && a == again;
    format!(
        "{}{}",
        fmt(&a),
        if agree {
            String::new()
        } else {
            format!(" DISAGREE reader=[{}] bytes=[{}] again=[{}]", fmt(&b), fmt(&d), fmt(&again))
        }
    )
}

fn main() {
    quiet_panics();
    let mode = std::env::args().nth(1).unwrap_or_default();
    let reg = LanguageRegistry::default();
    let out = io::stdout();
    let mut out = out.lock();
    if mode == "dump" {
        for l in reg.all() {
            writeln!(out, "L {} {}", enc(&l.name), l.extensions.join(",")).unwrap();
            for s in &l.comment_syntax.single_line {
                writeln!(out, "S {}", enc(s)).unwrap();
            }
            for m in &l.comment_syntax.multi_line {
                let k = match m.pattern_kind {
                    PatternKind::Static => 0,
                    PatternKind::LuaLongBracket => 1,
                    PatternKind::RustRawString => 2,
                };
                writeln!(
                    out,
                    "M {} {} {} {} {}",
                    enc(&m.start),
                    enc(&m.end),
                    u8::from(m.supports_nesting),
                    u8::from(m.must_be_at_line_start),
                    k
                )
                .unwrap();
            }
        }
        return;
    }
    for l in io::stdin().lock().lines() {
        let l = l.unwrap();
        let f: Vec<&str> = l.split('\t').collect();
        if f.len() < 3 {
            writeln!(out, "BADLINE").unwrap();
            continue;
        }
        let (mode, sy, src) = (f[0], f[1], f[2]);
        let r = std::panic::catch_unwind(|| {
            let sy = parse_syntax(&reg, sy);
            match mode {
                "count" => three(&sy, &dec(src)),
                "bytes" => {
                    let bytes = unhex(src);
                    let c = SlocCounter::new(&sy);
                    let r = c.count_from_bytes(&bytes);
                    let lossy = String::from_utf8_lossy(&bytes).to_string();
                    let via_str = c.count(&lossy);
                    let rd = c.count_reader(io::BufReader::new(&bytes[..]));
                    // count_reader yields an io error on invalid UTF-8; on valid UTF-8 it must agree
                    let rd_s = match (&rd, std::str::from_utf8(&bytes)) {
                        (Ok(x), Ok(_)) if *x == r => String::new(),
                        (Ok(x), Ok(_)) => format!(" DISAGREE reader=[{}]", fmt(x)),
                        (Err(_), Ok(_)) => " DISAGREE reader=[ioerr]".to_string(),
                        (_, Err(_)) => String::new(),
                    };
                    let s2 = if via_str == r { String::new() } else { format!(" DISAGREE str=[{}]", fmt(&via_str)) };
                    format!("{}{}{} LOSSY {}", fmt(&r), rd_s, s2, enc(&lossy))
                }
                "classes" => {
                    // per-line classes from prefix counts (public API only)
                    let text = dec(src);
                    let c = SlocCounter::new(&sy);
                    let lines: Vec<&str> = text.split_inclusive('\n').collect();
                    let mut prev = (0usize, 0usize, 0usize, 0usize);
                    let mut outs = String::new();
                    let mut acc = String::new();
                    for ln in lines {
                        acc.push_str(ln);
                        match c.count(&acc) {
                            CountResult::IgnoredFile => {
                                outs.push('F');
                                break;
                            }
                            CountResult::Stats(s) => {
                                let cur = (s.code, s.comment, s.blank, s.ignored);
                                let ch = if cur.0 == prev.0 + 1 && cur.1 == prev.1 && cur.2 == prev.2 && cur.3 == prev.3 {
                                    'C'
                                } else if cur.1 == prev.1 + 1 && cur.0 == prev.0 && cur.2 == prev.2 && cur.3 == prev.3 {
                                    'M'
                                } else if cur.2 == prev.2 + 1 && cur.0 == prev.0 && cur.1 == prev.1 && cur.3 == prev.3 {
                                    'B'
                                } else if cur.3 == prev.3 + 1 && cur.0 == prev.0 && cur.1 == prev.1 && cur.2 == prev.2 {
                                    'I'
                                } else {
                                    '?'
                                };
                                outs.push(ch);
                                prev = cur;
                            }
                        }
                    }
                    format!("CLS {outs}")
                }
                _ => "BADMODE".to_string(),
            }
        });
        match r {
            Ok(s) => writeln!(out, "{s}").unwrap(),
            Err(_) => writeln!(out, "PANIC").unwrap(),
        }
        out.flush().unwrap();
    }
}
