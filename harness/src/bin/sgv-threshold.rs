//! Threshold harness (C05).
//!
//! `sgv-threshold dump` prints the defaults of `ContentConfig`.
//! Otherwise reads tab-separated lines `run\t<cfg>\t<inst>\t<cli>\t<path>\t<stats>`:
//!   cfg   = `;`-separated items
//!           `G=<max>:<wt bits>:<warn_at|~>:<skip_comments>:<skip_blank>`
//!           `X=<pattern>` (content.exclude, in order)   `E=<extension>` (content.extensions, in order)
//!           `R=<pattern>:<max>:<wt bits|~>:<warn_at|~>:<sc ~|0|1>:<sb ~|0|1>:<reason|~>` (content.rules, in order)
//!   inst  = `~` or f64 bits for `with_warning_threshold`
//!   cli   = `~` or space-separated `check` arguments (parsed by the real clap definition)
//!   path  = codepoints, stats = `total,code,comment,blank,ignored`
//! Strings are comma-separated codepoints (`-` empty, `~` absent).
//! One answer line per case, tab-separated `KEY=value` fields (see `answer`).
use clap::Parser;
use globset::Glob;
use sgv::{dec, enc, quiet_panics};
use sloc_guard::checker::{
    CheckResult, Checker, ContentExplanation, ContentRuleMatch, MatchStatus, ThresholdChecker,
    WarnAtSource,
};
use sloc_guard::cli::{Cli, Commands};
use sloc_guard::commands::check::verif::{apply_cli_overrides, compute_effective_stats};
use sloc_guard::commands::context::CheckContext;
use sloc_guard::config::{Config, ContentRule};
use sloc_guard::counter::LineStats;
use std::io::{self, BufRead, Write};
use std::path::{Path, PathBuf};

fn opt_usize(s: &str) -> Option<usize> {
    if s == "~" { None } else { Some(s.parse().expect("usize")) }
}
fn opt_f64(s: &str) -> Option<f64> {
    if s == "~" { None } else { Some(f64::from_bits(s.parse::<u64>().expect("bits"))) }
}
fn opt_bool(s: &str) -> Option<bool> {
    match s {
        "~" => None,
        "1" => Some(true),
        _ => Some(false),
    }
}
fn opt_str(s: &str) -> Option<String> {
    if s == "~" { None } else { Some(dec(s)) }
}
fn enc_opt(s: Option<&str>) -> String {
    s.map_or_else(|| "~".to_string(), enc)
}

fn parse_config(s: &str) -> Config {
    let mut cfg = Config::default();
    cfg.content.extensions.clear();
    cfg.content.exclude.clear();
    cfg.content.rules.clear();
    for item in s.split(';').filter(|x| !x.is_empty()) {
        let (k, v) = item.split_at(2);
        let f: Vec<&str> = v.split(':').collect();
        match k {
            "G=" => {
                cfg.content.max_lines = f[0].parse().expect("max");
                cfg.content.warn_threshold = f64::from_bits(f[1].parse::<u64>().expect("bits"));
                cfg.content.warn_at = opt_usize(f[2]);
                cfg.content.skip_comments = f[3] == "1";
                cfg.content.skip_blank = f[4] == "1";
            }
            "X=" => cfg.content.exclude.push(dec(f[0])),
            "E=" => cfg.content.extensions.push(dec(f[0])),
            "R=" => cfg.content.rules.push(ContentRule {
                pattern: dec(f[0]),
                max_lines: f[1].parse().expect("max"),
                warn_threshold: opt_f64(f[2]),
                warn_at: opt_usize(f[3]),
                skip_comments: opt_bool(f[4]),
                skip_blank: opt_bool(f[5]),
                reason: opt_str(f[6]),
                expires: None,
            }),
            _ => panic!("bad config item"),
        }
    }
    cfg
}

fn parse_stats(s: &str) -> LineStats {
    let v: Vec<usize> = s.split(',').map(|x| x.parse().expect("n")).collect();
    LineStats { total: v[0], code: v[1], comment: v[2], blank: v[3], ignored: v[4] }
}
fn fmt_stats(s: &LineStats) -> String {
    format!("{},{},{},{},{}", s.total, s.code, s.comment, s.blank, s.ignored)
}

/// Independent re-statement of `output::path::normalize_for_matching` (crate-private).
fn normalize(path: &str) -> String {
    let stripped = path
        .strip_prefix("./")
        .or_else(|| path.strip_prefix(".\\"))
        .unwrap_or(path);
    if stripped.is_empty() || stripped == "." {
        return String::new();
    }
    stripped.replace('\\', "/")
}

/// One bit per pattern: does this single glob (compiled on its own) match the normalised path?
fn match_vector(patterns: &[String], norm: &str) -> Option<String> {
    let mut out = String::new();
    for p in patterns {
        let g = Glob::new(p).ok()?;
        out.push(if g.compile_matcher().is_match(Path::new(norm)) { '1' } else { '0' });
    }
    Some(out)
}

fn fmt_result(r: &CheckResult) -> String {
    let (tag, limit, raw) = match r {
        CheckResult::Passed { limit, raw_stats, .. } => ("P", *limit, raw_stats),
        CheckResult::Warning { limit, raw_stats, .. } => ("W", *limit, raw_stats),
        CheckResult::Failed { limit, raw_stats, .. } => ("F", *limit, raw_stats),
        CheckResult::Grandfathered { limit, raw_stats, .. } => ("G", *limit, raw_stats),
    };
    format!(
        "{};{};{};{};{}",
        tag,
        limit,
        enc_opt(r.override_reason()),
        fmt_stats(r.stats()),
        raw.as_ref().map_or_else(|| "~".to_string(), fmt_stats)
    )
}

fn fmt_source(s: &WarnAtSource) -> String {
    match s {
        WarnAtSource::RuleAbsolute { index } => format!("RA:{index}"),
        WarnAtSource::RulePercentage { index, threshold } => {
            format!("RP:{index}:{}", threshold.to_bits())
        }
        WarnAtSource::GlobalAbsolute => "GA".to_string(),
        WarnAtSource::GlobalPercentage { threshold } => format!("GP:{}", threshold.to_bits()),
    }
}

fn fmt_explanation(e: &ContentExplanation, path: &Path) -> String {
    let matched = match &e.matched_rule {
        ContentRuleMatch::Excluded { pattern } => format!("X:{}", enc(pattern)),
        ContentRuleMatch::Rule { index, pattern, reason } => {
            format!("R:{index}:{}:{}", enc(pattern), enc_opt(reason.as_deref()))
        }
        ContentRuleMatch::Default => "D".to_string(),
    };
    let chain: Vec<String> = e
        .rule_chain
        .iter()
        .map(|c| {
            format!(
                "{}:{}:{}:{}",
                enc(&c.source),
                enc_opt(c.pattern.as_deref()),
                c.limit,
                match c.status {
                    MatchStatus::Matched => "M",
                    MatchStatus::Superseded => "S",
                    MatchStatus::NoMatch => "N",
                }
            )
        })
        .collect();
    format!(
        "{}|{}|{}|{}|{}|{}|{}{}|{}{}",
        u8::from(e.is_excluded),
        matched,
        e.effective_limit,
        e.effective_warn_at,
        fmt_source(&e.warn_at_source),
        e.warn_threshold.to_bits(),
        u8::from(e.skip_comments),
        u8::from(e.skip_blank),
        chain.join("/"),
        if e.path == path { "" } else { "|PATHDIFF" }
    )
}

fn answer(line: &str) -> String {
    let f: Vec<&str> = line.split('\t').collect();
    if f.len() != 6 || f[0] != "run" {
        return "BADLINE".to_string();
    }
    let cfg0 = parse_config(f[1]);
    let path_s = dec(f[4]);
    let path = PathBuf::from(&path_s);
    let stats = parse_stats(f[5]);
    let norm = normalize(&path_s);
    let rule_pats: Vec<String> = cfg0.content.rules.iter().map(|r| r.pattern.clone()).collect();
    let mv = match_vector(&rule_pats, &norm);
    let ev = match_vector(&cfg0.content.exclude, &norm);
    let ext = path.extension().and_then(|e| e.to_str()).map(str::to_string);

    // the checker `check` evaluates files with
    let mut cfg = cfg0.clone();
    let mut valo = None;
    let checker = if f[3] == "~" {
        ThresholdChecker::new(cfg.clone())
    } else {
        let mut argv = vec!["sloc-guard".to_string(), "check".to_string()];
        argv.extend(f[3].split(' ').filter(|x| !x.is_empty()).map(str::to_string));
        let cli = match Cli::try_parse_from(&argv) {
            Ok(c) => c,
            Err(e) => return format!("ERR=CliParse:{:?}", e.kind()),
        };
        let Commands::Check(args) = cli.command else {
            return "ERR=NotCheck".to_string();
        };
        // run_check_impl steps 2 and 4
        apply_cli_overrides(&mut cfg, &args);
        valo = Some(sloc_guard::config::verif_validate_config_semantics(&cfg).is_ok());
        if let Some(ref e) = args.ext {
            cfg.content.extensions.clone_from(e);
        }
        let warn_threshold = args.warn_threshold.unwrap_or(cfg.content.warn_threshold);
        CheckContext::from_config(&cfg, warn_threshold, Vec::new(), false)
            .map(|ctx| ctx.threshold_checker)
    };
    let checker = match checker {
        Ok(c) => c,
        Err(e) => return format!("ERR={}", e.error_type()),
    };
    let checker = match opt_f64(f[2]) {
        Some(t) => checker.with_warning_threshold(t),
        None => checker,
    };
    // the checker `explain <file>` uses
    // config::validation (content part is the only part a generated configuration can fail)
    let val = sloc_guard::config::verif_validate_config_semantics(&cfg0).is_ok();
    let xchecker = match ThresholdChecker::new(cfg0) {
        Ok(c) => c,
        Err(e) => return format!("ERR={}", e.error_type()),
    };
    let (Some(mv), Some(ev)) = (mv, ev) else {
        return "ERR=HarnessGlob".to_string();
    };

    let sp = checker.should_process(&path);
    let (sc, sb) = checker.get_skip_settings_for_path(&path);
    let eff = compute_effective_stats(&stats, sc, sb);
    let chk = checker.check(&path, &stats, None);
    let pfc = checker.check(&path, &eff, Some(&stats));
    let exp = checker.explain(&path);
    let xexp = xchecker.explain(&path);
    format!(
        "MV={}\tEV={}\tEXT={}\tVAL={}\tVALO={}\tSP={}\tXC={}\tSK={}{}\tEFF={}\tCHK={}\tPFC={}\tEXP={}\tXEXP={}",
        mv,
        ev,
        enc_opt(ext.as_deref()),
        u8::from(val),
        u8::from(valo.unwrap_or(val)),
        u8::from(sp),
        u8::from(checker.is_content_excluded(&path)),
        u8::from(sc),
        u8::from(sb),
        fmt_stats(&eff),
        fmt_result(&chk),
        fmt_result(&pfc),
        fmt_explanation(&exp, &path),
        fmt_explanation(&xexp, &path)
    )
}

fn main() {
    quiet_panics();
    let mode = std::env::args().nth(1).unwrap_or_default();
    if mode == "dump" {
        let c = Config::default().content;
        println!(
            "max_lines={} warn_threshold_bits={} warn_at={} skip_comments={} skip_blank={} extensions={} languages={}",
            c.max_lines,
            c.warn_threshold.to_bits(),
            c.warn_at.map_or_else(|| "~".to_string(), |w| w.to_string()),
            u8::from(c.skip_comments),
            u8::from(c.skip_blank),
            c.extensions.join(","),
            sloc_guard::language::LanguageRegistry::default()
                .all()
                .iter()
                .flat_map(|l| l.extensions.iter().cloned())
                .collect::<Vec<_>>()
                .join(",")
        );
        return;
    }
    let stdin = io::stdin();
    let stdout = io::stdout();
    let mut out = io::BufWriter::new(stdout.lock());
    for line in stdin.lock().lines() {
        let Ok(line) = line else { break };
        let ans = std::panic::catch_unwind(|| answer(&line)).unwrap_or_else(|_| "PANIC".to_string());
        let _ = writeln!(out, "{ans}");
    }
    let _ = out.flush();
}
