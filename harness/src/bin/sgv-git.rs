//! Git harness (C19): library-level access to `GitDiff` and `parse_diff_range`.
//!
//! Reads tab-separated lines, prints one answer per line:
//!   `parse\t<hex utf8>`                         -> `OK <hex base> <hex target>` | `ERR`
//!   `range\t<repo dir>\t<hex base>\t<hex target>` -> `OK <hex path> ...` (sorted, relative to the work tree) | `ERR <kind>`
//!   `staged\t<repo dir>`                        -> same
//! The sets are the raw results of `get_changed_files_range` / `get_staged_files`, i.e. before
//! `filter_by_git_diff` canonicalises them and intersects them with the scanned file list.
use sgv::{quiet_panics, unhex};
use sloc_guard::commands::check::verif::parse_diff_range;
use sloc_guard::git::GitDiff;
use std::collections::HashSet;
use std::io::{self, BufRead, Write};
use std::os::unix::ffi::OsStrExt;
use std::path::{Path, PathBuf};

fn hex(b: &[u8]) -> String {
    if b.is_empty() {
        return "-".to_string();
    }
    b.iter().map(|x| format!("{x:02x}")).collect()
}

fn err_kind(msg: &str) -> &'static str {
    if msg.contains("Failed to parse reference") {
        "REF"
    } else if msg.contains("Failed to peel to commit") {
        "PEEL"
    } else if msg.contains("Failed to discover") {
        "NOREPO"
    } else if msg.contains("Invalid filename encoding") {
        "NAME"
    } else {
        "OTHER"
    }
}

fn fmt_set(g: &GitDiff, r: sloc_guard::Result<HashSet<PathBuf>>) -> String {
    match r {
        Ok(set) => {
            let wd = g.workdir().to_path_buf();
            let mut v: Vec<Vec<u8>> = set
                .iter()
                .map(|p| {
                    p.strip_prefix(&wd)
                        .map_or_else(|_| p.as_os_str().as_bytes().to_vec(), |q| q.as_os_str().as_bytes().to_vec())
                })
                .collect();
            v.sort();
            let mut out = String::from("OK");
            for p in v {
                out.push(' ');
                out.push_str(&hex(&p));
            }
            out
        }
        Err(e) => format!("ERR {}", err_kind(&e.to_string())),
    }
}

fn answer(line: &str) -> String {
    let f: Vec<&str> = line.split('\t').collect();
    match f.first().copied() {
        Some("parse") if f.len() == 2 => {
            let s = String::from_utf8(unhex(f[1])).expect("utf8");
            match parse_diff_range(&s) {
                Ok(r) => format!("OK {} {}", hex(r.base.as_bytes()), hex(r.target.as_bytes())),
                Err(_) => "ERR".to_string(),
            }
        }
        Some("range") if f.len() == 4 => {
            let base = String::from_utf8(unhex(f[2])).expect("utf8");
            let target = String::from_utf8(unhex(f[3])).expect("utf8");
            match GitDiff::discover(Path::new(f[1])) {
                Ok(g) => {
                    let r = g.get_changed_files_range(&base, &target);
                    fmt_set(&g, r)
                }
                Err(e) => format!("ERR {}", err_kind(&e.to_string())),
            }
        }
        Some("staged") if f.len() == 2 => match GitDiff::discover(Path::new(f[1])) {
            Ok(g) => {
                let r = g.get_staged_files();
                fmt_set(&g, r)
            }
            Err(e) => format!("ERR {}", err_kind(&e.to_string())),
        },
        _ => "BADLINE".to_string(),
    }
}

fn main() {
    quiet_panics();
    let stdin = io::stdin();
    let stdout = io::stdout();
    let mut out = stdout.lock();
    for line in stdin.lock().lines() {
        let line = line.expect("stdin");
        let r = std::panic::catch_unwind(|| answer(&line)).unwrap_or_else(|_| "PANIC".to_string());
        writeln!(out, "{r}").expect("stdout");
        out.flush().expect("flush");
    }
}
