//! Report harness (C20): library-level formatters, ProjectStatistics and the language registry.
//!
//! `sgv-report dump` prints the built-in extension map as one JSON object.
//! Otherwise JSON lines in, JSON lines out (`{"panic":true}` when the call panicked):
//!   {"op":"fmt","results":[R..],"suggest":bool}     -> every check formatter on one result vector
//!        R = {"status":0..3,"path":str | "path_hex":hex,"stats":[t,c,m,b],"raw":[t,c,m,b]|null,
//!             "limit":n,"reason":str|null,"kind":str,"arg":str,"sugg":[[name,[fn..]],..]|null}
//!   {"op":"stats","files":[{"path","lang","stats":[t,c,m,b]}],"depth":n|null,"reps":k}
//!        -> totals + k independent breakdown runs (a fresh HashMap, hence a fresh seed, each time)
//!   {"op":"reg","customs":[{"name","exts":[..],"single":[..]}],"exts":[..],"reps":k}
//!        -> k independent registries: language name per extension, and the config hash
use serde_json::{Value, json};
use sloc_guard::analyzer::{SplitChunk, SplitSuggestion};
use sloc_guard::cache::compute_config_hash;
use sloc_guard::checker::{CheckResult, ViolationCategory, ViolationType};
use sloc_guard::config::{Config, CustomLanguageConfig};
use sloc_guard::counter::LineStats;
use sloc_guard::language::LanguageRegistry;
use sloc_guard::output::{
    ColorMode, FileStatistics, HtmlFormatter, JsonFormatter, MarkdownFormatter, OutputFormatter,
    ProjectStatistics, SarifFormatter, StatsFormatter, StatsHtmlFormatter, StatsJsonFormatter,
    StatsMarkdownFormatter, StatsTextFormatter, TextFormatter,
};
use std::collections::HashMap;
use std::io::{self, BufRead, Write};
use std::path::PathBuf;

fn ls(v: &Value) -> LineStats {
    let a = v.as_array().expect("stats array");
    let n = |i: usize| a[i].as_u64().expect("count") as usize;
    LineStats {
        total: n(0),
        code: n(1),
        comment: n(2),
        blank: n(3),
        ignored: 0,
    }
}

fn path_of(r: &Value) -> PathBuf {
    if let Some(h) = r.get("path_hex").and_then(Value::as_str) {
        use std::os::unix::ffi::OsStringExt;
        return PathBuf::from(std::ffi::OsString::from_vec(sgv::unhex(h)));
    }
    PathBuf::from(r["path"].as_str().expect("path"))
}

fn category(kind: &str, arg: &str) -> Option<ViolationCategory> {
    let vt = match kind {
        "none" => return None,
        "content" => return Some(ViolationCategory::Content),
        "file_count" => ViolationType::FileCount,
        "dir_count" => ViolationType::DirCount,
        "max_depth" => ViolationType::MaxDepth,
        "disallowed_file" => ViolationType::DisallowedFile,
        "disallowed_dir" => ViolationType::DisallowedDirectory,
        "denied_file" => ViolationType::DeniedFile {
            pattern_or_extension: arg.to_string(),
        },
        "denied_dir" => ViolationType::DeniedDirectory {
            pattern: arg.to_string(),
        },
        "naming" => ViolationType::NamingConvention {
            expected_pattern: arg.to_string(),
        },
        "sibling" => ViolationType::MissingSibling {
            expected_sibling_pattern: arg.to_string(),
        },
        _ => ViolationType::GroupIncomplete {
            group_patterns: vec![arg.to_string()],
            missing_patterns: vec![arg.to_string()],
        },
    };
    Some(ViolationCategory::Structure {
        violation_type: vt,
        triggering_rule: Some(arg.to_string()),
    })
}

fn result_of(r: &Value) -> CheckResult {
    let path = path_of(r);
    let stats = ls(&r["stats"]);
    let raw_stats = if r["raw"].is_null() { None } else { Some(ls(&r["raw"])) };
    let limit = r["limit"].as_u64().unwrap_or(0) as usize;
    let override_reason = r["reason"].as_str().map(String::from);
    let violation_category = category(r["kind"].as_str().unwrap_or("none"), r["arg"].as_str().unwrap_or(""));
    let suggestions = r["sugg"].as_array().map(|chunks| SplitSuggestion {
        original_path: path.clone(),
        total_lines: stats.total,
        limit,
        functions: Vec::new(),
        chunks: chunks
            .iter()
            .map(|c| SplitChunk {
                suggested_name: c[0].as_str().unwrap_or("").to_string(),
                functions: c[1]
                    .as_array()
                    .map(|f| f.iter().map(|x| x.as_str().unwrap_or("").to_string()).collect())
                    .unwrap_or_default(),
                start_line: 1,
                end_line: 2,
                line_count: 2,
            })
            .collect(),
    });
    match r["status"].as_u64().unwrap_or(0) {
        0 => CheckResult::Passed {
            path,
            stats,
            raw_stats,
            limit,
            override_reason,
            violation_category,
        },
        1 => CheckResult::Warning {
            path,
            stats,
            raw_stats,
            limit,
            override_reason,
            suggestions,
            violation_category,
        },
        2 => CheckResult::Failed {
            path,
            stats,
            raw_stats,
            limit,
            override_reason,
            suggestions,
            violation_category,
        },
        _ => CheckResult::Grandfathered {
            path,
            stats,
            raw_stats,
            limit,
            override_reason,
            violation_category,
        },
    }
}

fn s(r: sloc_guard::Result<String>) -> Value {
    match r {
        Ok(x) => Value::String(x),
        Err(e) => json!({"error": e.to_string()}),
    }
}

fn op_fmt(j: &Value) -> Value {
    let results: Vec<CheckResult> = j["results"].as_array().expect("results").iter().map(result_of).collect();
    let sg = j["suggest"].as_bool().unwrap_or(false);
    json!({
        "text": s(TextFormatter::with_verbose(ColorMode::Never, 0).with_suggestions(sg).format(&results)),
        "text_v": s(TextFormatter::with_verbose(ColorMode::Never, 1).with_suggestions(sg).format(&results)),
        "text_color": s(TextFormatter::with_verbose(ColorMode::Always, 1).with_suggestions(sg).format(&results)),
        "json": s(JsonFormatter::new().with_suggestions(sg).format(&results)),
        "sarif": s(SarifFormatter::new().with_suggestions(sg).format(&results)),
        "markdown": s(MarkdownFormatter::new().with_suggestions(sg).format(&results)),
        "html": s(HtmlFormatter::new().with_suggestions(sg).format(&results)),
    })
}

fn files_of(j: &Value) -> Vec<FileStatistics> {
    j["files"]
        .as_array()
        .expect("files")
        .iter()
        .map(|f| FileStatistics {
            path: path_of(f),
            stats: ls(&f["stats"]),
            language: f["lang"].as_str().unwrap_or("").to_string(),
        })
        .collect()
}

fn op_stats(j: &Value) -> Value {
    let reps = j["reps"].as_u64().unwrap_or(1);
    let depth = j["depth"].as_u64().map(|d| d as usize);
    let base = ProjectStatistics::new(files_of(j));
    let totals = json!([base.total_files, base.total_lines, base.total_code, base.total_comment, base.total_blank]);
    let mut runs = Vec::new();
    for _ in 0..reps {
        let l = ProjectStatistics::new(files_of(j)).with_language_breakdown();
        let d = ProjectStatistics::new(files_of(j)).with_directory_breakdown_depth(None, depth);
        runs.push(json!({
            "lang_json": s(StatsJsonFormatter::new().format(&l)),
            "dir_json": s(StatsJsonFormatter::new().format(&d)),
            "lang_html": s(StatsHtmlFormatter::new().format(&l)),
            "lang_md": s(StatsMarkdownFormatter::new().format(&l)),
            "lang_text": s(StatsTextFormatter::new(ColorMode::Never).format(&l)),
        }));
    }
    json!({"totals": totals, "runs": runs})
}

fn op_reg(j: &Value) -> Value {
    let reps = j["reps"].as_u64().unwrap_or(1);
    let strs = |v: &Value| -> Vec<String> {
        v.as_array()
            .map(|a| a.iter().map(|x| x.as_str().unwrap_or("").to_string()).collect())
            .unwrap_or_default()
    };
    let exts = strs(&j["exts"]);
    let mut runs = Vec::new();
    for _ in 0..reps {
        let mut custom: HashMap<String, CustomLanguageConfig> = HashMap::new();
        for c in j["customs"].as_array().expect("customs") {
            custom.insert(
                c["name"].as_str().unwrap_or("").to_string(),
                CustomLanguageConfig {
                    extensions: strs(&c["exts"]),
                    single_line_comments: strs(&c["single"]),
                    multi_line_comments: Vec::new(),
                },
            );
        }
        let reg = LanguageRegistry::with_custom_languages(&custom);
        let names: Vec<Value> = exts
            .iter()
            .map(|e| reg.get_by_extension(e).map_or(Value::Null, |l| Value::String(l.name.clone())))
            .collect();
        let cfg = Config {
            languages: custom,
            ..Config::default()
        };
        runs.push(json!({"names": names, "hash": compute_config_hash(&cfg)}));
    }
    json!({"runs": runs})
}

fn main() {
    sgv::quiet_panics();
    let out = io::stdout();
    let mut out = out.lock();
    if std::env::args().nth(1).as_deref() == Some("dump") {
        let reg = LanguageRegistry::default();
        let mut m = serde_json::Map::new();
        for l in reg.all() {
            for e in &l.extensions {
                // later registration wins, as in the registry itself
                m.insert(e.clone(), Value::String(l.name.clone()));
            }
        }
        writeln!(out, "{}", Value::Object(m)).unwrap();
        return;
    }
    for l in io::stdin().lock().lines() {
        let l = l.unwrap();
        let r = std::panic::catch_unwind(|| {
            let j: Value = serde_json::from_str(&l).expect("json line");
            match j["op"].as_str().unwrap_or("") {
                "fmt" => op_fmt(&j),
                "stats" => op_stats(&j),
                "reg" => op_reg(&j),
                _ => json!({"error": "bad op"}),
            }
        });
        match r {
            Ok(v) => writeln!(out, "{v}").unwrap(),
            Err(_) => writeln!(out, "{}", json!({"panic": true})).unwrap(),
        }
        out.flush().unwrap();
    }
}
