//! Configuration-gate harness (C17).
//!
//! `sgv-gate dump` prints every built-in preset and every `init --detect` template as TOML
//! (`PRESET <name> <hex>` / `DETECT <label> <hex>`) plus behaviour probes (`PROBE <name> <0|1>`).
//!
//! Otherwise reads lines `<hex of a TOML document>\t<check argv joined by \x1f or ->` and answers,
//! per line, whether the real `toml` deserialiser accepts the document as `Config` (oracle for TOML
//! syntax / type errors), the typed configuration in the wire format of ocaml/gate_drv.ml (glob and
//! regex compilation results computed with the real crates), the flags as clap parses them, and the
//! library-level verdicts of `validate_config_semantics` and `CheckContext::from_config`.
use sgv::{enc, quiet_panics, unhex};
use sloc_guard::cli::{Cli, Commands};
use sloc_guard::commands::check::verif::apply_cli_overrides;
use sloc_guard::commands::context::CheckContext;
use sloc_guard::commands::detect::{
    DetectedProject, DetectionResult, ProjectType, generate_detected_config,
};
use sloc_guard::config::presets::{AVAILABLE_PRESETS, load_preset};
use sloc_guard::config::{
    Config, RatchetMode, SiblingRule, StructureRule, verif_validate_config_semantics,
};
use std::fmt::Write as _;
use std::io::{self, BufRead, Write};
use std::panic::{AssertUnwindSafe, catch_unwind};

fn hex(s: &str) -> String {
    if s.is_empty() {
        return "-".into();
    }
    s.bytes().map(|b| format!("{b:02x}")).collect()
}

/// Regex validity through the real `regex` crate as the scanner uses it (allowlist.rs).
fn regex_ok(p: &str) -> bool {
    sloc_guard::scanner::AllowlistRuleBuilder::new("x".to_string())
        .with_naming_pattern(Some(p.to_string()))
        .build()
        .is_ok()
}

fn glob_ok(p: &str) -> bool {
    globset::Glob::new(p).is_ok()
}

struct W {
    out: String,
    bad_globs: Vec<String>,
    bad_regex: Vec<String>,
}

impl W {
    fn tok(&mut self, s: impl std::fmt::Display) {
        let _ = write!(self.out, "{s} ");
    }
    fn b(&mut self, v: bool) {
        self.tok(u8::from(v));
    }
    fn s(&mut self, v: &str) {
        self.tok(enc(v));
    }
    fn opt_s(&mut self, v: Option<&String>) {
        match v {
            None => self.tok("N"),
            Some(x) => {
                self.tok("S");
                self.s(x);
            }
        }
    }
    fn opt<T: std::fmt::Display>(&mut self, v: Option<T>) {
        match v {
            None => self.tok("N"),
            Some(x) => {
                self.tok("S");
                self.tok(x);
            }
        }
    }
    fn opt_f(&mut self, v: Option<f64>) {
        self.opt(v.map(f64::to_bits));
    }
    fn glob(&mut self, p: &str) {
        let ok = glob_ok(p);
        if !ok {
            self.bad_globs.push(p.to_string());
        }
        self.b(ok);
    }
    fn globs(&mut self, l: &[String]) {
        self.tok(l.len());
        for p in l {
            self.glob(p);
        }
    }
    fn strs(&mut self, l: &[String]) {
        self.tok(l.len());
        for p in l {
            self.s(p);
        }
    }
}

fn wire_struct_rule(w: &mut W, r: &StructureRule) {
    w.glob(&r.scope);
    w.opt(r.max_files);
    w.opt(r.max_dirs);
    w.opt(r.max_depth);
    w.opt_f(r.warn_threshold);
    w.opt_f(r.warn_files_threshold);
    w.opt_f(r.warn_dirs_threshold);
    w.opt(r.warn_files_at);
    w.opt(r.warn_dirs_at);
    w.tok(r.allow_extensions.len());
    w.globs(&r.allow_patterns);
    w.globs(&r.allow_files);
    w.globs(&r.allow_dirs);
    w.tok(r.deny_extensions.len());
    w.globs(&r.deny_patterns);
    w.globs(&r.deny_files);
    w.globs(&r.deny_dirs);
    match &r.file_naming_pattern {
        None => w.tok("N"),
        Some(p) => {
            let ok = regex_ok(p);
            if !ok {
                w.bad_regex.push(p.clone());
            }
            w.tok("S");
            w.b(ok);
        }
    }
    w.tok(r.siblings.len());
    for s in &r.siblings {
        match s {
            SiblingRule::Directed {
                match_pattern,
                require,
                ..
            } => {
                w.tok("D");
                w.s(match_pattern);
                w.glob(match_pattern);
                let pats: Vec<String> = require.as_patterns().iter().map(|x| (*x).to_string()).collect();
                w.strs(&pats);
            }
            SiblingRule::Group { group, .. } => {
                w.tok("G");
                w.strs(group);
            }
        }
    }
    w.opt_s(r.expires.as_ref());
}

fn wire_config(c: &Config) -> W {
    let mut w = W {
        out: String::new(),
        bad_globs: Vec::new(),
        bad_regex: Vec::new(),
    };
    w.opt_s(c.version.as_ref());
    w.globs(&c.scanner.exclude);
    w.tok(c.content.max_lines);
    w.tok(c.content.warn_threshold.to_bits());
    w.opt(c.content.warn_at);
    w.globs(&c.content.exclude);
    w.tok(c.content.rules.len());
    for r in &c.content.rules {
        w.glob(&r.pattern);
        w.tok(r.max_lines);
        w.opt_f(r.warn_threshold);
        w.opt(r.warn_at);
        w.opt_s(r.expires.as_ref());
    }
    let s = &c.structure;
    w.opt(s.max_files);
    w.opt(s.max_dirs);
    w.opt(s.max_depth);
    w.opt_f(s.warn_threshold);
    w.opt_f(s.warn_files_threshold);
    w.opt_f(s.warn_dirs_threshold);
    w.opt(s.warn_files_at);
    w.opt(s.warn_dirs_at);
    w.globs(&s.count_exclude);
    w.tok(s.deny_extensions.len());
    w.tok(s.deny_patterns.len());
    for p in &s.deny_patterns {
        // scanner/structure_config.rs: directory patterns (trailing slash) are compiled without it
        let is_dir = p.ends_with('/');
        w.b(is_dir);
        if is_dir {
            let t = p.trim_end_matches('/');
            let ok = glob_ok(t);
            if !ok {
                w.bad_globs.push(t.to_string());
            }
            w.b(ok);
        } else {
            w.glob(p);
        }
    }
    w.globs(&s.deny_files);
    w.globs(&s.deny_dirs);
    w.tok(s.allow_extensions.len());
    w.globs(&s.allow_files);
    w.globs(&s.allow_dirs);
    w.tok(s.rules.len());
    for r in &s.rules {
        wire_struct_rule(&mut w, r);
    }
    w.opt(c.trend.max_entries);
    w.opt(c.trend.max_age_days);
    w.opt(c.trend.min_interval_secs);
    w.strs(&c.stats.report.exclude);
    w.opt_s(c.stats.report.breakdown_by.as_ref());
    w.opt_s(c.stats.report.trend_since.as_ref());
    w.opt(c.baseline.ratchet.map(|m| match m {
        RatchetMode::Warn => 0,
        RatchetMode::Auto => 1,
        RatchetMode::Strict => 2,
    }));
    w.b(c.check.warnings_as_errors);
    w.b(c.check.fail_fast);
    w
}

fn res_str(r: std::thread::Result<Result<(), String>>) -> String {
    match r {
        Ok(Ok(())) => "OK".into(),
        Ok(Err(m)) => format!("ERR:{}", hex(&m)),
        Err(_) => "PANIC".into(),
    }
}

fn flags_only(argv: &[String]) -> String {
    let mut full = vec!["sloc-guard".to_string(), "check".to_string()];
    full.extend(argv.iter().cloned());
    match <Cli as clap::Parser>::try_parse_from(&full) {
        Ok(cli) => match cli.command {
            Commands::Check(args) => {
                let mut f = W {
                    out: String::new(),
                    bad_globs: Vec::new(),
                    bad_regex: Vec::new(),
                };
                f.b(!args.paths.is_empty());
                f.opt(args.max_lines);
                f.opt_f(args.warn_threshold);
                f.opt(args.max_files);
                f.opt(args.max_dirs);
                f.opt(args.max_depth);
                f.out.trim_end().to_string()
            }
            _ => "CLAPERR".into(),
        },
        Err(e) => format!("CLAPERR:{}", hex(&e.to_string())),
    }
}

fn handle(doc: &str, argv: &[String]) -> String {
    // the loader parses to a toml::Value first (extends detection), then to the typed Config
    let as_value = toml::from_str::<toml::Value>(doc);
    let typed = toml::from_str::<Config>(doc);
    let cfg = match (as_value, typed) {
        (Ok(_), Ok(c)) => c,
        (Err(e), _) => return format!("PARSEFAIL\t{}\tFLAGS\t{}", hex(&e.to_string()), flags_only(argv)),
        (_, Err(e)) => return format!("PARSEFAIL\t{}\tFLAGS\t{}", hex(&e.to_string()), flags_only(argv)),
    };
    let w = wire_config(&cfg);
    let mut full = vec!["sloc-guard".to_string(), "check".to_string()];
    full.extend(argv.iter().cloned());
    let parsed = <Cli as clap::Parser>::try_parse_from(&full);
    let sem = res_str(catch_unwind(AssertUnwindSafe(|| {
        verif_validate_config_semantics(&cfg).map_err(|e| e.to_string())
    })));
    let mut sem2 = "-".to_string();
    let (flags, ctx) = match parsed {
        Ok(cli) => match cli.command {
            Commands::Check(args) => {
                let mut f = W {
                    out: String::new(),
                    bad_globs: Vec::new(),
                    bad_regex: Vec::new(),
                };
                f.b(!args.paths.is_empty());
                f.opt(args.max_lines);
                f.opt_f(args.warn_threshold);
                f.opt(args.max_files);
                f.opt(args.max_dirs);
                f.opt(args.max_depth);
                let mut c2 = cfg.clone();
                apply_cli_overrides(&mut c2, &args);
                sem2 = res_str(catch_unwind(AssertUnwindSafe(|| {
                    verif_validate_config_semantics(&c2).map_err(|e| e.to_string())
                })));
                let wt = args.warn_threshold.unwrap_or(c2.content.warn_threshold);
                let ex = c2.scanner.exclude.clone();
                let gi = c2.scanner.gitignore;
                let ctx = res_str(catch_unwind(AssertUnwindSafe(|| {
                    CheckContext::from_config(&c2, wt, ex, gi)
                        .map(|_| ())
                        .map_err(|e| e.to_string())
                })));
                (f.out, ctx)
            }
            _ => ("CLAPERR".into(), "-".into()),
        },
        Err(e) => (format!("CLAPERR:{}", hex(&e.to_string())), "-".into()),
    };
    let bg: Vec<String> = w.bad_globs.iter().map(|s| enc(s)).collect();
    let br: Vec<String> = w.bad_regex.iter().map(|s| enc(s)).collect();
    format!(
        "CFG\t{}\tFLAGS\t{}\tSEM\t{}\tSEM2\t{}\tCTX\t{}\tBADGLOBS\t{}\tBADREGEX\t{}",
        w.out.trim_end(),
        flags.trim_end(),
        sem,
        sem2,
        ctx,
        bg.join(" "),
        br.join(" ")
    )
}

fn probe(doc: &str) -> bool {
    // true when semantic validation rejects the document
    toml::from_str::<Config>(doc)
        .ok()
        .is_some_and(|c| matches!(catch_unwind(AssertUnwindSafe(|| verif_validate_config_semantics(&c).is_err())), Ok(true)))
}

fn dump() {
    for name in AVAILABLE_PRESETS {
        let v = load_preset(name).expect("preset parses");
        let text = toml::to_string(&v).expect("preset serialises");
        println!("PRESET {name} {}", hex(&text));
    }
    let types = [
        ("rust", ProjectType::Rust),
        ("node", ProjectType::Node),
        ("go", ProjectType::Go),
        ("python", ProjectType::Python),
        ("java", ProjectType::Java),
        ("csharp", ProjectType::CSharp),
        ("unknown", ProjectType::Unknown),
    ];
    println!(
        "DETECT none {}",
        hex(&generate_detected_config(&DetectionResult::default()))
    );
    for (label, t) in &types {
        let single = DetectionResult {
            root: Some(t.clone()),
            subprojects: Vec::new(),
            is_monorepo: false,
        };
        println!("DETECT root-{label} {}", hex(&generate_detected_config(&single)));
        // monorepo: every type as a sub-project, with and without this root
        let subs: Vec<DetectedProject> = types
            .iter()
            .map(|(l, st)| DetectedProject {
                path: format!("packages/{l}"),
                project_type: st.clone(),
            })
            .collect();
        let mono = DetectionResult {
            root: Some(t.clone()),
            subprojects: subs,
            is_monorepo: true,
        };
        println!("DETECT mono-{label} {}", hex(&generate_detected_config(&mono)));
        let one = DetectionResult {
            root: None,
            subprojects: vec![DetectedProject {
                path: format!("svc-{label}"),
                project_type: t.clone(),
            }],
            is_monorepo: true,
        };
        println!("DETECT sub-{label} {}", hex(&generate_detected_config(&one)));
    }
    // behaviour probes (which of the repaired defects the built crate still has)
    let dur = catch_unwind(|| sloc_guard::stats::parse_duration("40000000000000w").is_err());
    println!("PROBE dur_checked {}", u8::from(matches!(dur, Ok(true))));
    println!(
        "PROBE rule_wt {}",
        u8::from(probe("[[content.rules]]\npattern = \"a\"\nmax_lines = 1\nwarn_threshold = 7.5\n"))
    );
    println!(
        "PROBE expires {}",
        u8::from(probe("[[content.rules]]\npattern = \"a\"\nmax_lines = 1\nexpires = \"soon\"\n"))
    );
    println!(
        "PROBE strict_dates {}",
        u8::from(probe("[[content.rules]]\npattern = \"a\"\nmax_lines = 1\nexpires = \"2025-02-31\"\n"))
    );
    println!(
        "PROBE count_exclude {}",
        u8::from(probe("[structure]\ncount_exclude = [\"[a\"]\n"))
    );
}

fn main() {
    quiet_panics();
    let mode = std::env::args().nth(1).unwrap_or_default();
    if mode == "dump" {
        dump();
        return;
    }
    let stdin = io::stdin();
    let stdout = io::stdout();
    let mut out = stdout.lock();
    for line in stdin.lock().lines() {
        let line = line.expect("line");
        let mut it = line.split('\t');
        let doc_hex = it.next().unwrap_or("-");
        let argv_s = it.next().unwrap_or("-");
        let bytes = unhex(doc_hex);
        let argv: Vec<String> = if argv_s == "-" || argv_s.is_empty() {
            Vec::new()
        } else {
            argv_s.split('\u{1f}').map(str::to_string).collect()
        };
        let ans = match String::from_utf8(bytes) {
            Ok(doc) => handle(&doc, &argv),
            Err(_) => "PARSEFAIL\t-".to_string(),
        };
        writeln!(out, "{ans}").expect("write");
        out.flush().expect("flush");
    }
}
