//! Configuration harness (C16 merge / extends resolution, C18 remote fetch).
//!
//! `sgv-config dump` prints MAX_EXTENDS_DEPTH and every built-in preset as a value.
//! `sgv-config run [<scratch root>]` reads tab-separated cases (same syntax as ocaml/config_drv.ml):
//!   value := s <enc> | i <dec> | f <bits> | b 0|1 | d <enc> | a <n> v.. | t <n> <enc key> v ..
//!   merge a b | marr a b | isreset a | strip a | hasany a | validate a | parse <enc toml text>
//!   resolve <noext> <enc path> item..   with item = file;<path>;<canon|!>;M|T <enc text>
//!                                                  | remote;<enc url>;<enc cache text>   (offline cache)
//!   fetch <policy> <now|real> <cache> <expected|!> <server>       (cache: ! absent, = keep, mtime:enc text,
//!         G<mtime>:<bytes, comma separated> a file whose bytes are not UTF-8, D<mtime> a directory at the entry path)
//!   useq <enc url>;<enc url>.. <url idx;policy;now;expected|!;server>..   (a history over SEVERAL URLs sharing one,
//!         initially empty, cache directory under the simulated clock; answer per step: outcome, requests, which of the
//!         URLs the client was asked for (index, ? for a string that is none of them); then the entries found by scanning)
//!   hash <enc text>
//!   prime <enc project root> <enc url> <enc body>      (fills the remote cache of a sandbox through the real fetch path)
//! WHERE a cache entry lives is never computed here: an entry is planted by running the real fetch path
//! once (mock client, refresh policy) and locating what it wrote by a recursive scan of the state
//! directory for `*.toml`; the entry found is then given the wanted content / kind / mtime in place.
//! The cache after a run is whatever `*.toml` entries the scan finds.
//! Every case runs under catch_unwind.
use sgv::{dec, enc, quiet_panics};
use sloc_guard::config::{
    ExtendsResolver, FetchPolicy, FileSystem, HttpClient, compute_content_hash,
    fetch_remote_config_with_client, has_any_reset_markers, is_reset_element, merge_arrays,
    merge_toml_values, strip_reset_markers, validate_reset_positions,
};
use sloc_guard::SlocGuardError;
use std::cell::Cell;
use std::collections::HashMap;
use std::io::{self, BufRead, Write};
use std::path::{Path, PathBuf};
use std::time::{Duration, SystemTime};
use toml::Value;

const URL: &str = "https://example.invalid/sgv/remote.toml";

fn dec_opt(s: &str) -> Option<String> {
    if s == "!" { None } else { Some(dec(s)) }
}

// ------------------------------------------------------------------ values
fn parse_value(s: &str) -> Value {
    let mut it = s.split(' ').filter(|x| !x.is_empty());
    let v = parse_tokens(&mut it);
    assert!(it.next().is_none(), "trailing tokens");
    v
}

fn parse_tokens<'a>(it: &mut impl Iterator<Item = &'a str>) -> Value {
    match it.next().expect("token") {
        "s" => Value::String(dec(it.next().expect("str"))),
        "i" => Value::Integer(it.next().expect("int").parse().expect("i64")),
        "f" => Value::Float(f64::from_bits(it.next().expect("bits").parse().expect("u64"))),
        "b" => Value::Boolean(it.next().expect("bool") == "1"),
        "d" => Value::Datetime(dec(it.next().expect("dt")).parse().expect("datetime")),
        "a" => {
            let n: usize = it.next().expect("n").parse().expect("usize");
            Value::Array((0..n).map(|_| parse_tokens(it)).collect())
        }
        "t" => {
            let n: usize = it.next().expect("n").parse().expect("usize");
            let mut m = toml::map::Map::new();
            for _ in 0..n {
                let k = dec(it.next().expect("key"));
                let v = parse_tokens(it);
                m.insert(k, v);
            }
            Value::Table(m)
        }
        x => panic!("bad token {x}"),
    }
}

fn fmt_value(v: &Value) -> String {
    match v {
        Value::String(s) => format!("s {}", enc(s)),
        Value::Integer(i) => format!("i {i}"),
        Value::Float(f) => format!("f {}", f.to_bits()),
        Value::Boolean(b) => format!("b {}", u8::from(*b)),
        Value::Datetime(d) => format!("d {}", enc(&d.to_string())),
        Value::Array(a) => {
            let mut parts = vec![format!("a {}", a.len())];
            parts.extend(a.iter().map(fmt_value));
            parts.join(" ")
        }
        Value::Table(t) => {
            let mut parts = vec![format!("t {}", t.len())];
            for (k, v) in t {
                parts.push(format!("{} {}", enc(k), fmt_value(v)));
            }
            parts.join(" ")
        }
    }
}

// ------------------------------------------------------------------ errors
fn fmt_chain(c: &[String]) -> String {
    if c.is_empty() {
        "!".to_string()
    } else {
        c.iter().map(|s| enc(s)).collect::<Vec<_>>().join(";")
    }
}

fn fmt_err(e: &SlocGuardError) -> String {
    match e {
        SlocGuardError::FileAccess { path, .. } => {
            format!("ERR FileAccess {}", enc(&path.to_string_lossy()))
        }
        SlocGuardError::Syntax { .. } | SlocGuardError::TomlParse(_) => "ERR Syntax".to_string(),
        SlocGuardError::ExtendsTooDeep { depth, chain, .. } => {
            format!("ERR TooDeep {depth} {}", fmt_chain(chain))
        }
        SlocGuardError::CircularExtends { chain } => format!("ERR Circular {}", fmt_chain(chain)),
        SlocGuardError::ExtendsResolution { path, .. } => format!("ERR Resolution {}", enc(path)),
        SlocGuardError::RemoteConfigHashMismatch { .. } => "ERR Remote 2".to_string(),
        SlocGuardError::Config(m) => {
            if let Some(rest) = m.strip_prefix("'$reset' must be the first element in array '") {
                if let Some((path, pos)) = rest.split_once("', found at position ") {
                    return format!("ERR Reset {} {pos}", enc(path));
                }
            }
            if let Some(rest) = m.strip_prefix("Unknown preset: '") {
                if let Some((name, _)) = rest.split_once("'. Available") {
                    return format!("ERR Preset {}", enc(name));
                }
            }
            if m.starts_with("Remote config cache miss in offline mode") {
                return "ERR Remote 1".to_string();
            }
            // an inheritance key that is present but not a string (fixes D66 / D68)
            for key in ["extends", "extends_sha256"] {
                if m.starts_with(&format!("'{key}' must be a string")) {
                    return format!("ERR BadKey {}", enc(key));
                }
            }
            format!("ERR Config {}", enc(m))
        }
        other => format!("ERR Other {}", enc(&other.to_string())),
    }
}

// ------------------------------------------------------------------ in-memory file system
struct MemFs {
    files: HashMap<PathBuf, (Option<PathBuf>, Option<String>)>,
}

impl FileSystem for MemFs {
    fn read_to_string(&self, path: &Path) -> io::Result<String> {
        match self.files.get(path) {
            Some((_, Some(c))) => Ok(c.clone()),
            _ => Err(io::Error::new(io::ErrorKind::NotFound, "no such file")),
        }
    }
    fn exists(&self, path: &Path) -> bool {
        matches!(self.files.get(path), Some((_, Some(_))))
    }
    fn current_dir(&self) -> io::Result<PathBuf> {
        Ok(PathBuf::from("/cwd"))
    }
    fn config_dir(&self) -> Option<PathBuf> {
        None
    }
    fn canonicalize(&self, path: &Path) -> io::Result<PathBuf> {
        match self.files.get(path) {
            Some((Some(c), _)) => Ok(c.clone()),
            _ => Err(io::Error::new(io::ErrorKind::NotFound, "no such file")),
        }
    }
}

fn sha256_hex(s: &str) -> String {
    compute_content_hash(s)
}

/// Every `*.toml` entry (file, or directory of that name) below the state directory of `root`,
/// found by scanning; the layout below the state directory is the implementation's business.
fn scan_entries(root: &Path) -> Vec<PathBuf> {
    fn walk(dir: &Path, out: &mut Vec<PathBuf>) {
        let Ok(rd) = std::fs::read_dir(dir) else {
            return;
        };
        for e in rd.flatten() {
            let p = e.path();
            let name = e.file_name().to_string_lossy().to_string();
            if name.ends_with(".toml") && !name.starts_with('.') {
                out.push(p);
            } else if p.is_dir() {
                walk(&p, out);
            }
        }
    }
    let mut out = Vec::new();
    walk(&root.join(".sloc-guard"), &mut out);
    walk(&root.join(".git").join("sloc-guard"), &mut out);
    out.sort();
    out
}

fn clear_entries(root: &Path) {
    for e in scan_entries(root) {
        clear_entry(&e);
    }
}

/// Run `f` with the crash / sync / trace hooks switched off (priming is set-up, not the run under test).
fn hooks_off<T>(f: impl FnOnce() -> T) -> T {
    let saved: Vec<(&str, Option<String>)> = ["SGV_CRASH_AT", "SGV_SYNC_DIR", "SGV_TRACE"]
        .iter()
        .map(|k| (*k, std::env::var(k).ok()))
        .collect();
    // SAFETY: the harness is single-threaded
    unsafe {
        for (k, _) in &saved {
            std::env::remove_var(k);
        }
    }
    let r = f();
    unsafe {
        for (k, v) in &saved {
            if let Some(v) = v {
                std::env::set_var(k, v);
            }
        }
    }
    r
}

/// Fill the cache entry of `url` with `body` through the real fetch path (mock client, refresh
/// policy, no pin); returns the entry the run created or rewrote, located by scanning.
fn prime(root: &Path, url: &str, body: &str) -> PathBuf {
    let before: Vec<(PathBuf, Option<Vec<u8>>)> = scan_entries(root)
        .into_iter()
        .map(|p| {
            let b = std::fs::read(&p).ok();
            (p, b)
        })
        .collect();
    let client = Scripted {
        body: Some(body.to_string()),
        fail: 0,
        count: Cell::new(0),
    };
    let r = hooks_off(|| {
        fetch_remote_config_with_client(url, &client, Some(root), None, FetchPolicy::ForceRefresh)
    });
    assert!(r.is_ok(), "priming fetch failed");
    let after = scan_entries(root);
    let mut hit: Vec<PathBuf> = after
        .into_iter()
        .filter(|p| {
            std::fs::read(p).ok().as_deref() == Some(body.as_bytes())
                && !before
                    .iter()
                    .any(|(q, b)| q == p && b.as_deref() == Some(body.as_bytes()))
        })
        .collect();
    if hit.is_empty() {
        // the entry already held this very body: it is the one whose content equals the body
        hit = scan_entries(root)
            .into_iter()
            .filter(|p| std::fs::read(p).ok().as_deref() == Some(body.as_bytes()))
            .collect();
    }
    assert!(hit.len() == 1, "priming did not leave exactly one new entry");
    hit.pop().expect("entry")
}

thread_local! {
    /// the entry path of (root, URL) as learnt from the first priming run of this process
    static LEARNT: std::cell::RefCell<Option<(PathBuf, PathBuf)>> = const { std::cell::RefCell::new(None) };
}

/// The (empty) place where the implementation keeps the entry of URL below `root`.
fn entry_place(root: &Path) -> PathBuf {
    if let Some(p) = LEARNT.with(|l| {
        l.borrow()
            .as_ref()
            .filter(|(r, _)| r == root)
            .map(|(_, p)| p.clone())
    }) {
        if let Some(parent) = p.parent() {
            std::fs::create_dir_all(parent).expect("mkdir");
        }
        return p;
    }
    let p = prime(root, URL, "# sgv priming body\n");
    clear_entry(&p);
    LEARNT.with(|l| *l.borrow_mut() = Some((root.to_path_buf(), p.clone())));
    p
}

/// The single entry present (None when the cache is empty); more than one is reported by the caller.
fn the_entry(root: &Path) -> Option<PathBuf> {
    scan_entries(root).into_iter().next()
}

/// Value-level replica of FileConfigLoader::load_from_path / load_from_path_without_extends
/// (everything up to the typed re-parse), on the real ExtendsResolver.
fn load_top(
    fs: &MemFs,
    root: &Path,
    path: &Path,
    no_extends: bool,
) -> Result<(Value, Option<String>), SlocGuardError> {
    let content = fs
        .read_to_string(path)
        .map_err(|source| SlocGuardError::FileAccess {
            path: path.to_path_buf(),
            source,
        })?;
    let value = ExtendsResolver::<MemFs>::parse_value_with_location(&content, None)?;
    if !no_extends && value.get("extends").is_some() {
        let r = ExtendsResolver::new(fs, FetchPolicy::Offline, Some(root));
        let mut visited = indexmap_new();
        let (mut merged, preset) = r.load_with_extends_from_value(path, value, &mut visited, None, 0)?;
        validate_reset_positions(&merged, "")?;
        strip_reset_markers(&mut merged);
        Ok((merged, preset))
    } else if has_any_reset_markers(&value) {
        let mut value = value;
        validate_reset_positions(&value, "")?;
        strip_reset_markers(&mut value);
        Ok((value, None))
    } else {
        Ok((value, None))
    }
}

fn indexmap_new() -> indexmap::IndexSet<String> {
    indexmap::IndexSet::new()
}

fn resolve_case(f: &[&str], scratch: &Path) -> String {
    let no_ext = f[1] == "1";
    let path = PathBuf::from(dec(f[2]));
    let root = scratch.join("resolve-root");
    let _ = std::fs::remove_dir_all(&root);
    std::fs::create_dir_all(&root).expect("root");
    let mut fs = MemFs {
        files: HashMap::new(),
    };
    for item in &f[3..] {
        let p: Vec<&str> = item.split(';').collect();
        match p[0] {
            "file" => {
                let canon = dec_opt(p[2]).map(PathBuf::from);
                let content = if p[3] == "M" {
                    None
                } else {
                    Some(dec(p[3].strip_prefix("T ").expect("T")))
                };
                fs.files.insert(PathBuf::from(dec(p[1])), (canon, content));
            }
            "remote" => {
                // the offline cache is filled through the real fetch path
                prime(&root, &dec(p[1]), &dec(p[2]));
            }
            _ => panic!("bad item"),
        }
    }
    let r = load_top(&fs, &root, &path, no_ext);
    let _ = std::fs::remove_dir_all(&root);
    match r {
        Ok((v, pu)) => format!(
            "OK {} {}",
            pu.map_or_else(|| "!".to_string(), |s| enc(&s)),
            fmt_value(&v)
        ),
        Err(e) => fmt_err(&e),
    }
}

// ------------------------------------------------------------------ remote fetch
struct Scripted {
    body: Option<String>,
    fail: u32,
    count: Cell<u64>,
}

impl HttpClient for Scripted {
    fn get(&self, url: &str) -> sloc_guard::Result<String> {
        self.count.set(self.count.get() + 1);
        match &self.body {
            Some(b) => Ok(b.clone()),
            None => Err(SlocGuardError::Config(if self.fail == 2 {
                format!("Request timeout fetching remote config: {url}")
            } else {
                format!("Failed to connect to remote config URL: {url}")
            })),
        }
    }
}

fn mtime_secs(p: &Path) -> Option<u64> {
    let m = std::fs::metadata(p).ok()?.modified().ok()?;
    Some(
        m.duration_since(SystemTime::UNIX_EPOCH)
            .map_or(0, |d| d.as_secs()),
    )
}

fn set_mtime(p: &Path, secs: u64) {
    // a directory cannot be opened for writing; futimens does not need a writable descriptor
    let f = if p.is_dir() {
        std::fs::File::open(p).expect("open dir")
    } else {
        std::fs::OpenOptions::new().write(true).open(p).expect("open")
    };
    f.set_modified(SystemTime::UNIX_EPOCH + Duration::from_secs(secs))
        .expect("set_modified");
}

/// Remove whatever sits at the entry path (file or directory).
fn clear_entry(p: &Path) {
    if p.is_dir() {
        let _ = std::fs::remove_dir_all(p);
    } else {
        let _ = std::fs::remove_file(p);
    }
}

/// `<stamp>:<enc text>` for a text file, `G<stamp>:<bytes>` for a file that is not UTF-8,
/// `D<stamp>` for a directory, `!` when nothing is there.
fn entry_state(p: &Path, stamp: u64) -> String {
    if p.is_dir() {
        return format!("D{stamp}");
    }
    match std::fs::read(p) {
        Ok(bytes) => match String::from_utf8(bytes) {
            Ok(text) => format!("{stamp}:{}", enc(&text)),
            Err(e) => {
                let b = e.into_bytes();
                let body = if b.is_empty() {
                    "-".to_string()
                } else {
                    b.iter().map(u8::to_string).collect::<Vec<_>>().join(",")
                };
                format!("G{stamp}:{body}")
            }
        },
        Err(_) => "!".to_string(),
    }
}

fn read_cache_state(p: &Path) -> String {
    entry_state(p, mtime_secs(p).unwrap_or(0))
}

fn fetch_case(f: &[&str], scratch: &Path) -> (String, String, u64) {
    let policy = match f[1] {
        "normal" => FetchPolicy::Normal,
        "offline" => FetchPolicy::Offline,
        "refresh" => FetchPolicy::ForceRefresh,
        _ => panic!("policy"),
    };
    // clock: a number = simulated clock through SGV_NOW; real:<age> = wall clock, the cache
    // entry (if given) is aged relative to it
    let real = f[2].starts_with("real");
    let now: u64 = if real {
        SystemTime::now()
            .duration_since(SystemTime::UNIX_EPOCH)
            .expect("clock")
            .as_secs()
    } else {
        f[2].parse().expect("now")
    };
    // SAFETY: the harness is single-threaded
    unsafe {
        if real {
            std::env::remove_var("SGV_NOW");
        } else {
            std::env::set_var("SGV_NOW", now.to_string());
        }
    }
    let root = scratch.join("fetch-root");
    std::fs::create_dir_all(&root).expect("mkdir");
    let mut preset_mtime: Option<u64> = None;
    match f[3] {
        "=" => {
            preset_mtime = the_entry(&root).and_then(|p| mtime_secs(&p));
        }
        "!" => {
            clear_entries(&root);
        }
        c => {
            clear_entries(&root);
            let cp = entry_place(&root);
            // real clock: the stamp field is the AGE of the entry in seconds
            let stamp_of = |m: &str| -> u64 {
                let m: u64 = m.parse().expect("mtime");
                if real { now - m } else { m }
            };
            let stamp = if let Some(m) = c.strip_prefix('D') {
                std::fs::create_dir(&cp).expect("mkdir entry");
                stamp_of(m)
            } else if let Some(rest) = c.strip_prefix('G') {
                let (m, b) = rest.split_once(':').expect("cache");
                let bytes: Vec<u8> = if b == "-" {
                    Vec::new()
                } else {
                    b.split(',').map(|t| t.parse::<u8>().expect("byte")).collect()
                };
                std::fs::write(&cp, bytes).expect("write");
                stamp_of(m)
            } else {
                let (m, b) = c.split_once(':').expect("cache");
                std::fs::write(&cp, dec(b)).expect("write");
                stamp_of(m)
            };
            set_mtime(&cp, stamp);
            preset_mtime = Some(stamp);
        }
    }
    let expected = dec_opt(f[4]);
    let (kind, arg) = f[5].split_once(':').expect("server");
    let client = Scripted {
        body: if kind == "B" { Some(dec(arg)) } else { None },
        fail: if kind == "F" { arg.parse().expect("kind") } else { 0 },
        count: Cell::new(0),
    };
    let r = fetch_remote_config_with_client(URL, &client, Some(&root), expected.as_deref(), policy);
    let out = match &r {
        Ok(s) => format!("CONTENT {}", enc(s)),
        Err(SlocGuardError::RemoteConfigHashMismatch { actual, .. }) => {
            format!("MISMATCH {}", enc(actual))
        }
        Err(SlocGuardError::Config(m)) if m.starts_with("Remote config cache miss in offline mode") => {
            "MISS".to_string()
        }
        Err(SlocGuardError::Config(m)) if m.starts_with("Request timeout") => "FAIL 2".to_string(),
        Err(SlocGuardError::Config(m)) if m.starts_with("Failed to connect") => "FAIL 1".to_string(),
        Err(e) => format!("OTHER {}", enc(&e.to_string())),
    };
    // the file system stamps a fresh write with the wall clock; under the simulated clock the
    // harness re-stamps an entry written by this call with the simulated time
    let entries = scan_entries(&root);
    if entries.len() > 1 {
        return (out, format!("MULTI {}", entries.len()), client.count.get());
    }
    let state = match entries.first() {
        None => "!".to_string(),
        Some(cp) => {
            let after = mtime_secs(cp);
            let written = after.is_some() && after != preset_mtime;
            if written && !real {
                set_mtime(cp, now);
            }
            if real {
                // report the age instead of the absolute time
                entry_state(
                    cp,
                    if written { 0 } else { now.saturating_sub(mtime_secs(cp).unwrap_or(0)) },
                )
            } else {
                read_cache_state(cp)
            }
        }
    };
    (out, state, client.count.get())
}

/// Scripted client that also records which URL it was asked for.
struct Recording {
    body: Option<String>,
    fail: u32,
    asked: std::cell::RefCell<Vec<String>>,
}

impl HttpClient for Recording {
    fn get(&self, url: &str) -> sloc_guard::Result<String> {
        self.asked.borrow_mut().push(url.to_string());
        match &self.body {
            Some(b) => Ok(b.clone()),
            None => Err(SlocGuardError::Config(if self.fail == 2 {
                format!("Request timeout fetching remote config: {url}")
            } else {
                format!("Failed to connect to remote config URL: {url}")
            })),
        }
    }
}

fn fmt_fetch_result(r: &Result<String, SlocGuardError>) -> String {
    match r {
        Ok(s) => format!("CONTENT {}", enc(s)),
        Err(SlocGuardError::RemoteConfigHashMismatch { actual, .. }) => {
            format!("MISMATCH {}", enc(actual))
        }
        Err(SlocGuardError::Config(m)) if m.starts_with("Remote config cache miss in offline mode") => {
            "MISS".to_string()
        }
        Err(SlocGuardError::Config(m)) if m.starts_with("Request timeout") => "FAIL 2".to_string(),
        Err(SlocGuardError::Config(m)) if m.starts_with("Failed to connect") => "FAIL 1".to_string(),
        Err(e) => format!("OTHER {}", enc(&e.to_string())),
    }
}

/// A history of fetches over several URLs sharing one cache directory (initially empty), simulated clock.
fn useq_case(f: &[&str], scratch: &Path) -> String {
    let urls: Vec<String> = f[1].split(';').map(dec).collect();
    let root = scratch.join("useq-root");
    let _ = std::fs::remove_dir_all(&root);
    std::fs::create_dir_all(&root).expect("mkdir");
    let mut outs = Vec::new();
    for step in &f[2..] {
        let p: Vec<&str> = step.split(';').collect();
        let url = &urls[p[0].parse::<usize>().expect("url idx")];
        let policy = match p[1] {
            "normal" => FetchPolicy::Normal,
            "offline" => FetchPolicy::Offline,
            "refresh" => FetchPolicy::ForceRefresh,
            _ => panic!("policy"),
        };
        let now: u64 = p[2].parse().expect("now");
        // SAFETY: the harness is single-threaded
        unsafe {
            std::env::set_var("SGV_NOW", now.to_string());
        }
        let expected = dec_opt(p[3]);
        let (kind, arg) = p[4].split_once(':').expect("server");
        let client = Recording {
            body: if kind == "B" { Some(dec(arg)) } else { None },
            fail: if kind == "F" { arg.parse().expect("kind") } else { 0 },
            asked: std::cell::RefCell::new(Vec::new()),
        };
        let before: HashMap<PathBuf, Option<u64>> = scan_entries(&root)
            .into_iter()
            .map(|e| {
                let m = mtime_secs(&e);
                (e, m)
            })
            .collect();
        let r = fetch_remote_config_with_client(url, &client, Some(&root), expected.as_deref(), policy);
        // an entry written by this call carries the wall clock: re-stamp it with the simulated time
        for e in scan_entries(&root) {
            if before.get(&e) != Some(&mtime_secs(&e)) {
                set_mtime(&e, now);
            }
        }
        let asked = client.asked.borrow();
        let which: Vec<String> = asked
            .iter()
            .map(|a| urls.iter().position(|u| u == a).map_or_else(|| "?".to_string(), |i| i.to_string()))
            .collect();
        outs.push(format!(
            "{} {} {}",
            fmt_fetch_result(&r),
            asked.len(),
            if which.is_empty() { "!".to_string() } else { which.join("+") }
        ));
    }
    let entries: Vec<String> = scan_entries(&root).iter().map(|e| read_cache_state(e)).collect();
    let _ = std::fs::remove_dir_all(&root);
    format!(
        "{} | {}",
        outs.join(" ; "),
        if entries.is_empty() { "!".to_string() } else { entries.join(" & ") }
    )
}

fn validate_fmt(v: &Value) -> String {
    match validate_reset_positions(v, "") {
        Ok(()) => "OK".to_string(),
        Err(e) => match fmt_err(&e) {
            s if s.starts_with("ERR Reset ") => format!("ERR {}", &s["ERR Reset ".len()..]),
            s => s,
        },
    }
}

fn handle(f: &[&str], scratch: &Path) -> String {
    match f[0] {
        "merge" => fmt_value(&merge_toml_values(parse_value(f[1]), parse_value(f[2]))),
        "marr" => match (parse_value(f[1]), parse_value(f[2])) {
            (Value::Array(a), Value::Array(b)) => fmt_value(&merge_arrays(a, b)),
            _ => "BADARGS".to_string(),
        },
        "isreset" => u8::from(is_reset_element(&parse_value(f[1]))).to_string(),
        "strip" => {
            let mut v = parse_value(f[1]);
            strip_reset_markers(&mut v);
            fmt_value(&v)
        }
        "hasany" => u8::from(has_any_reset_markers(&parse_value(f[1]))).to_string(),
        "validate" => validate_fmt(&parse_value(f[1])),
        "fold" => {
            let mut acc = parse_value(f[1]);
            for m in &f[2..] {
                acc = merge_toml_values(acc, parse_value(m));
            }
            fmt_value(&acc)
        }
        "parse" => match toml::from_str::<Value>(&dec(f[1])) {
            Ok(v) => fmt_value(&v),
            Err(_) => "SYNTAX".to_string(),
        },
        "emit" => match toml::to_string(&parse_value(f[1])) {
            Ok(s) => enc(&s),
            Err(_) => "UNSERIALISABLE".to_string(),
        },
        "hash" => enc(&sha256_hex(&dec(f[1]))),
        // prime <root> <url> <body>: the sandbox's remote cache is filled through the real fetch path
        "prime" => {
            let p = prime(Path::new(&dec(f[1])), &dec(f[2]), &dec(f[3]));
            format!("OK {}", enc(&p.to_string_lossy()))
        }
        "resolve" => resolve_case(f, scratch),
        "useq" => useq_case(f, scratch),
        "fetch" => {
            let (o, st, n) = fetch_case(f, scratch);
            format!("{o} | {st} | {n}")
        }
        // seq <cache> <policy;now;expected;server>.. : fetches sharing one cache file
        "seq" => {
            let mut outs = Vec::new();
            let mut last = String::from("!");
            for (k, step) in f[2..].iter().enumerate() {
                let p: Vec<&str> = step.split(';').collect();
                let fields = ["fetch", p[0], p[1], if k == 0 { f[1] } else { "=" }, p[2], p[3]];
                let (o, st, n) = fetch_case(&fields, scratch);
                outs.push(format!("{o} {n}"));
                last = st;
            }
            format!("{} | {last}", outs.join(" ; "))
        }
        _ => "BADLINE".to_string(),
    }
}

fn main() {
    if std::env::var("SGV_DEBUG").is_err() {
        quiet_panics();
    }
    let mode = std::env::args().nth(1).unwrap_or_default();
    let out = io::stdout();
    let mut out = out.lock();
    if mode == "dump" {
        writeln!(out, "MAX\t{}", sloc_guard::config::MAX_EXTENDS_DEPTH).unwrap();
        for name in sloc_guard::config::presets::AVAILABLE_PRESETS {
            let v = sloc_guard::config::presets::load_preset(name).expect("preset");
            writeln!(out, "PRESET\t{}\t{}", enc(name), fmt_value(&v)).unwrap();
        }
        return;
    }
    // scratch root: argument, else a private directory that is removed at exit
    let (scratch, own) = match std::env::args().nth(2) {
        Some(p) => (PathBuf::from(p), false),
        None => (
            std::env::temp_dir().join(format!("sgv-config-{}", std::process::id())),
            true,
        ),
    };
    std::fs::create_dir_all(&scratch).expect("scratch");
    for l in io::stdin().lock().lines() {
        let l = l.unwrap();
        let f: Vec<&str> = l.split('\t').collect();
        let r = std::panic::catch_unwind(|| handle(&f, &scratch));
        match r {
            Ok(s) => writeln!(out, "{s}").unwrap(),
            Err(_) => writeln!(out, "PANIC").unwrap(),
        }
        out.flush().unwrap();
    }
    if own {
        let _ = std::fs::remove_dir_all(&scratch);
    }
}
